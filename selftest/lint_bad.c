/* positive controls for sa/lints.py: every pattern the lints look for must be found here on every run */
#include <string.h>
#include <stddef.h>
#include <stdint.h>
int lintbad_bool_length(const unsigned char *a, const unsigned char *b, size_t n)
{
	return memcmp(a, b, n != 0);        /* length argument is a truth value */
}

void lintbad_limb_split(unsigned short *z, unsigned u0, unsigned v0)
{
	z[1] = u0 & 0x7FFF;
	z[2] = (u0 >> 15) & 0x7FFF;
	z[3] = v0 >> 30;                     /* third limb taken from another variable */
}

/* positive control for tail-copy-from-running-pointer: the partial last block is taken from the start of the input */
void lintbad_tail_copy(unsigned *acc, const void *data, size_t len)
{
	const unsigned char *buf = data;
	while (len > 0) {
		unsigned char tmp[16];
		const unsigned char *src;
		if (len >= 16) {
			src = buf;
			buf += 16;
			len -= 16;
		} else {
			memcpy(tmp, data, len);
			memset(tmp + len, 0, 16 - len);
			src = tmp;
			len = 0;
		}
		*acc += src[0] + src[15];
	}
}

/* negative control: the correct form */
void lintgood_tail_copy(unsigned *acc, const void *data, size_t len)
{
	const unsigned char *buf = data;
	while (len > 0) {
		unsigned char tmp[16];
		const unsigned char *src;
		if (len >= 16) {
			src = buf;
			buf += 16;
			len -= 16;
		} else {
			memcpy(tmp, buf, len);
			memset(tmp + len, 0, 16 - len);
			src = tmp;
			len = 0;
		}
		*acc += src[0] + src[15];
	}
}

/* word-codec-map-consistent: slot 1 absorbs two offsets, slot 0 none */
static inline uint32_t br_dec32be(const void *p) { const unsigned char *b = p; return ((uint32_t)b[0] << 24) | ((uint32_t)b[1] << 16) | ((uint32_t)b[2] << 8) | b[3]; }
static inline void br_enc32be(void *p, uint32_t x) { unsigned char *b = p; b[0] = x >> 24; b[1] = x >> 16; b[2] = x >> 8; b[3] = x; }
void mixw(uint32_t *w);
void lintbad_codec_map(unsigned char *y, const unsigned char *src)
{
	uint32_t yw[4];
	yw[3] = br_dec32be(y); yw[2] = br_dec32be(y + 4); yw[1] = br_dec32be(y + 8); yw[0] = br_dec32be(y + 12);
	yw[3] ^= br_dec32be(src); yw[2] ^= br_dec32be(src + 4); yw[1] ^= br_dec32be(src + 8); yw[1] ^= br_dec32be(src + 12);
	mixw(yw);
	br_enc32be(y, yw[3]); br_enc32be(y + 4, yw[2]); br_enc32be(y + 8, yw[1]); br_enc32be(y + 12, yw[0]);
}
void lintgood_codec_map(unsigned char *y, const unsigned char *src)
{
	uint32_t yw[4], q[4], iv0;
	yw[3] = br_dec32be(y); yw[2] = br_dec32be(y + 4); yw[1] = br_dec32be(y + 8); yw[0] = br_dec32be(y + 12);
	yw[3] ^= br_dec32be(src); yw[2] ^= br_dec32be(src + 4); yw[1] ^= br_dec32be(src + 8); yw[0] ^= br_dec32be(src + 12);
	iv0 = br_dec32be(src + 16); q[0] = q[1] = iv0; q[2] = q[3] = br_dec32be(src + 20);
	mixw(yw); mixw(q);
	br_enc32be(y, yw[3]); br_enc32be(y + 4, yw[2]); br_enc32be(y + 8, yw[1]); br_enc32be(y + 12, yw[0]);
}

/* word-split-conserves-bits: bit 62 of the top product word is dropped (th should be hi >> 62) */
void lintbad_word_split(uint64_t *d, const uint64_t *a, const uint64_t *b)
{
	unsigned __int128 z = (unsigned __int128)a[0] * b[0];
	uint64_t lo = (uint64_t)z, hi = (uint64_t)(z >> 64), th;
	th = hi >> 63;
	hi = ((hi << 1) | (lo >> 63)) & 0x7FFFFFFFFFFFFFFFull;
	lo &= 0x7FFFFFFFFFFFFFFFull;
	d[0] = lo + 19 * hi; d[1] = th;
}
void lintgood_word_split(uint64_t *d, const uint64_t *a, const uint64_t *b)
{
	unsigned __int128 z = (unsigned __int128)a[0] * b[0];
	uint64_t lo = (uint64_t)z, hi = (uint64_t)(z >> 64), th;
	th = hi >> 62;
	hi = ((hi << 1) | (lo >> 63)) & 0x7FFFFFFFFFFFFFFFull;
	lo &= 0x7FFFFFFFFFFFFFFFull;
	d[0] = lo + 19 * hi; d[1] = th;
}

/* or-scan-covers-array */
void fillw(uint32_t *t);
uint32_t lintbad_or_scan(void)
{
	uint32_t t[20], bad = 0; int i;
	fillw(t);
	for (i = 0; i < 19; i ++) bad |= t[i];
	return bad;
}
uint32_t lintgood_or_scan(void)
{
	uint32_t t[20], bad = 0; int i;
	fillw(t);
	for (i = 0; i < 20; i ++) bad |= t[i];
	return bad;
}

/* round-down-mask-keeps-high-word */
uint64_t lintbad_narrow_mask(uint64_t count) { return count & ~127u; }
uint64_t lintgood_narrow_mask(uint64_t count) { return count & ~(uint64_t)127; }
uint64_t lintgood_narrow_mask2(uint32_t lo) { return (uint64_t)lo & ~127u; }
