/* positive controls for sa/lints.py: every pattern the lints look for must be found here on every run */
#include <string.h>
#include <stddef.h>
int lintbad_bool_length(const unsigned char *a, const unsigned char *b, size_t n)
{
	return memcmp(a, b, n != 0);        /* length argument is a truth value */
}

void lintbad_limb_split(unsigned short *z, unsigned u0, unsigned v0)
{
	z[1] = u0 & 0x7FFF;
	z[2] = (u0 >> 15) & 0x7FFF;
	z[3] = v0 >> 30;                     /* third limb taken from another variable */
}
