/* positive controls for sa/lints.py: every pattern the lints look for must be found here on every run */
#include <string.h>
#include <stddef.h>
int lintbad_bool_length(const unsigned char *a, const unsigned char *b, size_t n)
{
	return memcmp(a, b, n != 0);        /* length argument is a truth value */
}

void lintbad_limb_split(unsigned short *z, unsigned u0, unsigned v0)
{
	z[1] = u0 & 0x7FFF;
	z[2] = (u0 >> 15) & 0x7FFF;
	z[3] = v0 >> 30;                     /* third limb taken from another variable */
}

/* positive control for tail-copy-from-running-pointer: the partial last block is taken from the start of the input */
void lintbad_tail_copy(unsigned *acc, const void *data, size_t len)
{
	const unsigned char *buf = data;
	while (len > 0) {
		unsigned char tmp[16];
		const unsigned char *src;
		if (len >= 16) {
			src = buf;
			buf += 16;
			len -= 16;
		} else {
			memcpy(tmp, data, len);
			memset(tmp + len, 0, 16 - len);
			src = tmp;
			len = 0;
		}
		*acc += src[0] + src[15];
	}
}

/* negative control: the correct form */
void lintgood_tail_copy(unsigned *acc, const void *data, size_t len)
{
	const unsigned char *buf = data;
	while (len > 0) {
		unsigned char tmp[16];
		const unsigned char *src;
		if (len >= 16) {
			src = buf;
			buf += 16;
			len -= 16;
		} else {
			memcpy(tmp, buf, len);
			memset(tmp + len, 0, 16 - len);
			src = tmp;
			len = 0;
		}
		*acc += src[0] + src[15];
	}
}
