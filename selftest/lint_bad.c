/* positive controls for sa/lints.py: every pattern the lints look for must be found here on every run */
#include <string.h>
#include <stddef.h>
int lintbad_bool_length(const unsigned char *a, const unsigned char *b, size_t n)
{
	return memcmp(a, b, n != 0);        /* length argument is a truth value */
}
