/* Positive controls for the C08 taint engine: each function leaks its secret in one classic way. */
#include <stddef.h>
#include <stdint.h>
#include <string.h>

static const unsigned char TABLE[256] = { 1, 2, 3 };

/* early-exit comparison: branch on secret bytes */
int ctbad_early_exit(const unsigned char *secret, const unsigned char *pub, size_t len)
{
	size_t u;
	for (u = 0; u < len; u ++) {
		if (secret[u] != pub[u]) {
			return 0;
		}
	}
	return 1;
}

/* secret-indexed table lookup: address depends on the secret */
unsigned ctbad_table(const unsigned char *secret)
{
	return TABLE[secret[0]];
}

/* conditional move written as a branch */
uint32_t ctbad_mux(uint32_t ctl, uint32_t a, uint32_t b)
{
	if (ctl) {
		return a;
	}
	return b;
}

/* call to a non-constant-time routine on secret data */
int ctbad_memcmp(const unsigned char *secret, const unsigned char *pub)
{
	return memcmp(secret, pub, 16);
}

/* negative control: a genuinely constant-time comparison */
uint32_t ctgood_eq(const unsigned char *secret, const unsigned char *pub, size_t len)
{
	size_t u;
	uint32_t z = 0;
	for (u = 0; u < len; u ++) {
		z |= secret[u] ^ pub[u];
	}
	return (uint32_t)((z | -z) >> 31) ^ 1;
}

/* early exit through a loop-carried register: the secret reaches the loop condition only along the back edge (no memory involved).
 * The engine once reused a memoised result for the function although its own phis had changed in the previous pass, and missed it. */
int ctbad_loop_carried(const unsigned char *secret, const unsigned char *pub, size_t len)
{
	size_t u;
	int c = 0;
	for (u = 0; u < len && c == 0; u ++) {
		c = (int)secret[u] - (int)pub[u];
		c = (c >> 8) | (int)((unsigned)-c >> 31);
	}
	return c;
}
