#!/usr/bin/env python3
"""Regenerates MANIFEST.json from the table below (kept in one place so it is always valid)."""
import json, os
CLAIMED = {
 'C01': dict(technique='tables lifted from the T0 data blocks vs the IANA registry, concrete unrolling of the suite lookup in the T0 model, symbolic (affine) key-block offsets from the IR vs RFC 5246 6.3, reader/writer agreement rules',
             text='Static clauses: suite tables of client and server equal the IANA registry and each other; every suite reaches the switch natives with the registry\'s mode, key length, MAC, PRF and tag length; the eight switch functions use the RFC 5246 key-block layout for both roles; premaster version writer/reader agree. Does not decide byte-exact delivery or buffering.',
             note='Trusted: embedded IANA table, sa/t0ai.py, debug-info variable names.'),
 'C02': dict(technique='must-conjunct dataflow on the accept verdict of each decrypt method, hypothesis folding of the engine\'s rejection paths and of the record-length gates, exactly-once path rule for sequence numbers, call-order (dominance) rule',
             text='Static necessary conditions: a failed padding/MAC/tag/length contribution forces rejection in all four record decrypt methods; rejection is turned into BR_ERR_BAD_MAC / BAD_LENGTH with no payload released; length gates match the decrypt arithmetic; sequence numbers advance exactly once per record; GCM tags cover the ciphertext. Does not decide MAC values or which fields enter the MAC.',
             note='Trusted: clang/opt 14, sa/oblig.py, debug-info variable names as site selectors.'),
 'C03': dict(technique='must-call dataflow and hypothesis pins on the T0 handshake bytecode (abstract interpretation with path-sensitive word summaries), hypothesis folding of the C helpers',
             text='Static necessary conditions: application data is enabled only after a completed read-Finished on every path; a Finished mismatch, a failed ServerKeyExchange/CertificateVerify verification and a failed certificate validation (server: unless exactly BR_OPT_TOLERATE_NO_CLIENT_AUTH) end in fail(error); the Finished is read under the new keys; C helpers report every failing primitive; a failed key exchange is replaced by random bytes; anti-rollback version is written. Does not decide transcript-hash sensitivity or negotiation content.',
             note='Trusted: T0 decoder, IR-derived native stack effects, kernel-word models (arithmetic/stack natives by name), clang/opt 14.'),
 'C04': dict(technique='hypothesis folding of the trust/signature helpers and the verdict API, who-may-write scan of the acceptance code, hypothesis pins on the X.509 T0 bytecode',
             text='Static necessary conditions: every failing primitive / mismatch in verify_signature and the trust-anchor helpers rejects; BR_ERR_X509_OK is stored only inside the engine and only under a positive helper verdict (static and dynamic anchors); the verdict API reports errors and releases no key from a rejected chain; in the T0 code a failed issuer signature, validity range or issuer/subject DN mismatch forces its failure code; all documented rejection codes have reachable sites. Does not decide ASN.1 decoding or equality with a reference validator.',
             note='Trusted: clang/opt 14, sa/t0.py, sa/t0ai.py.'),
 'C05': dict(technique='exhaustive stack-depth and balance analysis of the T0 bytecode with native effects derived from the run function IR; struct layouts from debug info',
             text='Static: for all seven T0 interpreters (X.509 minimal/decoder, private/public key decoders, PEM, client and server handshake) the maximum data and return stack depth over every path of every word fits the context arrays, every join is balanced, the call graph is acyclic and the stack pointers are initialised to the arrays. Decides VM stack safety for every input; does not decide the C code of native words.',
             note='Trusted: clang 14 IR, irdump, sa/t0.py decoder; the interpreter skeleton is re-derived from IR (exit 2 if unrecognised). LP64 layouts.'),
 'C11': dict(technique='constant tables vs values generated from SEC 2 / RFC 7748 + hypothesis folding of rejection obligations + must-conjunct dataflow',
             text='Static: curve constants of every EC implementation equal standard-derived values (self-checked reference: generators on curve, n*G = O); invalid coordinates, off-curve points, r/s range, s = 0 and failed point arithmetic force the failure return in prime_i15/i31 and both ECDSA verifiers. Does not decide the group law or scalar multiplication values.',
             note='Trusted: reference constants and encoders in sa/tab.py, clang/opt 14, obligation table in sa/checks/c11.py.'),
 'C12': dict(technique='constant tables and immediates vs values generated from FIPS 197 / RFC 8439; class-descriptor and vtable-wiring agreement across sibling implementations',
             text='Static: AES S-box, inverse S-box, Rcon and MixColumns-merged tables, ChaCha20 constants and rotation amounts, Poly1305 modulus/clamp equal generated standard values; every block-cipher class descriptor has the right geometry and its slots point into its own implementation family. Does not decide bitsliced circuits, key schedules or mode logic.',
             note='Trusted: generators in sa/tab.py, clang 14 constant folding. DES merged tables are not covered (implementation-specific layout).'),
 'C13': dict(technique='constant tables vs values generated from RFC 1321 / FIPS 180-4, descriptor words vs specification-derived geometry, PRF call-shape (label, seed order) from the IR',
             text='Static: IVs, round constants, MD5 schedule, digest OIDs and the id->OID map, every br_hash_class descriptor word and context size, and the TLS master-secret / key-expansion PRF call shapes (label string, seed order, lengths) equal their standards. Does not decide compression functions or streaming logic.',
             note='Trusted: generators in sa/tab.py (exact integer arithmetic), clang 14 constant folding.'),
 'C14': dict(technique='hypothesis folding of parameter-rejection obligations; structural (SSA) shape rule for the tag comparison; must-conjunct dataflow',
             text='Static: br_ccm_reset rejects every forbidden nonce/tag/length range before touching the block cipher; GCM/EAX/CCM verdicts are EQ0 of an OR-accumulated XOR between the buffer filled by get_tag and the caller tag over the full requested length. Does not decide tag/ciphertext values or streaming invariance.',
             note='Trusted: clang/opt 14, the shape recogniser in sa/checks/c14.py (exit 2 / violation if the loop no longer has that shape).'),
 'C19': dict(technique='abstract interpretation of the T0 handshake bytecode (value ranges of every fail argument), dominance rule for the closure site, hypothesis folding of renegotiate / close / I/O wrapper',
             text='Static: no failure site of either handshake interpreter can carry error code 0 except the single orderly-closure site that follows a queued close_notify; renegotiation is declined without entering the handshake under each documented condition; close discards unread data before the closure handshake; the I/O wrapper maps transport errors to BR_ERR_IO and propagates failures. Does not decide stream ordering around closure/renegotiation.',
             note='Trusted: sa/t0.py, sa/t0ai.py kernel-word models, clang/opt 14.'),
 'C20': dict(technique='hypothesis folding on the seeding gate, whole-program who-may-write scan of the seeded flag and sequence numbers, exactly-once path rule (dominance, loop membership) for seq increments',
             text='Static: no path starts a handshake or marks the DRBG seeded when seeding failed; system seeders fail closed; each of the 8 record encrypt/decrypt methods increments its 64-bit sequence number exactly once per record, every init zeroes it, nobody else writes it. Does not decide distinctness/reproducibility of random values.',
             note='Trusted: clang/opt 14, debug-info layouts, sa/wmw.py store scan over all 295 units of the build.'),
 'C06': dict(technique='whole-program who-may-write scan, hypothesis folding of the failure latch / state word / buffer accessors, dominance rule for the half-duplex mode switch',
             text='Static: only the fail function and the buffer-reset functions write err; nothing moves a failed engine out of FAILED; current_state reports CLOSED alone when closed and each flag iff its buffer accessor is non-NULL; accessors return NULL when failed / before application data is allowed; the shared-buffer mode switch is the first effect of recvrec_ack and sendpld_ack on every path. Does not decide the buffer-register arithmetic.',
             note='Trusted: clang/opt 14, debug-info layouts, sa/wmw.py.'),
 'C08': dict(technique='interprocedural, context-sensitive secret-taint (information-flow) analysis over LLVM IR with a region/view/cell memory model; declassification only at guarded source marks',
             text='Static, IR level: for each listed constant-time entry point (RSA private i15/i31, EC multiplication of all implementations, bitsliced AES/DES, ChaCha20, Poly1305, GHASH, conditional copy/swap, ...) no secret-labelled value reaches a branch/switch condition, a memory address or copy length, a division operand, an indirect-call target or a non-constant-time routine. Does not decide machine code or micro-architectural leaks.',
             note='Trusted: clang 14 IR, sa/flow.py (assumptions A, B, C listed in the evidence), the policy table of secret inputs in sa/checks/c08.py, the declassification marks committed in /repo (guard BR_VERIF_HOOKS).'),
 'C10': dict(technique='hypothesis folding (LLVM constant/range propagation under an added assumption) + must-conjunct dataflow on SSA, per implementation, with negative controls',
             text='Static: each listed validity result / length condition of the RSA public, private, verify, decrypt, unpad and key-derivation functions (i15, i31, i32, i62), when it signals failure, forces the failure return on every path; each padding-structure contribution is a conjunct of the verdict (loop-aware must-dataflow). Decides rejection discipline, not arithmetic correctness.',
             note='Trusted: clang/opt 14, the obligation table (sa/checks/c10.py), debug-info variable names as site selectors. Host configuration only in quick tier.'),
}
ADDED = {
 'C01': 'engine I/O transition table (progress, ready state), handshake-state reinitialisation on reset, ServerKeyExchange hash by version, key-export seed (RFC 5705), explicit nonce taken from the record, CBC padding length range, ECDH buffer sizes, transcript hash follows the wire bytes, max_frag_len / log_max_frag_len agreement, I/O wrapper acknowledges the transport count, every mode admits a full 2^14-byte fragment and an empty record (accept side of the length gates)',
 'C02': 'engine rejection table, CBC block-multiple gates and padding range / length, Poly1305 block decoding (bit provenance), sequence-number encoding, GHASH tail, word layout maps (GHASH), CCM tag comparison shape, explicit nonce taken from the record',
 'C03': 'key usage / key type per suite, resumption rules, session invalidation on failure, signature hash comparison shape, ECDSA verifier obligations, FALLBACK_SCSV grid, CertificateVerify hash range, server-name handling, mandatory-check reference of both handshake interpreters, transcript hash follows the wire bytes, exact EMSA-PKCS1-v1_5 template, server-chosen suite checked against the offered list, start_chain receives the server name on every handshake incl. renegotiation (choice depends on the caller flag alone)',
 'C04': 'anchor comparison operands, key-usage masks, name comparison vectors, calendar table, OID table, ASN.1 signature length obligations, decode_mod source coverage, unavoidable CA test, mandatory-check reference, minimum RSA size threshold, RSA verifier wrapper obligations, UTF-8 decoder / encoder tables (RFC 3629), validity range over all 81 ordering cases, exact EMSA-PKCS1-v1_5 template, on-demand anchor lookup key',
 'C05': 'whole-library bounded-copy rule (178 armed sites), engine buffer bounds and offered regions, no resume after failure, status accessors, curve-id range, self-indexed buffer wrap, modpow window room, mandatory-check reference of the key decoders, P-256 point length gate, PSS size guard compares the length value actually subtracted from',
 'C06': 'I/O buffers disjoint, close order, renegotiation declined, input-only mode is read-only, engine progress / ready / offered regions, state reinitialisation, close_notify flag kept, CBC split room, received-record dispatch table',
 'C08': 'engine re-runs instances until their own SSA values settle (loop-carried flows); 98 entries incl. ECDSA signers, hash functions on secret data, HMAC key setup; mark audit; bits2int order; intraprocedural OAEP unpadding rule; failed key exchange randomised',
 'C10': 'keygen forced bits, zero stripping direction, public-exponent gate, modpow temporaries, key-exchange padding coverage, muladd quotient mask, sibling call sequences (i15/i31/i32), decode_mod coverage, public exponent conversion in key generation, exact EMSA-PKCS1-v1_5 template, full-word carry chains (i32)',
 'C11': 'muladd zero test, RFC 6979 inputs, P-256 decode conjuncts, ASN.1 length / sign rules, zero-hash verification, final-reduction selector, keygen candidate independence, formula tables, sibling call sequences (i15/i31, m15/m31, m62/m64), word layout maps, accumulator re-splits keep every bit, OR-scans cover their array, X25519 scalar right-aligned in all six implementations',
 'C12': 'SSE2 / AES-NI lane counters, counter carry chains, CTR counter advance, Poly1305 wrap, block decoding and ctmulq carry ranges, DES EDE schedule, GHASH partial block, empty chunk identity, CBC-dec IV, tail-copy lint, sibling call sequences (aes_big/aes_small), AES key expansion rule (FIPS 197), word layout maps, accumulator re-splits, AES-NI round-key chains (57), bitsliced CTR lane counters',
 'C13': 'TLS 1.0 PRF shape, HMAC constant-time window and key handling, MD padding and update chunking, DRBG state update / chunking / seed padding, SHAKE padding and round constants, HKDF blocks / positions / limit, hash state save and restore, SHAKE lane complement set, PRF output cleared before P_hash, HMAC_DRBG empty-seed test, 64-bit counters not rounded down with 32-bit masks (lint with controls)',
 'C14': 'chunk completion, authenticated bytes, EAX MAC restart, counter carry chains, empty chunk identity, lane counters, GHASH tail, reset is history-free (sa/resetflow.py), word layout maps, AES-NI round-key chains, bitsliced CTR lane counters, 64-bit counters not rounded down with 32-bit masks',
 'C19': 'close order, renegotiation declined / binding / extension required, alert levels and parser state, close_notify flag kept, record type restored before yield, no-renegotiation option, engine progress table, I/O wrapper closes the engine on a failed write, discard-input reachable from the closing sequence only, received-record dispatch table (18 cases), I/O wrapper acknowledges the transport count, SCSV refused on renegotiation',
 'C20': 'seed fully absorbed, sequence-number encoding, record IV writers, ephemeral key fully drawn, session ID freshness, hello randoms drawn and fresh per handshake, hardware seeders (ESP8266, Pico configurations) feed every byte drawn, seeder rules on three configurations',
}
NA = {
 'C07': 'outcome independent of chunking is a statement about suspended interpreter state across pushes; only a frozen-bytecode-fragment match would be available statically',
 'C09': 'exact numerical results of word primitives and big-integer routines over all operands need a solver or arbitrary-precision oracle, not a shape-of-code rule',
 'C15': 'negotiation result equals a reference function of two run-time configurations, computed in T0 arithmetic over run-time lists',
 'C16': 'numeric relations between buffer sizes, per-mode overheads and record lengths at run time',
 'C17': 'LRU/tree behaviour over operation histories; no non-trivial necessary condition is visible in the shape of the code',
 'C18': 'encoder/decoder round-trip equalities over all keys and payloads are value statements (its buffer mis-sizing is reported under C05)',
}
PENDING = {}   # filled below: properties designed as claimed but whose check is not built yet
ALL = ['C%02d' % i for i in range(1, 21)]
for p in ALL:
    if p not in CLAIMED and p not in NA:
        PENDING[p] = 'check designed (DESIGN.md §4) but not yet built in this tree; not claimed until it is'
m = dict(
 version=1,
 setup_cmd='mkdir -p bin && clang++ $(llvm-config-14 --cxxflags) -fno-rtti tools/irdump.cc -o bin/irdump /usr/lib/llvm-14/lib/libLLVM-14.so',
 hooks=dict(guard='BR_VERIF_HOOKS', enable='checks compile every unit to LLVM IR with -DBR_VERIF_HOOKS (declassification marks only; never linked or run)',
            baseline_off_cmd='make -C /repo -j16 >/dev/null && cd /repo/test/x509 && ../../build/testx509',
            source_commits=['da220fc', 'ce84b7a', '06f0fa1', 'e2ac630'], add_only=True),
 engines=[
  dict(name='IRF', path='tools/irdump.cc, sa/irf.py, sa/build.py', serves_properties=sorted(CLAIMED), kind_free_text='LLVM-IR facts (CFG, SSA, debug-info layouts) for every unit of the real build'),
  dict(name='T0', path='sa/t0.py', serves_properties=['C01', 'C03', 'C04', 'C05', 'C19'], kind_free_text='decoder + analyses for the T0 bytecode embedded in the generated interpreters'),
  dict(name='TAB', path='sa/tab.py', serves_properties=['C01', 'C11', 'C12', 'C13'], kind_free_text='constants lifted from IR vs references generated from the standards'),
  dict(name='WMW', path='sa/wmw.py', serves_properties=['C06', 'C20'], kind_free_text='who-may-write / exactly-once structural rules over the whole program IR'),
  dict(name='FLOW', path='sa/flow.py', serves_properties=['C08'], kind_free_text='label propagation (taint / may-dependence) over the IR facts of the whole program'),
  dict(name='FOLD', path='sa/fold.py, sa/oblig.py', serves_properties=sorted(CLAIMED), kind_free_text='hypothesis folding and partial evaluation with opt-14 as abstract interpreter; must-conjunct dataflow'),
  dict(name='ENGIO', path='sa/engio.py', serves_properties=['C01', 'C02', 'C05', 'C06', 'C19'], kind_free_text='transition table over the record-engine registers'),
  dict(name='BUFCOPY', path='sa/bufcopy.py, rules/bufcopy_sites.json', serves_properties=['C05'], kind_free_text='whole-library bounded bulk writes and index stores'),
  dict(name='SYM', path='sa/sym.py, sa/bitprov.py, sa/carryai.py', serves_properties=['C02', 'C05', 'C06', 'C10', 'C12', 'C14'], kind_free_text='symbolic normal forms, bit-provenance domain, trace-partitioned intervals for carry chains'),
  dict(name='RESETFLOW', path='sa/resetflow.py', serves_properties=['C14'], kind_free_text='must-written-fields dataflow through reset entry points and their context-receiving callees: no message-mutable field read before it is rewritten'),
  dict(name='LINTS', path='sa/lints.py, sa/siblings.py, sa/t0mandatory.py, rules/*.json, selftest/lint_bad.c', serves_properties=['C02', 'C03', 'C04', 'C05', 'C10', 'C11', 'C12', 'C13', 'C14'], kind_free_text='whole-library lints with positive controls; sibling agreement; reference tables of reviewed instances'),
 ],
 checks=[dict(property_id=p, quick_cmd='./check %s --tier quick' % p, thorough_cmd='./check %s --tier thorough' % p,
              evidence_file='evidence/%s.json' % p, replay_cmd_template='./check replay {path}', engine='sa/checks/%s.py' % p.lower(),
              level_claimed=dict(category='other', text=c['text'] + ' Added while building (DESIGN.md section 11): ' + ADDED[p] + '.', design_ref='DESIGN.md §4 ' + p + ', §11'), level_note=c['note'], technique=c['technique'])
         for p, c in sorted(CLAIMED.items())],
 not_applicable=[dict(property_id=p, reason=r) for p, r in sorted({**NA, **PENDING}.items())],
 notes='Static analysis only. Exit 2 = analysis broken (anchor vanished / tool failure), never reported as pass or violation.',
)
json.dump(m, open(os.path.join(os.path.dirname(os.path.abspath(__file__)), 'MANIFEST.json'), 'w'), indent=1)
print('claimed', sorted(CLAIMED), 'n/a', sorted(NA), 'pending', sorted(PENDING))
