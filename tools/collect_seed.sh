#!/bin/sh
# collect_seed.sh <ID> <round-letter> <n>: copy /tmp/wt/<ID><letter>/_seed to seeded/<ID>-<n>, strip build output, drop the worktree, verify
ID=$1; L=$2; N=$3; D=/verif/seeded/$ID-$N
mkdir -p $D; cp -r /tmp/wt/$ID$L/_seed/. $D/
find $D -type f \( -size +50k -o -name '*.o' -o -name '*.a' \) -delete
find $D -mindepth 1 -type d \( -name 'build*' -o -name obj \) -exec rm -rf {} + 2>/dev/null
find $D -type f -perm -u+x ! -name '*.sh' ! -name '*.py' -exec sh -c 'file "$1" | grep -q ELF && rm -f "$1"' _ {} \;
git -C /repo worktree remove --force /tmp/wt/$ID$L
sh /verif/seeded/verify_seed.sh $ID-$N | tail -1
