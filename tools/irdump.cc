// Prototype IR -> JSON dumper (LLVM 14)
#include "llvm/IR/LLVMContext.h"
#include "llvm/IR/Module.h"
#include "llvm/IR/Instructions.h"
#include "llvm/IR/IntrinsicInst.h"
#include "llvm/IR/Operator.h"
#include "llvm/IR/Constants.h"
#include "llvm/IR/DebugInfoMetadata.h"
#include "llvm/IR/DebugInfo.h"
#include "llvm/IR/DataLayout.h"
#include "llvm/IR/ModuleSlotTracker.h"
#include "llvm/IRReader/IRReader.h"
#include "llvm/Support/SourceMgr.h"
#include "llvm/Support/raw_ostream.h"
#include "llvm/ADT/MapVector.h"
#include "llvm/ADT/SmallString.h"
#include <map>
#include <string>
using namespace llvm;

static std::string esc(StringRef s) {
  std::string o;
  for (unsigned char c : s) {
    if (c == '"' || c == '\\') { o += '\\'; o += c; }
    else if (c < 0x20 || c >= 0x7f) { char b[8]; snprintf(b, sizeof b, "\\u%04x", c); o += b; }
    else o += c;
  }
  return o;
}
static std::string tystr(Type *t) { std::string s; raw_string_ostream os(s); t->print(os); return esc(os.str()); }

struct Ctx {
  const DataLayout *DL;
  std::map<const Value *, unsigned> ids;
  std::map<const BasicBlock *, unsigned> bbs;
};

static void opnd(raw_ostream &o, const Value *v, Ctx &C);

static void constexprOut(raw_ostream &o, const ConstantExpr *ce, Ctx &C) {
  if (auto *g = dyn_cast<GEPOperator>(ce)) {
    APInt off(64, 0);
    if (g->accumulateConstantOffset(*C.DL, off)) {
      o << "{\"k\":\"cegep\",\"off\":" << off.getSExtValue() << ",\"base\":";
      opnd(o, g->getPointerOperand(), C); o << "}"; return;
    }
  }
  if (ce->isCast()) { o << "{\"k\":\"cecast\",\"op\":\"" << ce->getOpcodeName() << "\",\"base\":"; opnd(o, ce->getOperand(0), C); o << "}"; return; }
  o << "{\"k\":\"ce\",\"op\":\"" << ce->getOpcodeName() << "\"}";
}

static void opnd(raw_ostream &o, const Value *v, Ctx &C) {
  if (auto *a = dyn_cast<Argument>(v)) { o << "{\"k\":\"a\",\"v\":" << a->getArgNo() << "}"; return; }
  if (isa<Instruction>(v)) { o << "{\"k\":\"i\",\"v\":" << C.ids[v] << "}"; return; }
  if (auto *bb = dyn_cast<BasicBlock>(v)) { o << "{\"k\":\"bb\",\"v\":" << C.bbs[bb] << "}"; return; }
  if (auto *ci = dyn_cast<ConstantInt>(v)) {
    if (ci->getBitWidth() <= 64) o << "{\"k\":\"c\",\"v\":" << ci->getSExtValue() << ",\"w\":" << ci->getBitWidth() << "}";
    else { llvm::SmallString<64> str; ci->getValue().toString(str, 10, false); o << "{\"k\":\"c\",\"v\":" << str.c_str() << ",\"w\":" << ci->getBitWidth() << "}"; }
    return;
  }
  if (auto *f = dyn_cast<Function>(v)) { o << "{\"k\":\"f\",\"v\":\"" << esc(f->getName()) << "\"}"; return; }
  if (auto *g = dyn_cast<GlobalVariable>(v)) { o << "{\"k\":\"g\",\"v\":\"" << esc(g->getName()) << "\"}"; return; }
  if (auto *ce = dyn_cast<ConstantExpr>(v)) { constexprOut(o, ce, C); return; }
  if (isa<ConstantPointerNull>(v)) { o << "{\"k\":\"null\"}"; return; }
  if (isa<UndefValue>(v)) { o << "{\"k\":\"undef\"}"; return; }
  if (isa<MetadataAsValue>(v)) { o << "{\"k\":\"md\"}"; return; }
  if (isa<InlineAsm>(v)) { o << "{\"k\":\"asm\"}"; return; }
  if (isa<Constant>(v)) { o << "{\"k\":\"kc\"}"; return; }
  o << "{\"k\":\"?\"}";
}

// flatten a constant initializer into (offset,size,desc)
static void flat(raw_ostream &o, const Constant *c, uint64_t off, Ctx &C, bool &first) {
  Type *t = c->getType();
  uint64_t sz = C.DL->getTypeAllocSize(t);
  if (isa<ConstantAggregateZero>(c)) return;
  if (auto *cda = dyn_cast<ConstantDataSequential>(c)) {
    uint64_t es = C.DL->getTypeAllocSize(cda->getElementType());
    if (cda->getElementType()->isIntegerTy()) {
      if (!first) o << ","; first = false;
      o << "{\"off\":" << off << ",\"es\":" << es << ",\"ints\":[";
      for (unsigned i = 0; i < cda->getNumElements(); i++) { if (i) o << ","; o << cda->getElementAsInteger(i); }
      o << "]}";
    }
    return;
  }
  if (auto *ca = dyn_cast<ConstantArray>(c)) {
    uint64_t es = C.DL->getTypeAllocSize(ca->getType()->getElementType());
    for (unsigned i = 0; i < ca->getNumOperands(); i++) flat(o, ca->getOperand(i), off + i * es, C, first);
    return;
  }
  if (auto *cs = dyn_cast<ConstantStruct>(c)) {
    const StructLayout *sl = C.DL->getStructLayout(cs->getType());
    for (unsigned i = 0; i < cs->getNumOperands(); i++) flat(o, cs->getOperand(i), off + sl->getElementOffset(i), C, first);
    return;
  }
  if (auto *ci = dyn_cast<ConstantInt>(c)) {
    if (!first) o << ","; first = false;
    o << "{\"off\":" << off << ",\"es\":" << sz << ",\"ints\":[" << (ci->getBitWidth() <= 64 ? ci->getZExtValue() : 0) << "]}";
    return;
  }
  if (isa<ConstantPointerNull>(c) || isa<UndefValue>(c)) return;
  // pointer-ish: function, global, constexpr
  if (!first) o << ","; first = false;
  o << "{\"off\":" << off << ",\"es\":" << sz << ",\"ptr\":"; opnd(o, c, C); o << "}";
}

int main(int argc, char **argv) {
  LLVMContext ctx; SMDiagnostic err;
  auto M = parseIRFile(argv[1], err, ctx);
  if (!M) { err.print(argv[0], errs()); return 1; }
  const DataLayout &DL = M->getDataLayout();
  raw_ostream &o = outs();
  Ctx C; C.DL = &DL;
  o << "{\"globals\":[";
  bool fg = true;
  for (auto &G : M->globals()) {
    if (!fg) o << ","; fg = false;
    o << "{\"name\":\"" << esc(G.getName()) << "\",\"const\":" << (G.isConstant() ? "true" : "false")
      << ",\"size\":" << DL.getTypeAllocSize(G.getValueType()) << ",\"ty\":\"" << tystr(G.getValueType()) << "\",\"init\":[";
    if (G.hasInitializer()) { bool first = true; flat(o, G.getInitializer(), 0, C, first); }
    o << "]}";
  }
  o << "],\"functions\":[";
  ModuleSlotTracker MST(M.get());
  bool ff = true;
  for (auto &F : *M) {
    if (!ff) o << ","; ff = false;
    o << "{\"name\":\"" << esc(F.getName()) << "\",\"decl\":" << (F.isDeclaration() ? "true" : "false")
      << ",\"internal\":" << (F.hasInternalLinkage() ? "true" : "false")
      << ",\"fty\":\"" << tystr(F.getFunctionType()) << "\"";
    if (auto *sp = F.getSubprogram()) { o << ",\"file\":\"" << esc(sp->getFilename()) << "\",\"line\":" << sp->getLine(); }
    o << ",\"params\":[";
    for (auto &A : F.args()) { if (A.getArgNo()) o << ","; o << "{\"name\":\"" << esc(A.getName()) << "\",\"n\":\"%" << (A.hasName() ? esc(A.getName()) : std::to_string(A.getArgNo())) << "\",\"ty\":\"" << tystr(A.getType()) << "\"}"; }
    o << "],\"blocks\":[";
    C.ids.clear(); C.bbs.clear();
    MST.incorporateFunction(F);
    unsigned n = 0, nb = 0;
    for (auto &BB : F) { C.bbs[&BB] = nb++; for (auto &I : BB) C.ids[&I] = n++; }
    bool fb = true;
    for (auto &BB : F) {
      if (!fb) o << ","; fb = false;
      o << "{\"id\":" << C.bbs[&BB] << ",\"n\":\"" << (BB.hasName() ? esc(BB.getName()) : std::to_string(MST.getLocalSlot(&BB))) << "\",\"insts\":[";
      bool fi = true;
      for (auto &I : BB) {
        if (isa<DbgInfoIntrinsic>(&I)) {
          if (auto *dv = dyn_cast<DbgValueInst>(&I)) {
            if (dv->getVariable() && dv->getNumVariableLocationOps() == 1 && dv->getVariableLocationOp(0) && (isa<Instruction>(dv->getVariableLocationOp(0)) || isa<Argument>(dv->getVariableLocationOp(0)))) {
              if (!fi) o << ","; fi = false;
              o << "{\"id\":" << C.ids[&I] << ",\"op\":\"dbgvalue\",\"var\":\"" << esc(dv->getVariable()->getName()) << "\",\"ops\":["; opnd(o, dv->getVariableLocationOp(0), C); o << "]}";
            }
          }
          continue;
        }
        if (!fi) o << ","; fi = false;
        o << "{\"id\":" << C.ids[&I] << ",\"op\":\"" << I.getOpcodeName() << "\",\"ty\":\"" << tystr(I.getType()) << "\"";
        if (auto &dl = I.getDebugLoc()) o << ",\"line\":" << dl.getLine();
        if (!I.getType()->isVoidTy()) { if (I.hasName()) o << ",\"n\":\"%" << esc(I.getName()) << "\""; else o << ",\"n\":\"%" << MST.getLocalSlot(&I) << "\""; }
        if (auto *g = dyn_cast<GetElementPtrInst>(&I)) {
          MapVector<Value *, APInt> vo; APInt co(64, 0);
          if (cast<GEPOperator>(g)->collectOffset(DL, 64, vo, co)) {
            o << ",\"off\":" << co.getSExtValue() << ",\"var\":[";
            bool fv = true;
            for (auto &kv : vo) { if (!fv) o << ","; fv = false; o << "["; opnd(o, kv.first, C); o << "," << kv.second.getSExtValue() << "]"; }
            o << "]";
          } else o << ",\"off\":null";
          o << ",\"sety\":\"" << tystr(g->getSourceElementType()) << "\""; if (g->getResultElementType()->isSized()) o << ",\"rsz\":" << DL.getTypeAllocSize(g->getResultElementType()); o << ",\"ragg\":" << ((g->getResultElementType()->isArrayTy() || g->getResultElementType()->isStructTy()) ? "true" : "false");
        }
        if (auto *l = dyn_cast<LoadInst>(&I)) o << ",\"size\":" << DL.getTypeStoreSize(l->getType());
        if (auto *s = dyn_cast<StoreInst>(&I)) o << ",\"size\":" << DL.getTypeStoreSize(s->getValueOperand()->getType());
        if (auto *a = dyn_cast<AllocaInst>(&I)) { auto sz = a->getAllocationSizeInBits(DL); o << ",\"size\":" << (sz ? (long long)(*sz / 8) : -1) << ",\"aty\":\"" << tystr(a->getAllocatedType()) << "\""; }
        if (auto *c = dyn_cast<CmpInst>(&I)) o << ",\"pred\":\"" << CmpInst::getPredicateName(c->getPredicate()) << "\"";
        if (auto *cb = dyn_cast<CallBase>(&I)) {
          if (auto *cf = cb->getCalledFunction()) o << ",\"callee\":\"" << esc(cf->getName()) << "\"";
          else { o << ",\"callee\":null,\"cv\":"; opnd(o, cb->getCalledOperand(), C); }
          o << ",\"fty\":\"" << tystr(cb->getFunctionType()) << "\",\"nargs\":" << cb->arg_size();
        }
        if (auto *p = dyn_cast<PHINode>(&I)) {
          o << ",\"inb\":["; for (unsigned i = 0; i < p->getNumIncomingValues(); i++) { if (i) o << ","; o << C.bbs[p->getIncomingBlock(i)]; } o << "]";
        }
        o << ",\"ops\":[";
        unsigned no = I.getNumOperands();
        if (auto *cb = dyn_cast<CallBase>(&I)) no = cb->arg_size();
        for (unsigned i = 0; i < no; i++) { if (i) o << ","; opnd(o, I.getOperand(i), C); }
        o << "]}";
      }
      o << "]}";
    }
    o << "],\"declares\":[";
    { bool fd = true;
      for (auto &BB : F) for (auto &I : BB) if (auto *dd = dyn_cast<DbgDeclareInst>(&I)) {
        if (!dd->getVariable() || !dd->getAddress() || !isa<Instruction>(dd->getAddress())) continue;
        if (!fd) o << ","; fd = false;
        o << "{\"var\":\"" << esc(dd->getVariable()->getName()) << "\",\"v\":" << C.ids[cast<Instruction>(dd->getAddress())] << "}";
      } }
    o << "]}";
  }
  o << "],\"dtypes\":[";
  {
    DebugInfoFinder DF; DF.processModule(*M);
    bool ft = true;
    for (auto *T : DF.types()) {
      auto *ct = dyn_cast<DICompositeType>(T);
      if (!ct) continue;
      if (ct->getTag() != dwarf::DW_TAG_structure_type && ct->getTag() != dwarf::DW_TAG_union_type) continue;
      if (ct->isForwardDecl()) continue;
      // name: own name, or name of a typedef pointing at it (resolved below)
      if (!ft) o << ","; ft = false;
      o << "{\"id\":" << (uint64_t)(uintptr_t)ct << ",\"name\":\"" << esc(ct->getName()) << "\",\"size\":" << ct->getSizeInBits() / 8 << ",\"members\":[";
      bool fm = true;
      for (auto *E : ct->getElements()) {
        auto *m = dyn_cast<DIDerivedType>(E);
        if (!m || m->getTag() != dwarf::DW_TAG_member) continue;
        // strip typedef/const/volatile to find base + array counts
        const DIType *bt = m->getBaseType(); uint64_t sz = m->getSizeInBits() / 8; uint64_t inner = 0; uint64_t cnt = 0; uint64_t esz = 0;
        const DIType *t = bt;
        while (t) {
          if (auto *d = dyn_cast<DIDerivedType>(t)) {
            if (d->getTag() == dwarf::DW_TAG_typedef || d->getTag() == dwarf::DW_TAG_const_type || d->getTag() == dwarf::DW_TAG_volatile_type) { t = d->getBaseType(); continue; }
            break;
          }
          break;
        }
        if (t && sz == 0) sz = t->getSizeInBits() / 8;
        if (auto *c2 = dyn_cast_or_null<DICompositeType>(t)) {
          if (c2->getTag() == dwarf::DW_TAG_array_type) {
            cnt = 1;
            for (auto *sr : c2->getElements()) if (auto *s2 = dyn_cast<DISubrange>(sr)) { if (auto *ci = s2->getCount().dyn_cast<ConstantInt *>()) cnt *= ci->getZExtValue(); }
            const DIType *et = c2->getBaseType();
            while (et) { if (auto *d = dyn_cast<DIDerivedType>(et)) { if (d->getTag() == dwarf::DW_TAG_typedef || d->getTag() == dwarf::DW_TAG_const_type || d->getTag() == dwarf::DW_TAG_volatile_type) { et = d->getBaseType(); continue; } } break; }
            if (et) { esz = et->getSizeInBits() / 8; if (auto *c3 = dyn_cast<DICompositeType>(et)) if (c3->getTag() != dwarf::DW_TAG_array_type) inner = (uint64_t)(uintptr_t)c3; }
          } else inner = (uint64_t)(uintptr_t)c2;
        }
        if (!fm) o << ","; fm = false;
        o << "{\"name\":\"" << esc(m->getName()) << "\",\"off\":" << m->getOffsetInBits() / 8 << ",\"size\":" << sz << ",\"count\":" << cnt << ",\"esz\":" << esz << ",\"inner\":" << inner << "}";
      }
      o << "]}";
    }
    o << "],\"typedefs\":[";
    ft = true;
    for (auto *T : DF.types()) {
      auto *d = dyn_cast<DIDerivedType>(T);
      if (!d || d->getTag() != dwarf::DW_TAG_typedef) continue;
      const DIType *t = d->getBaseType();
      auto *c2 = dyn_cast_or_null<DICompositeType>(t);
      if (!c2) continue;
      if (!ft) o << ","; ft = false;
      o << "{\"name\":\"" << esc(d->getName()) << "\",\"id\":" << (uint64_t)(uintptr_t)c2 << "}";
    }
  }
  o << "]}\n";
  return 0;
}
