#!/bin/sh
# runall.sh [tier]: byte-compile everything, then run every claimed check (4 at a time); prints one line per check
cd /verif; python3 -m py_compile sa/*.py sa/checks/*.py check gen_manifest.py || exit 3
T=${1:-quick}
python3 -c "import json;print('\n'.join(c['property_id'] for c in json.load(open('MANIFEST.json'))['checks']))" | \
  xargs -P 4 -I{} sh -c "./check {} --tier $T > /tmp/runall-{}.log 2>&1; echo \"{} exit=\$? \$(head -1 /tmp/runall-{}.log)\""
