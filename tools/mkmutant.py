#!/usr/bin/env python3
"""mkmutant.py NAME 'expect-regex' FILE OLD NEW [FILE OLD NEW ...]  -> selftest/mutants/NAME.patch (one exact textual replacement per triple)"""
import sys, os, difflib
name, expect = sys.argv[1], sys.argv[2]
out = '# expect: %s\n' % expect if expect else ''
a = sys.argv[3:]
for k in range(0, len(a), 3):
    f, old, new = a[k:k + 3]
    s = open(os.path.join('/repo', f)).read()
    old = old.encode().decode('unicode_escape'); new = new.encode().decode('unicode_escape')
    if s.count(old) != 1:
        sys.exit('%s: pattern occurs %d times in %s' % (name, s.count(old), f))
    t = s.replace(old, new)
    out += ''.join(difflib.unified_diff(s.splitlines(1), t.splitlines(1), 'a/' + f, 'b/' + f))
open(os.path.join(os.path.dirname(os.path.dirname(os.path.abspath(__file__))), 'selftest', 'mutants', name + '.patch'), 'w').write(out)
print('wrote', name)
