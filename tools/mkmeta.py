#!/usr/bin/env python3
"""mkmeta.py ID 'change' 'needs' ['rule note']: writes seeded/ID/meta.json; checks_result is taken from seeded/last_result.json"""
import sys, json, os
V = os.path.dirname(os.path.dirname(os.path.abspath(__file__)))
sid, change, needs = sys.argv[1:4]
note = sys.argv[4] if len(sys.argv) > 4 else ''
lr = json.load(open(os.path.join(V, 'seeded', 'last_result.json')))
m = dict(id=sid, property=sid.split('-')[0], change=change, needs_to_manifest=needs,
         origin='independent sub-agent given only the property text and a scratch worktree of /repo',
         confirmed_by='seeded/verify_seed.sh %s (fresh worktree: demo passes on the clean tree, patch applies, make -j16 builds, build/testx509 prints 53 OK, demo fails with the patch)' % sid,
         demo='run.sh (+ demo source) in this directory; exit 0 = property holds',
         checks_result=lr.get(sid, {}).get('status', '?'))
if note:
    m['rule_history'] = note
json.dump(m, open(os.path.join(V, 'seeded', sid, 'meta.json'), 'w'), indent=1)
print(sid, m['checks_result'])
