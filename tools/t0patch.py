#!/usr/bin/env python3
"""t0patch.py FILE.c --replace OFF 'old hex bytes' 'new hex bytes' ... --append 'hex bytes' --caddr N
Token-level editor for the generated T0 arrays (the T0 compiler needs mono, which is not available): t0_codeblock is a list of 0xNN
tokens and T0_INTn(expr) macros (n bytes each, layout-dependent, never touched).  --replace verifies the bytes it overwrites and
requires equal length; --append adds bytes at the end of t0_codeblock and prints the offset; --caddr appends an entry to t0_caddr."""
import re, sys


def tokens(body):
    toks = []
    pos = 0
    for m in re.finditer(r'0x[0-9A-Fa-f]{2}|T0_INT(\d)\((?:[^()]|\([^()]*\))*\)', body):
        n = int(m.group(1)) if m.group(1) else 1
        toks.append((m.start(), m.end(), n, m.group(0)))
    return toks


def main():
    path = sys.argv[1]
    src = open(path).read()
    m = re.search(r'static const unsigned char t0_codeblock\[\] PROGMEM = \{(.*?)\n\};', src, re.S)
    body = m.group(1)
    args = sys.argv[2:]
    k = 0
    while k < len(args):
        if args[k] == '--replace':
            off, old, new = int(args[k + 1]), bytes.fromhex(args[k + 2]), bytes.fromhex(args[k + 3])
            assert len(old) == len(new), 'replacement must keep the length'
            toks = tokens(body)
            cur = 0
            edits = []
            for s, e, n, t in toks:
                if off <= cur < off + len(old):
                    assert n == 1 and t.startswith('0x'), 'macro token inside the replaced range'
                    assert int(t, 16) == old[cur - off], 'byte %d is %s, expected %02X' % (cur, t, old[cur - off])
                    edits.append((s, e, '0x%02X' % new[cur - off]))
                cur += n
            assert len(edits) == len(old), 'range not found'
            for s, e, t in reversed(edits):
                body = body[:s] + t + body[e:]
            k += 4
        elif args[k] == '--append':
            new = bytes.fromhex(args[k + 1])
            total = sum(n for _, _, n, _ in tokens(body))
            print('appended at code offset', total)
            body = body.rstrip() + ',\n\t' + ', '.join('0x%02X' % b for b in new)
            k += 2
        elif args[k] == '--caddr':
            v = int(args[k + 1])
            mc = re.search(r'(static const uint16_t t0_caddr\[\] PROGMEM = \{.*?)(\n\};)', src, re.S)
            src = src[:mc.end(1)] + ',\n\t%d' % v + src[mc.end(1):]
            k += 2
        else:
            raise SystemExit('unknown argument ' + args[k])
    m = re.search(r'static const unsigned char t0_codeblock\[\] PROGMEM = \{(.*?)\n\};', src, re.S)
    src = src[:m.start(1)] + body + src[m.end(1):]
    open(path, 'w').write(src)


if __name__ == '__main__':
    main()
