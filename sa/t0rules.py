"""Rules over T0 bytecode used by C03 / C04 / C19 (DESIGN 3.4): must-call dataflow, failure-code values, hypothesis pins."""
from . import t0, t0ai
from .build import AnalysisBroken


def noreturn_natives(prog):
    eff = prog.native_effects()
    res = set()
    for opc, e in eff.items():
        if opc == 'enter':
            continue
        if not e['dp']['ret'] and e['failexit']:
            res.add(prog.natives[opc])
    return res


def returning_words(prog):
    nr = noreturn_natives(prog)
    ret = {w: True for w in prog.words}
    ch = True
    while ch:
        ch = False
        for w, W in prog.words.items():
            seen = set()
            st = [W.start]
            r = False
            while st:
                pc = st.pop()
                if pc in seen:
                    continue
                seen.add(pc)
                i = W.ins[pc]
                if i.kind == 'ret':
                    r = True
                    break
                if i.kind == 'jump':
                    st.append(i.arg)
                    continue
                if i.kind in ('jumpif', 'jumpifnot'):
                    st.append(i.arg)
                    st.append(i.next)
                    continue
                if i.kind == 'native' and i.name in nr:
                    continue
                if i.kind == 'call' and not ret[i.arg]:
                    continue
                if i.next in W.ins:
                    st.append(i.next)
            if r != ret[w]:
                ret[w] = r
                ch = True
    return ret


def must_call(prog, target, sites, gensites=(), start_false=()):
    """for each site (word, pc): has word `target` completed on every path from the entry word to the site?
    forward must-analysis, meet = AND; paths through no-return natives / non-returning words do not count"""
    nr = noreturn_natives(prog)
    returns = returning_words(prog)
    gensites = set(gensites)        # instruction sites (word, pc) that establish the fact when executed

    def flow(w, fin, gen):
        W = prog.words[w]
        fact = {W.start: fin}
        work = [W.start]
        retfact = None
        while work:
            pc = work.pop()
            f = fact[pc]
            i = W.ins[pc]

            def push(t, v):
                if t not in fact:
                    fact[t] = v
                    work.append(t)
                elif fact[t] and not v:
                    fact[t] = False
                    work.append(t)
            if i.kind == 'ret':
                retfact = f if retfact is None else (retfact and f)
                continue
            if i.kind == 'jump':
                push(i.arg, f)
                continue
            if i.kind in ('jumpif', 'jumpifnot'):
                push(i.arg, f)
                push(i.next, f)
                continue
            if i.kind == 'native' and i.name in nr:
                continue
            if i.kind == 'call':
                if not returns[i.arg]:
                    continue
                f = f or i.arg == target or gen[i.arg]
            if (w, pc) in gensites:
                f = True
            if i.next in W.ins:
                push(i.next, f)
        return fact, retfact
    gen = {w: True for w in prog.words}
    ch = True
    while ch:
        ch = False
        for w in prog.words:
            if not returns[w]:
                continue
            _, rf = flow(w, False, gen)
            g = bool(rf)
            if g != gen[w]:
                gen[w] = g
                ch = True
    entry = prog.entries[0][1]
    fin = {w: True for w in prog.words}
    fin[entry] = False
    for w in start_false:       # the fact is required to be (re-)established inside these words
        fin[w] = False
    ch = True
    while ch:
        ch = False
        for w in prog.words:
            fact, _ = flow(w, fin[w], gen)
            for pc, i in prog.words[w].ins.items():
                if i.kind == 'call' and pc in fact and fin[i.arg] and not fact[pc]:
                    fin[i.arg] = False
                    ch = True
    res = {}
    for (w, pc) in sites:
        fact, _ = flow(w, fin[w], gen)
        res[(w, pc)] = fact.get(pc)
    return res, gen


def is_even(e):
    return e.c % 2 == 0 and all(v % 2 == 0 for _, v in e.t)


def guard_before(prog, w, pc_fail):
    """the conditional jump whose fall-through leads (through stack shuffles / constants) to the fail at pc_fail"""
    W = prog.words[w]
    pcs = list(W.ins)
    k = pcs.index(pc_fail)
    for j in range(k - 1, max(-1, k - 5), -1):
        i = W.ins[pcs[j]]
        if i.kind in ('jumpif', 'jumpifnot'):
            return i
        if i.kind in ('ret', 'jump'):
            return None
    return None


def fail_events(I, nonconst_ok=False):
    return [e for e in I.events if e.name == 'fail']


def possibly_zero(e):
    lo, hi = e.st.rng(e.args[0])
    return lo <= 0 <= hi and e.args[0] not in e.st.nz
