"""Transition table of the record engine's I/O machine (ssl_engine.c: recvrec/recvpld/sendpld/sendrec + make_ready_*).

Each entry is a FOLD obligation: a hypothesis on the *state* (context fields, arguments, results of the record-layer
methods) -- never on the tests the code happens to make -- and the effect every path must then have.  The entries are
grouped by the property whose clause they are a necessary condition of; the checks of C01 / C02 / C05 pull their group.
"""
from . import build, irf, fold, oblig
from .oblig import Ob, Call, ICall, Var, FieldLoad, LocalLoad, RET, CALLDOM, ALL, E, NOCALL
from .build import AnalysisBroken

S = 'src/ssl/ssl_engine.c'
DECRYPT = r'^i8\* \(%struct\.br_sslrec_in_class_\*\*, i32, i32, i8\*, i64\*\)'
CHECKLEN = r'^i32 \(%struct\.br_sslrec_in_class_\*\*, i64\)'
ENCRYPT = r'^i8\* \(%struct\.br_sslrec_out_class_\*\*, i32, i32, i8\*, i64\*\)'
NI = ('br_ssl_engine_fail', 'make_ready_in', 'make_ready_out', 'sendpld_flush')
NONNULL = 'inttoptr (i64 4096 to i8*)'


def _ctx():
    u = build.load_unit(S)
    L = irf.Layouts(u)

    def off(f):
        r = L.field('br_ssl_engine_context', f)
        if r is None:
            raise AnalysisBroken('br_ssl_engine_context.%s vanished' % f)
        return r[0], r[1]
    return off


def _fl(off, name, nth=None):
    o, sz = off(name)
    return FieldLoad(0, o, name, size=sz, nth=nth)


def _is_call(name):
    return lambda F, i: i['op'] == 'call' and i.get('callee') == name


def _is_icall(ftype):
    import re
    return lambda F, i: i['op'] == 'call' and i.get('callee') is None and re.search(ftype, i.get('fty', '')) is not None


def _any(*ps):
    return lambda F, i: any(p(F, i) for p in ps)


def ONPATH(pred, desc):
    return E(fold.expect_on_all_paths, desc, pred, desc)


def FAIL(code_name, cv):
    return CALLDOM('br_ssl_engine_fail', 1, lambda v: v == cv[code_name], 'br_ssl_engine_fail(%s) on every path from the site' % code_name)


def reject_obligations(rule='engine-rejects-record'):
    """C02: what the engine must refuse before it waits for / releases any payload byte"""
    off = _ctx()
    cv = build.const_values(['BR_ERR_BAD_LENGTH', 'BR_ERR_TOO_LARGE', 'BR_ERR_UNSUPPORTED_VERSION', 'BR_ERR_BAD_VERSION'])
    rlen = Call('br_dec16be', nth=1)
    ver = Call('br_dec16be', nth=0)
    ixc = off('ixc')[0]
    return [
        Ob(S, 'recvrec_ack', _fl(off, 'incrypt'), ('pin', 1),
           ONPATH(_any(_is_icall(CHECKLEN), _is_call('br_ssl_engine_fail')), 'the mode\'s check_length (or a failure) lies on every path from the decoded record length to the return'),
           ('pin', 0), 'with encryption active no record header -- of any length, an empty record included -- may be accepted without asking '
           'the record-protection mode whether that length can be a protected record', rule=rule, noinline=NI, marker=rlen),
        Ob(S, 'recvrec_ack', ver, ('assume', 'ugt', 0x3FF), FAIL('BR_ERR_UNSUPPORTED_VERSION', cv), ('assume', 'eq', 0x303),
           'a record whose version major byte is not 3 must close the engine', rule=rule, noinline=NI),
        Ob(S, 'recvrec_ack', ver, ('assume', 'ult', 0x300), FAIL('BR_ERR_UNSUPPORTED_VERSION', cv), ('assume', 'eq', 0x303),
           'a record whose version major byte is not 3 must close the engine', rule=rule, noinline=NI),
        Ob(S, 'recvrec_ack', ver, ('assume', 'eq', 0x302),
           ALL(FAIL('BR_ERR_BAD_VERSION', cv), E(fold.expect_no_store_to, 'no store to ixc after the site', 0, ixc)), ('assume', 'eq', 0x303),
           'once a record version is established (version_in != 0) a record carrying another version must close the engine',
           rule=rule, noinline=NI, extra_hyps=[(_fl(off, 'version_in'), ('pin', 0x303))]),
    ]


def bounds_obligations(rule='engine-buffer-bounds'):
    """C05: lengths the engine lets through to its fixed input buffer"""
    off = _ctx()
    cv = build.const_values(['BR_ERR_BAD_LENGTH', 'BR_ERR_TOO_LARGE'])
    rlen = Call('br_dec16be', nth=1)
    ixc = off('ixc')[0]
    obs = []
    for K in (837, 16384 + 325 + 5):
        obs.append(Ob(S, 'recvrec_ack', rlen, ('assume', 'ugt', K - 5),
                      ALL(ONPATH(_is_call('br_ssl_engine_fail'), 'br_ssl_engine_fail on every path from the decoded length'),
                          E(fold.expect_no_store_to, 'no store to ixc after the site', 0, ixc)), ('assume', 'eq', K - 5),
                      'an encrypted record must fit the input buffer whole (ibuf_len - 5 bytes; here ibuf_len = %d): a longer one must fail '
                      '(BR_ERR_TOO_LARGE) before any byte of it is awaited' % K, rule=rule, noinline=NI,
                      extra_hyps=[(_fl(off, 'incrypt'), ('pin', 1)), (_fl(off, 'ibuf_len'), ('pin', K))]))
    obs.append(Ob(S, 'recvrec_ack', rlen, ('assume', 'ugt', 16384),
                  ALL(FAIL('BR_ERR_BAD_LENGTH', cv), E(fold.expect_no_store_to, 'no store to ixc after the site', 0, ixc)), ('assume', 'eq', 16384),
                  'an unencrypted record longer than 2^14 bytes must be refused', rule=rule, noinline=NI,
                  extra_hyps=[(_fl(off, 'incrypt'), ('pin', 0))]))
    return obs


def progress_obligations(rule='engine-progress'):
    """C01: the transitions that hand every byte on exactly once and return the engine to its ready states"""
    off = _ctx()
    rlen = Call('br_dec16be', nth=1)
    dec = ICall('decrypt', ftype=DECRYPT)
    ixa, ixb, ixc = off('ixa')[0], off('ixb')[0], off('ixc')[0]
    oxa, oxb, oxc = off('oxa')[0], off('oxb')[0], off('oxc')[0]
    MRI = CALLDOM('make_ready_in', desc='make_ready_in on every path')
    MRO = CALLDOM('make_ready_out', desc='make_ready_out on every path')
    obs = [
        # ---- incoming records
        Ob(S, 'recvrec_ack', rlen, ('pin', 0), MRI, ('pin', 1),
           'an empty unprotected record carries nothing: the engine must go back to waiting for a header, or it waits for payload that never comes',
           rule=rule, noinline=NI, extra_hyps=[(_fl(off, 'incrypt'), ('pin', 0))]),
        Ob(S, 'recvrec_ack', LocalLoad('pbuf_len'), ('pin', 0),
           ONPATH(_is_call('make_ready_in'), 'make_ready_in on every path from the decryption'), ('pin', 7),
           'a protected record that decrypts to zero plaintext bytes (TLS 1.0 empty fragments, keep-alives) must return the engine to the '
           'ready state; otherwise neither the application nor the transport can make progress and all later data is lost',
           rule=rule, noinline=NI, marker=dec, extra_hyps=[(dec, ('pin', NONNULL))]),
        Ob(S, 'recvpld_ack', _fl(off, 'ixb'), ('pinexpr', 'add', _fl(off, 'ixa', 0), Var('len', 'param')), MRI, None,
           'when the application has read the last plaintext byte of a complete record (ixa + len == ixb, ixc == 0) the engine must get ready for the next record',
           rule=rule, noinline=NI, extra_hyps=[(_fl(off, 'ixc'), ('pin', 0))]),
        Ob(S, 'recvpld_ack', _fl(off, 'ixb'), ('pinexpr', 'add', _fl(off, 'ixa', 0), Var('len', 'param')),
           ALL(E(fold.expect_no_call, 'no call to make_ready_in', 'make_ready_in'),
               E(fold.expect_stores_only, 'ixa := 5', 0, ixa, [5]), E(fold.expect_stores_only, 'ixb := 5', 0, ixb, [5])), None,
           'when the read chunk of an unfinished (unencrypted) record is consumed the window must be reset behind the header so that the rest of that record is received',
           rule=rule, noinline=NI, extra_hyps=[(_fl(off, 'ixc'), ('pin', 7))], passes='default<O1>'),
        # ---- outgoing records
        Ob(S, 'sendrec_ack', _fl(off, 'oxc'), ('pinexpr', 'add', _fl(off, 'oxa', 0), Var('len', 'param')), MRO, ('pin', -1),
           'when the transport has taken the last byte of the pending record (oxa + len == oxc) the engine must open a new outgoing record',
           rule=rule, noinline=NI),
        Ob(S, 'sendpld_ack', _fl(off, 'oxb'), ('pinexpr', 'add', _fl(off, 'oxa', 0), Var('len', 'param')),
           CALLDOM('sendpld_flush', desc='sendpld_flush on every path'), ('pin', -1),
           'when the payload window is full (oxa + len == oxb) the record must be built and handed to the transport',
           rule=rule, noinline=NI),
        Ob(S, 'sendpld_flush', _fl(off, 'oxb'), ('pinexpr', 'add', _fl(off, 'oxa', 0), 0),
           E(fold.expect_no_indirect_call, 'no record is built (no indirect call)'), ('pin', -1),
           'while a built record is still being sent (oxa == oxb) a flush must not encrypt the buffer again',
           rule=rule, noinline=NI),
        Ob(S, 'sendpld_flush', Var('force', 'param'), ('assume', 'eq', 0),
           E(fold.expect_no_indirect_call, 'no record is built (no indirect call)'), ('assume', 'eq', 1),
           'without payload and without force no (empty) record is emitted',
           rule=rule, noinline=NI, extra_hyps=[(_fl(off, 'oxc'), ('pinexpr', 'add', _fl(off, 'oxa', 0), 0))]),
        Ob(S, 'br_ssl_engine_flush_record', Call('br_ssl_engine_has_pld_to_send'), ('pin', 1),
           CALLDOM('sendpld_flush', desc='sendpld_flush on every path'), ('pin', 0),
           'payload already accumulated in the output window (application bytes not yet flushed) must be sent as its own record before the '
           'handshake or alert code writes: whether or not that code has written anything in this round',
           rule=rule, noinline=NI + ('sendpld_ack', 'sendpld_buf', 'br_ssl_engine_has_pld_to_send'),
           extra_hyps=[(_fl(off, 'hbuf_out'), ('pin', NONNULL)), (_fl(off, 'saved_hbuf_out'), ('pin', NONNULL))]),
    ]
    # ---- the handshake / closure processor is woken when a record has been sent completely and it may have something to do:
    # always for handshake / alert / CCS records, and for application-data records whenever the application-data flag is not 1
    # (0: closing after the peer's close_notify; 2: closing, waiting for room to send ours) - otherwise the engine is left open with nothing on offer
    cvr = build.const_values(['BR_SSL_APPLICATION_DATA', 'BR_SSL_HANDSHAKE'])
    JH = CALLDOM('jump_handshake', desc='jump_handshake on every path')
    wake = [(cvr['BR_SSL_APPLICATION_DATA'], 0, True), (cvr['BR_SSL_APPLICATION_DATA'], 2, True), (cvr['BR_SSL_HANDSHAKE'], 1, True),
            (cvr['BR_SSL_APPLICATION_DATA'], 1, False)]
    for rt, ad, want in wake:
        obs.append(Ob(S, 'br_ssl_engine_sendrec_ack', _fl(off, 'application_data'), ('pin', ad),
                      JH if want else NOCALL('jump_handshake'), None,
                      'a completely sent record of type %d with application_data == %d: the handshake processor %s' % (rt, ad, 'must be resumed' if want else 'is not resumed'),
                      rule=rule, noinline=NI + ('jump_handshake', 'has_rec_tosend', 'sendrec_ack'),
                      extra_hyps=[(_fl(off, 'record_type_out'), ('pin', rt)), (Call('has_rec_tosend'), ('pin', 0)), (Var('len', 'param'), ('assume', 'ne', 0))]))
    return obs


def offered_regions(chk, rule='engine-offered-region'):
    """the region recvrec_buf offers to the transport lies inside the input buffer: its length is min(ixc, ibuf_len - ixa).
    Decided by partial evaluation with the registers pinned (a record longer than the room that is left, and a shorter one)."""
    off = _ctx()
    U = oblig.funit(S)
    fn = 'recvrec_buf'
    F = U.func(fn)
    cv = build.const_values(['BR_IO_IN'])
    for ixa, ixc, ibl, want in ((10, 5000, 837, 827), (5, 100, 837, 100), (5, 16709, 16709, 16704)):
        hy = []
        for name, val in (('ixa', ixa), ('ixb', ixa), ('ixc', ixc), ('ibuf_len', ibl), ('iomode', cv['BR_IO_IN']), ('shutdown_recv', 0)):
            o, sz = off(name)
            for x in U.field_loads(fn, 0, o):
                hy.append(dict(kind='pin', n=x['n'], value=val))
        Fo = U.optimise(fn, hy, ())
        okk, det = fold.expect_stores_only(Fo, 1, 0, {want}, need=True)
        inst = 'recvrec_buf: ixa = %d, %d bytes expected, buffer of %d bytes => %d bytes offered' % (ixa, ixc, ibl, want)
        if okk:
            chk.ok(rule, inst, S, det)
        else:
            chk.violation(rule, inst, S, det + ': the region offered to the transport is not clamped to the input buffer', key='%s %d %d %d' % (rule, ixa, ixc, ibl))


def ready_state(chk, rule='engine-ready-state'):
    """make_ready_in: the input window is empty and exactly a 5-byte header is awaited; make_ready_out: the payload window starts
    where the method says, never exceeds max_frag_len and oxc marks its start.  Decided on the O2 form of the two functions."""
    off = _ctx()
    U = oblig.funit(S)
    F = U.func('make_ready_in')      # -O0 + mem2reg form: the three stores are explicit
    for name, want in (('ixa', 0), ('ixb', 0), ('ixc', 5)):
        okk, det = fold.expect_stores_only(F, 0, off(name)[0], [want])
        inst = 'make_ready_in: %s := %d' % (name, want)
        if okk:
            chk.ok(rule, inst, S, det)
        else:
            chk.violation(rule, inst, S, det + ' (ready for a new record = empty window, 5 header bytes expected)', key='%s %s' % (rule, inst))
    F = U.optimise('make_ready_out', [], (), 'default<O1>')
    st = {}
    for i in F.insts.values():
        if i['op'] == 'store':
            base, o = F.addr_of(i['ops'][1])
            if base['k'] == 'a' and base['v'] == 0:
                st.setdefault(o, []).append(i)
    oxa, oxb, oxc, mfl = off('oxa')[0], off('oxb')[0], off('oxc')[0], off('max_frag_len')[0]

    def one(o):
        return st[o][0]['ops'][0] if len(st.get(o, [])) == 1 else None
    va, vb, vc = one(oxa), one(oxb), one(oxc)
    inst = 'make_ready_out: oxa and oxc both := the window start returned by max_plaintext'
    if va is not None and vc is not None and va == vc and va['k'] == 'i' and F.insts[va['v']]['op'] == 'load':
        chk.ok(rule, inst, S)
    else:
        chk.violation(rule, inst, S, 'stores: oxa<-%s oxc<-%s' % (va, vc), key='%s oxa-oxc' % rule)
    # oxb is fed (through the local b, a phi, a select or umin) by "a + max_frag_len", and (b - a) is compared with max_frag_len
    inst = 'make_ready_out: oxb - oxa never exceeds max_frag_len'

    def is_mfl(o, d=0):
        o = F.strip_casts(o)
        if o['k'] != 'i' or d > 3:
            return False
        y = F.insts[o['v']]
        if y['op'] in ('zext', 'sext'):
            return is_mfl(y['ops'][0], d + 1)
        if y['op'] != 'load':
            return False
        b2, o2 = F.addr_of(y['ops'][0])
        return b2['k'] == 'a' and b2['v'] == 0 and o2 == mfl
    seen, st2, found = set(), [vb] if vb is not None else [], False
    while st2:
        o = st2.pop()
        if o['k'] != 'i' or o['v'] in seen:
            continue
        seen.add(o['v'])
        y = F.insts[o['v']]
        if y['op'] == 'add' and any(is_mfl(z) for z in y['ops']):
            found = True
        if y['op'] in ('phi', 'select', 'zext', 'trunc') or (y['op'] == 'call' and (y.get('callee') or '').startswith('llvm.umin')):
            st2.extend(y['ops'])
        if y['op'] == 'add':
            st2.extend(y['ops'])
        if y['op'] == 'load':
            p = F.strip_casts(y['ops'][0])
            if p['k'] == 'i' and F.insts[p['v']]['op'] == 'alloca':
                for z in F.insts.values():
                    if z['op'] == 'store' and F.strip_casts(z['ops'][1]) == p:
                        st2.append(z['ops'][0])
    cmp_ok = any(z['op'] == 'icmp' and any(is_mfl(q) for q in z['ops']) for z in F.insts.values()) or \
        any(z['op'] == 'call' and (z.get('callee') or '').startswith('llvm.umin') and any(is_mfl(q) for q in z['ops']) for z in F.insts.values())
    if found and cmp_ok:
        chk.ok(rule, inst, S)
    else:
        chk.violation(rule, inst, S, 'the value stored to oxb is not limited by oxa + max_frag_len (negotiated maximum fragment length, RFC 6066 4)', key='%s oxb-clamp' % rule)
