"""WMW / PATH structural rules over the whole program's IR (DESIGN 3.5)."""
import re
from . import build, irf
from .build import AnalysisBroken

_all = None


def program():
    """all units of the build (m2r, hooks on), loaded once"""
    global _all
    if _all is None:
        srcs = build.all_sources()
        _all = irf.Units(build.load_units(srcs))
    return _all


def ptr_struct(ty):
    m = re.match(r'%struct\.([\w.]+)\*$', ty)
    return m.group(1) if m else None


def typed_base(F, o):
    """(struct name, const offset) of an address rooted at a struct-typed pointer value (param, load result, phi...)"""
    base, off = F.addr_of(o)
    if off is None:
        return None, None, base
    ty = None
    if base['k'] == 'a':
        ty = F.f['params'][base['v']]['ty']
    elif base['k'] == 'i':
        bi = F.insts[base['v']]
        ty = bi['ty']
        if bi['op'] == 'alloca':
            ty = bi['ty']
    elif base['k'] == 'g':
        return ('@' + base['v']), off, base
    # the GEP chain may start with a bitcast from another struct type: use the innermost source type
    return (ptr_struct(ty) if ty else None), off, base


def stores_to_field(structs_offsets, size=1):
    """all stores whose address is <struct>+off for (struct, off) in structs_offsets, across the program.
    yields (Func, inst, struct)"""
    P = program()
    res = []
    for (un, fn), F in P.static.items():
        for i in F.insts.values():
            if i['op'] == 'store':
                st, off, base = typed_base(F, i['ops'][1])
                if st is None:
                    continue
                for s, o in structs_offsets:
                    if st == s and o <= off < o + size:
                        res.append((F, i, s))
    return res


def bulk_writes_covering(structs_offsets):
    """memset/memcpy whose destination is <struct>+k with constant length covering the field"""
    P = program()
    res = []
    for (un, fn), F in P.static.items():
        for i in F.calls():
            c = i.get('callee') or ''
            if not (c.startswith('llvm.memset') or c.startswith('llvm.memcpy') or c.startswith('llvm.memmove')):
                continue
            st, off, base = typed_base(F, i['ops'][0])
            if st is None:
                continue
            ln = i['ops'][2]
            for s, o in structs_offsets:
                if st == s and off <= o and (ln['k'] != 'c' or off + ln['v'] > o):
                    res.append((F, i, s))
    return res


def incremented_once(F, param, off, width=8):
    """PATH exactly-once: the field (param+off) is stored exactly once in F, the stored value is load(field)+1,
    the store is not inside a loop and its block dominates every ret.  returns (ok, detail, store)"""
    stores = []
    for i in F.insts.values():
        if i['op'] == 'store':
            b, o = F.addr_of(i['ops'][1])
            if b['k'] == 'a' and b['v'] == param and o == off:
                stores.append(i)
    if len(stores) != 1:
        return False, '%d stores to the sequence number (expected exactly 1)' % len(stores), None
    s = stores[0]
    v = s['ops'][0]
    if v['k'] != 'i' or F.insts[v['v']]['op'] != 'add':
        return False, 'stored value is not load+1', s
    a = F.insts[v['v']]
    ops = a['ops']
    c = [x for x in ops if x['k'] == 'c']
    l = [x for x in ops if x['k'] == 'i' and F.insts[x['v']]['op'] == 'load']
    if len(c) != 1 or c[0]['v'] != 1 or len(l) != 1:
        return False, 'stored value is not load+1', s
    lb, lo = F.addr_of(F.insts[l[0]['v']]['ops'][0])
    if not (lb['k'] == 'a' and lb['v'] == param and lo == off):
        return False, 'increment is not based on the field itself', s
    if F.block_of[s['id']] in F.loops_blocks():
        return False, 'increment is inside a loop', s
    reach = F.reachable()
    for r in F.rets:
        if r in reach and not F.dominates_block(F.block_of[s['id']], r):
            rt = [b for b in F.blocks if b['id'] == r][0]['insts'][-1]
            return False, 'a return (line %s) is reachable without the increment' % rt.get('line'), s
    return True, 'single load+1 store, outside loops, dominating every return', s
