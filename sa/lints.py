"""Exact, expected-count-zero lints over the library IR, each with a positive control compiled on every run."""
import os, json, subprocess
from . import build, irf, wmw
from .build import AnalysisBroken

MEM = ('memcmp', 'memcpy', 'memmove', 'memset', 'llvm.memcpy', 'llvm.memmove', 'llvm.memset', 'memcmp_P', 'memcpy_P', 'br_ccopy', 'strncmp')


def _bool_lengths(F):
    res = []
    for c in F.calls():
        cal = c.get('callee') or ''
        if not cal.startswith(MEM):
            continue
        li = 3 if cal == 'br_ccopy' else 2
        if len(c['ops']) <= li:
            continue
        o = c['ops'][li]
        while o['k'] == 'i' and F.insts[o['v']]['op'] in ('zext', 'sext', 'trunc'):
            src = F.insts[o['v']]['ops'][0]
            if src['k'] == 'i' and F.insts[src['v']]['op'] == 'icmp':
                res.append(c)
                break
            o = src
    return res


_ctl = None


def _control():
    global _ctl
    if _ctl is None:
        wd = build.workdir()
        src = os.path.join(build.VERIF, 'selftest', 'lint_bad.c')
        ll, js = os.path.join(wd, 'lint_bad.ll'), os.path.join(wd, 'lint_bad.json')
        p = subprocess.run(['clang', '-g', '-S', '-emit-llvm', '-O0', '-Xclang', '-disable-O0-optnone', '-w', src, '-o', ll + '.raw'], capture_output=True, text=True)
        if p.returncode:
            raise AnalysisBroken('lint positive control does not compile: ' + p.stderr[-300:])
        subprocess.run(['opt-14', '-S', '-passes=mem2reg', ll + '.raw', '-o', ll], check=True)
        build.ensure_irdump()
        with open(js, 'w') as f:
            subprocess.run([build.IRDUMP, ll], stdout=f, check=True)
        _ctl = irf.Units({'lint_bad': json.load(open(js))})
    return _ctl


def length_is_boolean(chk, dirs, rule='length-is-truth-value'):
    """a memcmp / memcpy / memset / br_ccopy length that is the 0/1 result of a comparison (`memcmp(a, b, n != 0)`): the
    operation covers at most one byte -- a misplaced parenthesis, never intended"""
    C = _control()
    if not _bool_lengths(C.func('lintbad_bool_length')):
        raise AnalysisBroken('lint positive control lintbad_bool_length was not matched')
    P = wmw.program()
    n = 0
    for (un, fn), F in sorted(P.static.items()):
        f = F.file().replace(build.REPO + '/', '')
        if not any(f.startswith(d) for d in dirs):
            continue
        n += len([c for c in F.calls() if (c.get('callee') or '').startswith(MEM)])
        for c in _bool_lengths(F):
            chk.violation(rule, '%s: %s length is a comparison result' % (fn, c.get('callee')), F.where(c),
                          'the length argument is 0 or 1: only the first byte is compared / copied', key='%s %s %s' % (rule, fn, c.get('callee')))
    chk.count('memory-routine calls examined by %s' % rule, n)
    if n == 0:
        raise AnalysisBroken('%s: no call examined under %s' % (rule, dirs))
    chk.ok(rule, 'no memory-routine length under %s is a truth value (%d calls; positive control matched)' % (', '.join(dirs), n), dirs[0], nontrivial=False)


def _limb_splits(F):
    """stores, in one block, to consecutive constant offsets of one base, of (X >> k*w) [& mask] with k = 0, 1, 2, ...:
    returns the groups whose shift amounts form the progression but whose roots X differ"""
    def pat(o, depth=0):
        """-> (root operand, shift, mask or None) for root, root & m, (root >> s), (root >> s) & m (through zext/trunc)"""
        if o['k'] != 'i' or depth > 4:
            return (o, 0, None)
        i = F.insts[o['v']]
        if i['op'] in ('zext', 'sext', 'trunc'):
            return pat(i['ops'][0], depth + 1)
        if i['op'] == 'and' and any(q['k'] == 'c' for q in i['ops']):
            r, s0, m0 = pat(next(q for q in i['ops'] if q['k'] != 'c'), depth + 1)
            return (r, s0, next(q for q in i['ops'] if q['k'] == 'c')['v'])
        if i['op'] == 'lshr' and i['ops'][1]['k'] == 'c' and i['ops'][1]['v'] is not None:
            r, s0, m0 = pat(i['ops'][0], depth + 1)
            return (r, s0 + i['ops'][1]['v'], m0)
        return (o, 0, None)
    bad = []
    for b in F.blocks:
        groups = {}
        for i in b['insts']:
            if i['op'] != 'store':
                continue
            base, off = i['ops'][1], 0
            while base['k'] == 'i':
                g = F.insts[base['v']]
                if g['op'] == 'bitcast':
                    base = g['ops'][0]
                elif g['op'] == 'getelementptr' and g.get('off') is not None and not g.get('var'):
                    off += g['off']
                    base = g['ops'][0]
                else:
                    break
            v = i['ops'][0]
            if v['k'] not in ('i', 'a'):
                continue
            root, sh, mk = pat(v)
            if root['k'] == 'c':
                continue
            groups.setdefault(repr(sorted(base.items())), []).append((off, i.get('size', 1), root, sh, i, mk))
        for g in groups.values():
            g.sort(key=lambda t: t[0])
            # maximal runs of consecutive elements
            run = [g[0]]
            runs = []
            for t in g[1:]:
                if t[0] == run[-1][0] + run[-1][1] and t[1] == run[-1][1]:
                    run.append(t)
                else:
                    runs.append(run)
                    run = [t]
            runs.append(run)
            for r in runs:
                if len(r) < 3:
                    continue
                shifts = [t[3] for t in r]
                d = shifts[1] - shifts[0]
                if d <= 0 or any(shifts[k + 1] - shifts[k] != d for k in range(len(shifts) - 1)) or shifts[0] != 0:
                    continue
                # the limbs partition one value: every masked limb keeps exactly d bits
                if any(t[5] is not None and t[5] != (1 << d) - 1 for t in r) or not any(t[5] is not None for t in r):
                    continue
                roots = set(repr(sorted(t[2].items())) for t in r)
                if len(roots) > 1:
                    bad.append(r[-1][4])
    return bad


def limb_split_consistent(chk, dirs, rule='limb-split-single-source'):
    """a value split into consecutive limbs (x & m, (x >> w) & m, x >> 2w, ...) must take every limb from the same variable"""
    C = _control()
    if not _limb_splits(C.func('lintbad_limb_split')):
        raise AnalysisBroken('lint positive control lintbad_limb_split was not matched')
    P = wmw.program()
    n = 0
    for (un, fn), F in sorted(P.static.items()):
        f = F.file().replace(build.REPO + '/', '')
        if not any(f.startswith(d) for d in dirs):
            continue
        n += 1
        for i in _limb_splits(F):
            chk.violation(rule, '%s: limbs of one value come from different variables' % fn, F.where(i),
                          'a run of stores x & m, (x >> w) & m, ... ends with a limb taken from another variable (copy/paste slip): the encoded integer is wrong '
                          'whenever the two variables differ in those bits', key='%s %s %s' % (rule, fn, i.get('line')))
    chk.ok(rule, 'every limb split under %s takes all limbs from one variable (%d functions; positive control matched)' % (', '.join(dirs), n), dirs[0], nontrivial=False)


def _tail_copies(F):
    """memcpy calls inside a loop whose source is the loop-invariant input parameter (or param + constant) although the same loop
    advances a running pointer over that parameter"""
    inloop = F.loops_blocks()
    if not inloop:
        return [], 0
    # running pointers: phis in loop blocks with an incoming value rooted at a parameter and another that is GEP(phi, non-zero)
    running = {}
    pphis = {i['id']: i for i in F.insts.values() if i['op'] == 'phi' and i['ty'].endswith('*') and F.block_of[i['id']] in inloop}
    for pid, i in pphis.items():
        seen, st = {pid}, [pid]
        roots, adv = set(), False
        while st:
            q = st.pop()
            for o in pphis[q]['ops']:
                if o['k'] not in ('i', 'a'):
                    continue
                b, off = F.addr_of(o)
                if b['k'] == 'a':
                    roots.add(b['v'])
                elif b['k'] == 'i' and b['v'] in pphis:
                    if off != 0:
                        adv = True
                    if b['v'] not in seen:
                        seen.add(b['v'])
                        st.append(b['v'])
        if adv and len(roots) == 1:
            running.setdefault(next(iter(roots)), []).append(i)
    res = []
    n = 0
    for c in F.calls():
        cal = c.get('callee') or ''
        if not cal.startswith(('llvm.memcpy', 'llvm.memmove', 'memcpy')) or F.block_of[c['id']] not in inloop or len(c['ops']) < 3:
            continue
        b, off = F.addr_of(c['ops'][1])
        if b['k'] == 'a' and b['v'] in running and off is not None and c['ops'][2]['k'] != 'c':
            n += 1
            res.append(c)
        elif b['k'] == 'i' and any(b['v'] == p['id'] for ps in running.values() for p in ps):
            n += 1
    return res, n


def tail_copy_from_running_pointer(chk, dirs, rule='tail-copy-from-running-pointer'):
    """chunked processing (GHASH, CBC-MAC, Poly1305, hash updates): the partial last block is copied into a local buffer from the *running*
    pointer; copying a variable number of bytes from the unadvanced input parameter inside a loop that advances a pointer over that same
    parameter takes the tail from the start of the data"""
    C = _control()
    if not _tail_copies(C.func('lintbad_tail_copy'))[0] or _tail_copies(C.func('lintgood_tail_copy'))[0]:
        raise AnalysisBroken('lint controls for %s: positive not matched or negative matched' % rule)
    P = wmw.program()
    n = 0
    for (un, fn), F in sorted(P.static.items()):
        f = F.file().replace(build.REPO + '/', '')
        if not any(f.startswith(d) for d in dirs):
            continue
        bad, k = _tail_copies(F)
        n += k
        for c in bad:
            chk.violation(rule, '%s: partial-block copy reads from the running pointer' % fn, F.where(c),
                          'the copy takes its bytes from the start of the input although the loop has advanced past full blocks: for inputs longer than one block '
                          'the last partial block is wrong', key='%s %s %s' % (rule, fn, c.get('line')))
    chk.count('in-loop copies from a running input pointer examined by %s' % rule, n)
    chk.ok(rule, 'every in-loop partial-block copy under %s reads from the running pointer (%d copies; controls matched)' % (', '.join(dirs), n), dirs[0], nontrivial=False)
    if n < 3:
        raise AnalysisBroken('%s: only %d copies examined under %s' % (rule, n, dirs))


_DEC = ('br_dec16be', 'br_dec16le', 'br_dec32be', 'br_dec32le', 'br_dec64be', 'br_dec64le')
_ENC = ('br_enc16be', 'br_enc16le', 'br_enc32be', 'br_enc32le', 'br_enc64be', 'br_enc64le')


def _codec_maps(F):
    """(records, findings): records are the statements `A[k] = dec(p + c)`, `A[k] ^= dec(p + c)` and `enc(p + c, A[k])` with A a local array
    and k, c constants.  Per array and per base pointer p the map k -> c must be a function, and no two distinct decode / encode calls
    may pair one offset with two slots (a value decoded once and stored twice - the bitsliced AES counter blocks - is fine); two base
    pointers that cover the same slots of the same array (state decoded, data absorbed, state encoded) must use the same map."""
    def strip(o):
        while o['k'] == 'i' and F.insts[o['v']]['op'] in ('zext', 'trunc', 'sext', 'bitcast'):
            o = F.insts[o['v']]['ops'][0]
        return o

    def slot(o):
        b, off = F.addr_of(o)
        if b['k'] == 'i' and F.insts[b['v']]['op'] == 'alloca' and off is not None:
            return b['v'], off
        return None

    def decs(o, depth=0):
        o = strip(o)
        if o['k'] != 'i':
            return []
        i = F.insts[o['v']]
        if i['op'] == 'call' and i.get('callee') in _DEC:
            return [i]
        if i['op'] == 'xor' and depth < 2:
            return decs(i['ops'][0], depth + 1) + decs(i['ops'][1], depth + 1)
        return []
    recs = []
    for i in F.insts.values():
        if i['op'] == 'store':
            sl = slot(i['ops'][1])
            if sl:
                for d in decs(i['ops'][0]):
                    b, c = F.addr_of(d['ops'][0])
                    if c is not None:
                        recs.append((sl[0], sl[1], repr(sorted(b.items())), c, d['id'], i))
        elif i['op'] == 'call' and i.get('callee') in _ENC and len(i['ops']) >= 2:
            v = strip(i['ops'][1])
            if v['k'] == 'i' and F.insts[v['v']]['op'] == 'load':
                sl = slot(F.insts[v['v']]['ops'][0])
                b, c = F.addr_of(i['ops'][0])
                if sl and c is not None:
                    recs.append((sl[0], sl[1], repr(sorted(b.items())), c, i['id'], i))
    per, ids, at = {}, {}, {}
    for A, k, b, c, cid, i in recs:
        per.setdefault(A, {}).setdefault(b, {}).setdefault(k, set()).add(c)
        ids.setdefault((A, b, c, k), set()).add(cid)
        at[(A, b, k)] = i
        at[(A, b, 'c', c)] = i
    bad = []
    for A, bases in per.items():
        for b, m in bases.items():
            inv = {}
            for k, cs in m.items():
                if len(cs) > 1:
                    bad.append((at[(A, b, k)], 'slot +%d of the local array is paired with offsets %s of the same buffer' % (k, sorted(cs))))
                for c in cs:
                    inv.setdefault(c, set()).add(k)
            for c, ks in inv.items():
                if len(ks) > 1 and len(set().union(*[ids[(A, b, c, k)] for k in ks])) > 1:
                    bad.append((at[(A, b, 'c', c)], 'offset %d of the buffer is paired with slots %s of the local array' % (c, sorted(ks))))
        bs = sorted(bases)
        for x in range(len(bs)):
            for y in range(x + 1, len(bs)):
                mx, my = bases[bs[x]], bases[bs[y]]
                if len(mx) > 1 and set(mx) == set(my) and mx != my:
                    k = next(k for k in sorted(mx) if mx[k] != my[k])
                    bad.append((at[(A, bs[y], k)], 'two buffers cover the same slots of the local array with different layouts (slot +%d: offsets %s / %s)'
                                % (k, sorted(mx[k]), sorted(my[k]))))
    return recs, bad


def word_codec_maps(chk, dirs, rule='word-codec-map-consistent', floor=1):
    """big-/little-endian word decoding into a local array, absorption of data words into it and its encoding back use constant (slot,
    offset) pairs (GHASH state, AES blocks, DES halves, point coordinates): a slot that receives two offsets, or an offset that lands in
    two slots, silently drops four or eight bytes of the input from the computation"""
    C = _control()
    if not _codec_maps(C.func('lintbad_codec_map'))[1] or _codec_maps(C.func('lintgood_codec_map'))[1] or not _codec_maps(C.func('lintgood_codec_map'))[0]:
        raise AnalysisBroken('lint controls for %s: positive not matched or negative matched' % rule)
    P = wmw.program()
    n = nf = 0
    for (un, fn), F in sorted(P.static.items()):
        f = F.file().replace(build.REPO + '/', '')
        if not any(f.startswith(d) for d in dirs):
            continue
        recs, bad = _codec_maps(F)
        n += len(recs)
        nf += 1 if recs else 0
        for i, msg in bad:
            chk.violation(rule, '%s: word layout of a local array is consistent' % fn, F.where(i), msg + ': part of the input never reaches the computation '
                          '(or one word is applied twice)', key='%s %s %s' % (rule, fn, msg[:30]))
    chk.count('decode / absorb / encode statements with constant slot and offset examined by %s' % rule, n)
    if nf < floor:
        raise AnalysisBroken('%s: only %d functions with constant word layouts under %s (floor %d)' % (rule, nf, dirs, floor))
    chk.ok(rule, 'every constant word layout under %s is a consistent bijection (%d statements in %d functions; controls matched)' % (', '.join(dirs), n, nf),
           dirs[0], nontrivial=False)


def _iw(ty):
    return int(ty[1:]) if ty.startswith('i') and ty[1:].isdigit() else None


def _split_losses(F):
    """(leaves examined, findings).  A *word* is the result of a truncation (the low or high half cut out of a double-width accumulator)
    or of a multiplication: all its bits are significant.  When every use of a word is a re-split -- constant shifts, constant masks,
    ors, zero-extensions -- each of its bits must survive in one of the maximal split expressions; a bit that reaches none of them
    has been dropped by a shift count or a mask that is off by one."""
    def is_split(i):
        if i['op'] in ('shl', 'lshr'):
            return i['ops'][1]['k'] == 'c' and i['ops'][1]['v'] is not None
        if i['op'] == 'and':
            return any(o['k'] == 'c' and o['v'] is not None for o in i['ops'])
        if i['op'] == 'zext':
            return _iw(i.get('ty', '')) is not None
        return i['op'] == 'or'

    def opw(o, d):
        if o['k'] == 'i':
            return _iw(F.insts[o['v']].get('ty', '')) or d
        if o['k'] == 'c':
            return o.get('w') or d
        return d
    memo = {}

    def ev(o, w):
        if o['k'] == 'c':
            v = (o['v'] or 0) & ((1 << w) - 1)
            return [(v >> j) & 1 for j in range(w)]
        if o['k'] != 'i':
            return [None] * w
        if o['v'] in memo:
            return memo[o['v']]
        i = F.insts[o['v']]
        ww = _iw(i.get('ty', '')) or w
        if not is_split(i):
            r = [(i['id'], j) for j in range(ww)]
        elif i['op'] == 'zext':
            r = (ev(i['ops'][0], opw(i['ops'][0], ww)) + [0] * ww)[:ww]
        elif i['op'] in ('shl', 'lshr'):
            a = ev(i['ops'][0], ww)
            s_ = i['ops'][1]['v']
            r = ([0] * s_ + a)[:ww] if i['op'] == 'shl' else (a[s_:] + [0] * s_)[:ww]
        else:
            a, b = ev(i['ops'][0], ww), ev(i['ops'][1], ww)
            r = []
            for x, y in zip(a, b):
                if i['op'] == 'and':
                    r.append(0 if x == 0 or y == 0 else y if x == 1 else x if y == 1 else (x if x == y else None))
                else:
                    r.append(y if x == 0 else x if y == 0 else 1 if 1 in (x, y) else (x if x == y else None))
        memo[o['v']] = r
        return r
    users = {}
    for i in F.insts.values():
        if i['op'] == 'dbgvalue':
            continue
        for o in i['ops']:
            if o['k'] == 'i':
                users.setdefault(o['v'], []).append(i)
    kept = {}
    for i in F.insts.values():
        if i['op'] == 'dbgvalue' or not is_split(i):
            continue
        w = _iw(i.get('ty', ''))
        if w and any(not is_split(x) for x in users.get(i['id'], [])):
            for b in ev({'k': 'i', 'v': i['id']}, w):
                if isinstance(b, tuple):
                    kept.setdefault(b[0], set()).add(b[1])
    n, bad = 0, []
    for lid in sorted(kept):
        L = F.insts[lid]
        us = users.get(lid, [])
        w = _iw(L.get('ty', ''))
        if L['op'] not in ('trunc', 'mul') or not w or w > 64 or len(us) < 2 or not all(is_split(x) for x in us):
            continue
        n += 1
        miss = [j for j in range(w) if j not in kept[lid]]
        if miss:
            bad.append((L, miss))
    return n, bad


def word_split_conserves_bits(chk, dirs, rule='word-split-conserves-bits', floor=1):
    """multi-word arithmetic re-splits accumulator words across limb boundaries (th = t7 >> 62; t7 = ((t7 << 1) | (t6 >> 63)) & MASK63):
    every bit of the word must be kept by one of the pieces"""
    C = _control()
    if not _split_losses(C.func('lintbad_word_split'))[1] or _split_losses(C.func('lintgood_word_split'))[1] or not _split_losses(C.func('lintgood_word_split'))[0]:
        raise AnalysisBroken('lint controls for %s: positive not matched or negative matched' % rule)
    P = wmw.program()
    n = 0
    for (un, fn), F in sorted(P.static.items()):
        f = F.file().replace(build.REPO + '/', '')
        if not any(f.startswith(d) for d in dirs):
            continue
        k, bad = _split_losses(F)
        n += k
        for L, miss in bad:
            chk.violation(rule, '%s: a re-split word keeps all its bits' % fn, F.where(L),
                          'bit%s %s of the %d-bit word computed here reach%s none of the pieces it is split into: the value is wrong whenever %s set'
                          % ('s' if len(miss) > 1 else '', ', '.join(map(str, miss[:6])), _iw(L['ty']), '' if len(miss) > 1 else 'es', 'one of them is' if len(miss) > 1 else 'it is'),
                          key='%s %s %s' % (rule, fn, miss[0]))
    chk.count('accumulator words whose every use is a re-split, examined by %s' % rule, n)
    if n < floor:
        raise AnalysisBroken('%s: only %d words examined under %s (floor %d)' % (rule, n, dirs, floor))
    chk.ok(rule, 'every fully re-split accumulator word under %s keeps all its bits (%d words; controls matched)' % (', '.join(dirs), n), dirs[0], nontrivial=False)


def _or_scan_short(F):
    """(scans, findings): loops `for (i = 0; i < K; i ++) acc |= A[i]` over a local array A of N elements with constant K: K must be N"""
    import re as _re
    scans, bad = 0, []
    for i in F.insts.values():
        if i['op'] != 'or':
            continue
        ops = [F.strip_casts(o) for o in i['ops']]
        ld = next((F.insts[o['v']] for o in ops if o['k'] == 'i' and F.insts[o['v']]['op'] == 'load'), None)
        acc = next((F.insts[o['v']] for o in ops if o['k'] == 'i' and F.insts[o['v']]['op'] == 'phi'), None)
        if ld is None or acc is None:
            continue
        g = F.strip_casts(ld['ops'][0])
        if g['k'] != 'i' or F.insts[g['v']]['op'] != 'getelementptr':
            continue
        g = F.insts[g['v']]
        base = F.strip_casts(g['ops'][0])
        if base['k'] != 'i' or F.insts[base['v']]['op'] != 'alloca' or g.get('off') or len(g.get('var') or []) != 1:
            continue
        A = F.insts[base['v']]
        m = _re.match(r'\[(\d+) x ', A.get('aty') or '')
        iv = F.strip_casts(g['var'][0][0])
        if not m or iv['k'] != 'i' or F.insts[iv['v']]['op'] != 'phi':
            continue
        ph = F.insts[iv['v']]
        if not any(o['k'] == 'c' and o['v'] == 0 for o in ph['ops']):
            continue
        bounds = [c['ops'][1]['v'] for c in F.insts.values() if c['op'] == 'icmp' and c['pred'] in ('ult', 'slt') and F.strip_casts(c['ops'][0]) == {'k': 'i', 'v': ph['id']}
                  and c['ops'][1]['k'] == 'c']
        if len(bounds) != 1:
            continue
        scans += 1
        if bounds[0] != int(m.group(1)):
            bad.append((i, bounds[0], int(m.group(1))))
    return scans, bad


def or_scan_covers_array(chk, dirs, rule='or-scan-covers-array', floor=1):
    """a verdict accumulated as `bad |= t[i]` over a local limb array (is the curve-equation residual zero? are two values equal?)
    must look at every limb: a loop bound one short ignores the top limb, and values that differ there only are accepted"""
    C = _control()
    if not _or_scan_short(C.func('lintbad_or_scan'))[1] or _or_scan_short(C.func('lintgood_or_scan'))[1] or not _or_scan_short(C.func('lintgood_or_scan'))[0]:
        raise AnalysisBroken('lint controls for %s: positive not matched or negative matched' % rule)
    P = wmw.program()
    n = 0
    for (un, fn), F in sorted(P.static.items()):
        f = F.file().replace(build.REPO + '/', '')
        if not any(f.startswith(d) for d in dirs):
            continue
        k, bad = _or_scan_short(F)
        n += k
        for i, b, sz in bad:
            chk.violation(rule, '%s: an OR-scan over a local array covers all its elements' % fn, F.where(i),
                          'the loop runs to %d, the array has %d elements: the remaining limbs never reach the verdict' % (b, sz), key='%s %s %s' % (rule, fn, i.get('line')))
    chk.count('OR-scans over local arrays examined by %s' % rule, n)
    if n < floor:
        raise AnalysisBroken('%s: only %d scans under %s (floor %d)' % (rule, n, dirs, floor))
    chk.ok(rule, 'every OR-scan over a local array under %s covers the whole array (%d scans; controls matched)' % (', '.join(dirs), n), dirs[0], nontrivial=False)


def _narrow_masks(F):
    """(ands examined, findings): `x & C` on a 64-bit x with C = 0x00000000FFFFFF..0 (a round-down mask written with a 32-bit
    type, `~127u`, zero-extended): the upper word of x is cleared as well. Not matched when x is itself a widened 32-bit value."""
    n, bad = 0, []
    for i in F.insts.values():
        if i['op'] != 'and' or i.get('ty') != 'i64':
            continue
        a, b = i['ops']
        if a['k'] == 'c':
            a, b = b, a
        if b['k'] != 'c' or a['k'] == 'c':
            continue
        n += 1
        C = b['v'] & 0xFFFFFFFFFFFFFFFF
        if not (0x80000000 <= C < 0xFFFFFFFF):
            continue
        low = (~C) & 0xFFFFFFFF
        if low & (low + 1) or low >= 4096:          # cleared bits are not a low run 2^k - 1 of block size (bit-field masks of
            continue                                   # bitsliced code, 0x00000000FFF00000, are written as 64-bit constants and meant)
        x = a
        narrow = False
        while x['k'] == 'i' and F.insts[x['v']]['op'] in ('zext', 'sext', 'bitcast'):
            src = F.insts[x['v']]
            if src['op'] == 'zext':
                narrow = True
                break
            x = src['ops'][0]
        if narrow:
            continue
        bad.append((i, C))
    return n, bad


def round_down_mask_keeps_high_word(chk, dirs, rule='round-down-mask-keeps-high-word', floor=1):
    """a 64-bit byte / bit counter rounded down to a block boundary must keep its upper 32 bits: `count & ~127u` (mask of a 32-bit
    type) silently clears them, and everything hashed / encrypted beyond 2^32 bytes is mis-counted"""
    C = _control()
    if (not _narrow_masks(C.func('lintbad_narrow_mask'))[1] or _narrow_masks(C.func('lintgood_narrow_mask'))[1]
            or _narrow_masks(C.func('lintgood_narrow_mask2'))[1] or not _narrow_masks(C.func('lintgood_narrow_mask'))[0]):
        raise AnalysisBroken('lint controls for %s: positive not matched or negative matched' % rule)
    P = wmw.program()
    n = 0
    for (un, fn), F in sorted(P.static.items()):
        f = F.file().replace(build.REPO + '/', '')
        if not any(f.startswith(d) for d in dirs):
            continue
        k, bad = _narrow_masks(F)
        n += k
        for i, c in bad:
            chk.violation(rule, '%s: 64-bit value masked with a zero-extended 32-bit round-down mask' % fn, F.where(i),
                          'x & 0x%016x clears bits 32..63 of a 64-bit quantity (mask written with a 32-bit type)' % c, key='%s %s %s' % (rule, fn, i.get('line')))
    chk.count('64-bit constant masks examined by %s' % rule, n)
    if n < floor:
        raise AnalysisBroken('%s: only %d masks under %s (floor %d)' % (rule, n, dirs, floor))
    chk.ok(rule, 'no 64-bit value under %s is rounded down with a 32-bit mask (%d constant masks; controls matched)' % (', '.join(dirs), n), dirs[0], nontrivial=False)


def _ignored_results():
    """{(file, function, callee): number of call sites whose returned value has no use}, and per-callee used counts"""
    import collections
    P = wmw.program()
    ign = collections.Counter()
    used = collections.Counter()
    for (un, fn), F in sorted(P.static.items()):
        f = F.file().replace(build.REPO + '/', '')
        if not f.startswith('src/'):
            continue
        # a result counts as used only if it (transitively) reaches an effect: branch, return, store, call argument, switch (mark phase)
        livev, st = set(), []
        for i_ in F.insts.values():
            if i_['op'] in ('br', 'ret', 'store', 'call', 'switch', 'indirectbr', 'invoke'):
                st.extend(o['v'] for o in i_['ops'] if o['k'] == 'i')
                if i_.get('cv') and i_['cv']['k'] == 'i':
                    st.append(i_['cv']['v'])
        while st:
            v = st.pop()
            if v in livev:
                continue
            livev.add(v)
            st.extend(o['v'] for o in F.insts[v]['ops'] if o['k'] == 'i')
        uses = {c['id']: (c['id'] in livev) for c in F.calls()}
        for c in F.calls():
            cal = c.get('callee')
            if cal is None and c.get('fty'):
                cal = 'indirect ' + c['fty'].split(')')[0] + ')'
            if not cal or cal.startswith('llvm.') or c.get('ty') in (None, 'void'):
                continue
            if uses.get(c['id']):
                used[cal] += 1
            else:
                ign[(f, fn, cal)] += 1
    return ign, used


def ignored_result_regression(chk, dirs, rule='verdict-not-dropped'):
    """Error discipline (Engler et al.): a callee whose result is consumed at most of its call sites returns something that matters - a
    verdict, a carry, a length.  The call sites that ignore a returned value on the reference tree were read and are frozen in
    rules/ignored_results.json (carries of additions that cannot overflow, fixed-parameter resets, ...); a *new* ignored result -
    typically `r &= check(...)` turned into `check(...)`, or a dropped `if (!f(...)) return 0` - is reported."""
    ref = json.load(open(os.path.join(build.VERIF, 'rules', 'ignored_results.json')))['ignored']
    ign, used = _ignored_results()
    n = 0
    for (f, fn, cal), k in sorted(ign.items()):
        if not any(f.startswith(d) for d in dirs):
            continue
        n += 1
        key = '%s:%s:%s' % (f, fn, cal)
        if k > ref.get(key, 0) and (used[cal] > 0 or any(x.endswith(':' + cal) for x in ref)):
            chk.violation(rule, '%s: every result of %s() that the reference tree consumes is still consumed' % (fn, cal), f,
                          '%d call site(s) of %s() in %s now ignore the returned value (reference: %d): a verdict / carry / length is dropped'
                          % (k, cal, fn, ref.get(key, 0)), key='%s %s' % (rule, key))
    tot = sum(1 for (f, fn, cal) in ign if any(f.startswith(d) for d in dirs))
    chk.count('call sites with ignored results examined by %s' % rule, tot)
    chk.ok(rule, 'no new ignored result under %s (%d reviewed (function, callee) pairs ignore a result on the reference tree)' % (', '.join(dirs), n), dirs[0], nontrivial=False)


if __name__ == '__main__':
    ign, used = _ignored_results()
    out = {'ignored': {'%s:%s:%s' % k: v for k, v in sorted(ign.items())}}
    json.dump(out, open(os.path.join(build.VERIF, 'rules', 'ignored_results.json'), 'w'), indent=1, sort_keys=True)
    print('wrote %d entries' % len(out['ignored']))
