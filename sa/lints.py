"""Exact, expected-count-zero lints over the library IR, each with a positive control compiled on every run."""
import os, json, subprocess
from . import build, irf, wmw
from .build import AnalysisBroken

MEM = ('memcmp', 'memcpy', 'memmove', 'memset', 'llvm.memcpy', 'llvm.memmove', 'llvm.memset', 'memcmp_P', 'memcpy_P', 'br_ccopy', 'strncmp')


def _bool_lengths(F):
    res = []
    for c in F.calls():
        cal = c.get('callee') or ''
        if not cal.startswith(MEM):
            continue
        li = 3 if cal == 'br_ccopy' else 2
        if len(c['ops']) <= li:
            continue
        o = c['ops'][li]
        while o['k'] == 'i' and F.insts[o['v']]['op'] in ('zext', 'sext', 'trunc'):
            src = F.insts[o['v']]['ops'][0]
            if src['k'] == 'i' and F.insts[src['v']]['op'] == 'icmp':
                res.append(c)
                break
            o = src
    return res


_ctl = None


def _control():
    global _ctl
    if _ctl is None:
        wd = build.workdir()
        src = os.path.join(build.VERIF, 'selftest', 'lint_bad.c')
        ll, js = os.path.join(wd, 'lint_bad.ll'), os.path.join(wd, 'lint_bad.json')
        p = subprocess.run(['clang', '-g', '-S', '-emit-llvm', '-O0', '-Xclang', '-disable-O0-optnone', '-w', src, '-o', ll + '.raw'], capture_output=True, text=True)
        if p.returncode:
            raise AnalysisBroken('lint positive control does not compile: ' + p.stderr[-300:])
        subprocess.run(['opt-14', '-S', '-passes=mem2reg', ll + '.raw', '-o', ll], check=True)
        build.ensure_irdump()
        with open(js, 'w') as f:
            subprocess.run([build.IRDUMP, ll], stdout=f, check=True)
        _ctl = irf.Units({'lint_bad': json.load(open(js))})
    return _ctl


def length_is_boolean(chk, dirs, rule='length-is-truth-value'):
    """a memcmp / memcpy / memset / br_ccopy length that is the 0/1 result of a comparison (`memcmp(a, b, n != 0)`): the
    operation covers at most one byte -- a misplaced parenthesis, never intended"""
    C = _control()
    if not _bool_lengths(C.func('lintbad_bool_length')):
        raise AnalysisBroken('lint positive control lintbad_bool_length was not matched')
    P = wmw.program()
    n = 0
    for (un, fn), F in sorted(P.static.items()):
        f = F.file().replace(build.REPO + '/', '')
        if not any(f.startswith(d) for d in dirs):
            continue
        n += len([c for c in F.calls() if (c.get('callee') or '').startswith(MEM)])
        for c in _bool_lengths(F):
            chk.violation(rule, '%s: %s length is a comparison result' % (fn, c.get('callee')), F.where(c),
                          'the length argument is 0 or 1: only the first byte is compared / copied', key='%s %s %s' % (rule, fn, c.get('callee')))
    chk.count('memory-routine calls examined by %s' % rule, n)
    if n == 0:
        raise AnalysisBroken('%s: no call examined under %s' % (rule, dirs))
    chk.ok(rule, 'no memory-routine length under %s is a truth value (%d calls; positive control matched)' % (', '.join(dirs), n), dirs[0], nontrivial=False)
