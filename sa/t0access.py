"""Bounded context accesses of T0 code (DESIGN §4 C05 clause 2): every native that addresses the context by an offset taken
from the data stack gets the obligation  field.start <= addr  and  addr + len <= field.end  for the field its address lies in."""
import json, os
from . import t0, t0ai, irf, build
from .build import AnalysisBroken

# native -> (kind, indices of address arguments, length: constant or index of the length argument); arguments bottom -> top
ACC = {
    'set8': ('w', [1], 1), 'set16': ('w', [1], 2), 'set32': ('w', [1], 4),
    'get8': ('r', [0], 1), 'get16': ('r', [0], 2), 'get32': ('r', [0], 4),
    'read-blob-inner': ('w', [0], 'a1'), 'read-chunk-native': ('w', [0], 'a1'), 'write-blob-chunk': ('r', [0], 'a1'),
    'blobcopy': ('wr', [0, 1], 'a2'), 'memcpy': ('wr', [0, 1], 'a2'), 'eqblob': ('rr', [0, 1], 'a2'), 'memcmp': ('rr', [0, 1], 'a2'),
    'bzero': ('w', [0], 'a1'), 'mkrand': ('w', [0], 'a1'), 'strlen': ('r', [0], 1),
}
# natives that record (pointer, length) pairs based at a fixed context field: sum of the listed arguments <= sizeof field
FIXED = {
    ('pkey_decoder', 'set-rsa-key'): (['key_data'], [0, 1]),
    ('skey_decoder', 'set-rsa-key'): (['key_data'], [1, 2, 3, 4, 5]),
    ('pkey_decoder', 'set-ec-key'): (['key_data'], [1]),
    ('skey_decoder', 'set-ec-key'): (['key_data'], [1]),
    ('x509_minimal', 'copy-ee-rsa-pkey'): (['ee_pkey_data', 'pkey_data'], [0, 1]),
    ('x509_minimal', 'copy-ee-ec-pkey'): (['ee_pkey_data', 'pkey_data'], [1]),
    ('x509_minimal', 'do-rsa-vrfy'): (['pkey_data'], [0, 1]),
    ('x509_minimal', 'do-ecdsa-vrfy'): (['pkey_data'], [1]),
    ('x509_decoder', 'copy-rsa-pkey'): (['pkey_data'], [0, 1]),
    ('x509_decoder', 'copy-ec-pkey'): (['pkey_data'], [1]),
}
SKIP_ZERO_ADDR = ('read-blob-inner', 'read-chunk-native')     # addr == 0 means "skip, do not store"


def natives_addressing_context(prog):
    """IR cross-check: natives whose code forms an address  context_base + (value popped from the data stack)"""
    f = next((x for x in prog.unit['functions'] if x['name'] == prog.runfn and not x['decl']), None)
    F = irf.Func(prog.unit, f)
    eff = prog.native_effects()
    # region of each case
    sw = sorted([i for i in F.insts.values() if i['op'] == 'switch'], key=lambda i: -len(i['ops']))[0]
    ops = sw['ops']
    cases = {ops[k]['v']: ops[k + 1]['v'] for k in range(2, len(ops), 2)}
    hb = None
    for i in F.insts.values():
        if i['op'] == 'phi' and i['ty'] == 'i32*':
            hb = F.block_of[i['id']]
            break
    res = set()
    bid = {b['id']: b for b in F.blocks}
    for opc, tb in cases.items():
        seen = set()
        st = [tb]
        hit = False
        while st and not hit:
            b = st.pop()
            if b in seen or b == hb:
                continue
            seen.add(b)
            for i in bid[b]['insts']:
                if i['op'] == 'getelementptr' and i.get('var') and i['ty'] == 'i8*':
                    base, off = F.addr_of(i['ops'][0])
                    if base == {'k': 'a', 'v': 0}:
                        # index derived from a load of the data stack? (any i32 load widened to i64)
                        for vo, sc in i['var']:
                            v = F.strip_casts(vo)
                            if v['k'] == 'i' and F.insts[v['v']]['op'] == 'load' and F.insts[v['v']]['ty'] == 'i32':
                                hit = True
            st.extend(F.succ[b])
        if hit:
            res.add(prog.natives[opc])
    return res


class _Rec:
    """picklable stand-in for report.Check used inside worker processes"""
    def __init__(self):
        self.recs = []

    def ok(self, *a, **k):
        self.recs.append(('ok', a, k))

    def violation(self, *a, **k):
        self.recs.append(('violation', a, k))

    def count(self, *a, **k):
        self.recs.append(('count', a, k))


def _worker(args):
    key, field_ranges, assumed, repo = args
    build.REPO = repo
    r = _Rec()
    try:
        check(r, key, field_ranges, assumed)
    except AnalysisBroken as e:
        return key, None, str(e)
    return key, r.recs, None


def check_all(chk, keys, field_ranges, assumed):
    import multiprocessing as mp
    # build the units first (shared work directory), then analyse the interpreters in parallel processes
    for k in keys:
        t0.Program(k)
    with mp.get_context('fork').Pool(min(len(keys), 8)) as pool:
        res = pool.map(_worker, [(k, field_ranges, assumed, build.REPO) for k in keys])
    for key, recs, err in res:
        if err:
            raise AnalysisBroken(err)
        for kind, a, k in recs:
            getattr(chk, kind)(*a, **k)


def check(chk, key, field_ranges, assumed, rule='t0-context-access'):
    P = t0.Program(key)
    L = P.layouts
    fr = {}
    for fname, (lo, hi, why) in field_ranges.items():
        try:
            fr[L.field(P.ctxname, fname)[0]] = (lo, hi)
        except KeyError:
            pass
    I = t0ai.Interp(P, field_ranges=fr).run_entry()
    addressing = natives_addressing_context(P)
    missing = sorted(n for n in addressing if n not in ACC and (key, n) not in FIXED)
    if missing:
        chk.violation(rule, '%s: natives addressing the context are all modelled' % key, P.src,
                      'native(s) %s form context_base + popped offset but are not in the access table' % missing, key='%s %s unmodelled %s' % (rule, key, missing))
    chk.count('natives_addressing_context', len(addressing))
    sites = {}
    for e in I.events:
        if (key, e.name) in FIXED:
            fields, idxs = FIXED[(key, e.name)]
            tot = t0ai.C(0)
            for ix in idxs:
                tot = tot + e.args[ix]
            tlo, thi = e.st.rng(tot)
            for fn_ in fields:
                fo, fs, _m = L.field(P.ctxname, fn_)
                ok = thi <= fs
                sk = (e.word, e.pc, fn_)
                rec = dict(ok=ok, native=e.name, arg=0, field=fn_, over=None if ok else ('unbounded' if thi >= 1 << 30 else int(thi - fs)),
                           addr=str(fo), arng=(fo, fo), len=str(tot), lrng=(tlo, thi), end=fo + thi, fend=fo + fs, rw='w')
                cur = sites.get(sk)
                if cur is None or (cur['ok'] and not ok):
                    sites[sk] = rec
            continue
        if e.name not in ACC:
            continue
        kind, ai, ln = ACC[e.name]
        for k, idx in enumerate(ai):
            a = e.args[idx]
            le = t0ai.C(ln) if isinstance(ln, int) else e.args[int(ln[1:])]
            lo, hi = e.st.rng(a)
            elo, ehi = e.st.rng(a + le)
            llo, lhi = e.st.rng(le)
            if (lo, hi) == (0, 0) and e.name in SKIP_ZERO_ADDR:
                continue
            f = L.field_at(P.ctxname, int(lo)) if 0 <= lo < 1 << 30 else None
            ok = (f is not None and ehi <= f[0] + f[1]) or lhi <= 0
            fname = f[2] if f else '?'
            over = None
            if not ok:
                over = 'unbounded' if (f is None or ehi >= 1 << 30) else int(ehi - (f[0] + f[1]))
            sk = (e.word, e.pc, k)
            cur = sites.get(sk)
            rec = dict(ok=ok, native=e.name, arg=k, field=fname, over=over, addr=str(a), arng=(lo, hi), len=str(le), lrng=(llo, lhi), end=ehi,
                       fend=(f[0] + f[1]) if f else None, rw=kind[k] if len(kind) > k else kind[0])
            if cur is None or (cur['ok'] and not ok) or (not cur['ok'] and not ok and _worse(rec, cur)):
                sites[sk] = rec
    nok = 0
    for (w, pc, k), r in sorted(sites.items()):
        inst = '%s W%d@%d %s(%s) stays inside field %s' % (key, w, pc, r['native'], 'dst' if r['rw'] == 'w' else 'src', r['field'])
        if r['ok']:
            nok += 1
            chk.ok(rule, inst, P.src, 'addr %s in %s, len %s in %s, end <= %s <= field end %s' % (r['addr'], r['arng'], r['len'], r['lrng'], r['end'], r['fend']))
            continue
        akey = '%s %s %s %s' % (key, r['native'], r['field'], r['over'])
        if akey in assumed:
            chk.ok('t0-context-access-assumed', inst + ' [assumed: %s]' % assumed[akey], P.src,
                   'not proved by the abstract interpreter (addr %s %s, end <= %s, field end %s)' % (r['addr'], r['arng'], r['end'], r['fend']), nontrivial=False)
            chk.count('assumed_sites', 1)
            continue
        chk.violation(rule, inst, P.src,
                      'a %s of up to %s bytes at context offset %s..%s may reach offset %s, the field %s ends at %s (address %s, length %s)'
                      % ('write' if r['rw'] == 'w' else 'read', r['lrng'][1], r['arng'][0], r['arng'][1], r['end'], r['field'], r['fend'], r['addr'], r['len']),
                      key='%s %s' % (rule, akey))
    chk.count('context_access_sites', len(sites))
    chk.count('context_access_proved', nok)
    return I


def _worse(a, b):
    va = float('inf') if a['over'] == 'unbounded' else a['over']
    vb = float('inf') if b['over'] == 'unbounded' else b['over']
    return va > vb
