"""Bit-provenance abstract domain: an integer SSA value is a vector of bits, each 0, 1, ('m', k) = bit k of the little-endian byte
string at a given base pointer, or None (unknown).  Enough to decide how a block of message bytes is split into limbs."""


def _w(ty):
    return int(ty[1:]) if ty.startswith('i') and ty[1:].isdigit() else None


class BitProv:
    def __init__(self, F, is_msg_base, le_loaders={'br_dec16le': 16, 'br_dec32le': 32, 'br_dec64le': 64}):
        self.F, self.is_msg_base, self.le = F, is_msg_base, le_loaders
        self.memo = {}

    def const(self, v, w):
        v &= (1 << w) - 1
        return [(v >> j) & 1 for j in range(w)]

    def msg(self, addr, nbits):
        b, off = self.F.addr_of(addr)
        if off is None or not self.is_msg_base(b):
            return [None] * nbits
        return [('m', 8 * off + j) for j in range(nbits)]

    def ev(self, o, w=None, depth=0):
        F = self.F
        if o['k'] == 'c':
            return self.const(o['v'] or 0, o.get('w') or w or 64)
        if o['k'] != 'i':
            return [None] * (w or 64)
        if o['v'] in self.memo:
            return self.memo[o['v']]
        i = F.insts[o['v']]
        ww = _w(i.get('ty', '')) or w or 64
        r = [None] * ww
        if depth < 60:
            op = i['op']
            if op == 'load':
                r = self.msg(i['ops'][0], ww)
            elif op == 'call' and i.get('callee') in self.le:
                nb = self.le[i['callee']]
                r = (self.msg(i['ops'][0], nb) + [0] * ww)[:ww]
            elif op in ('zext',):
                a = self.ev(i['ops'][0], None, depth + 1)
                r = (a + [0] * ww)[:ww]
            elif op == 'trunc':
                r = self.ev(i['ops'][0], None, depth + 1)[:ww]
                r = (r + [None] * ww)[:ww]
            elif op in ('shl', 'lshr') and i['ops'][1]['k'] == 'c':
                a = self.ev(i['ops'][0], ww, depth + 1)
                s = i['ops'][1]['v']
                r = ([0] * s + a)[:ww] if op == 'shl' else (a[s:] + [0] * s)[:ww]
            elif op in ('and', 'or', 'xor', 'add'):
                a, b = self.ev(i['ops'][0], ww, depth + 1), self.ev(i['ops'][1], ww, depth + 1)
                a, b = (a + [None] * ww)[:ww], (b + [None] * ww)[:ww]
                r = []
                carry_free = True
                for x, y in zip(a, b):
                    if op == 'and':
                        r.append(0 if (x == 0 or y == 0) else y if x == 1 else x if y == 1 else (x if x == y and x is not None else None))
                    elif op in ('or', 'xor'):
                        r.append(y if x == 0 else x if y == 0 else (1 if op == 'or' and (x == 1 or y == 1) else None))
                    else:       # add: bitwise-disjoint operands behave like or
                        if x == 0:
                            r.append(y)
                        elif y == 0:
                            r.append(x)
                        else:
                            carry_free = False
                            r.append(None)
                if op == 'add' and not carry_free:
                    k = next(j for j, (x, y) in enumerate(zip(a, b)) if x != 0 and y != 0)
                    r = r[:k] + [None] * (ww - k)
        self.memo[o['v']] = r
        return r
