"""Reset-is-history-free analysis for the AEAD contexts (GCM, EAX, CCM).

A context is reused for many messages: reset() must leave it in a state that does not depend on what the previous message left
behind.  Structural necessary condition decided here: on every path through a reset entry point (callees that receive the context are
analysed in the caller's state), a field that any *message-processing* function may write (mutable state) is not read -- loaded, used
as a copy source, or handed by pointer to a callee -- before the reset itself has written into it.  Fields only written by the init
function (key-dependent constants, vtable and function pointers) may be read freely.

State per program point: fields the reset has written into so far (must, intersection at joins), plus the constant stored into a
scalar field when known, which prunes `if (ctx->ptr == 16)` style branches right after `ctx->ptr = 0`; and what a branch
established about a parameter (zero / non-zero), handed on to callees that receive the parameter unchanged, which prunes the
`if (len == 0) return;` of a helper called on the caller's `len != 0` side.  A partial write marks the
field as written (the analysis does not add up byte ranges: a field assembled piecewise counts as initialised by its first piece;
this is the stated imprecision, it can only hide a finding, never raise one)."""
from . import irf, build
from .build import AnalysisBroken

MEMW = ('llvm.memset', 'memset')
ENCW = ('br_enc16be', 'br_enc16le', 'br_enc32be', 'br_enc32le', 'br_enc64be', 'br_enc64le')
MEMC = ('llvm.memcpy', 'llvm.memmove', 'memcpy', 'memmove', 'memcpy_P')


class ResetFlow:
    def __init__(self, src, struct, init_funcs):
        self.u = build.load_unit(src)
        self.L = irf.Layouts(self.u)
        self.struct = struct
        self.funcs = {f['name']: irf.Func(self.u, f) for f in self.u['functions'] if f.get('blocks')}
        try:
            self.fields = {m['name']: (m['off'], m['size']) for m in self.L.struct(struct)['members']}
        except Exception:
            raise AnalysisBroken('layout of %s not found' % struct)
        self.init_funcs = init_funcs
        self.mutable = self._mutable()

    # -- address -> field
    def field_of(self, F, o, ctxp):
        """field of *ctx that pointer operand o points into (variable indices inside the field ignored), or None"""
        off = 0
        seen = 0
        gep = False
        while o['k'] == 'i' and seen < 32:
            seen += 1
            i = F.insts[o['v']]
            if i['op'] == 'bitcast':
                o = i['ops'][0]
            elif i['op'] == 'getelementptr':
                if i.get('off') is None:
                    return None
                off += i['off']
                gep = True
                o = i['ops'][0]
            else:
                return None
        if o != ctxp or not gep:
            return None
        for name, (fo, fs) in self.fields.items():
            if fo <= off < fo + fs:
                return name
        return None

    def _is_address(self, F, o):
        while o['k'] == 'i':
            i = F.insts[o['v']]
            if i['op'] in ('bitcast', 'getelementptr'):
                if i['op'] == 'getelementptr':
                    return True
                o = i['ops'][0]
            else:
                return i['op'] == 'alloca'
        return False

    def ctx_params(self, F):
        return [{'k': 'a', 'v': k} for k, p in enumerate(F.f.get('params', [])) if self.struct in (p.get('ty') or '')]

    def _mutable(self):
        mut = set()
        for fn, F in self.funcs.items():
            if fn in self.init_funcs:
                continue
            for cp in self.ctx_params(F):
                for i in F.insts.values():
                    if i['op'] == 'store':
                        f = self.field_of(F, i['ops'][1], cp)
                        if f:
                            mut.add(f)
                    elif i['op'] == 'call':
                        cal = i.get('callee') or ''
                        if cal.startswith('llvm.dbg') or cal.startswith('llvm.lifetime'):
                            continue
                        args = i['ops']
                        if cal.startswith(MEMC + MEMW) or cal in ENCW:
                            f = self.field_of(F, args[0], cp)
                            if f:
                                mut.add(f)
                            continue
                        # destination-first convention of the library's block / hash callbacks (gh(y, h, data, len); mac(ctx, cbcmac, data, len);
                        # ctr(ctx, ctr, data, len)): the first pointer into the context is the one written.  Later ones are inputs.
                        # The destination is the first argument that is an address computed here (a local, a field); loaded pointers (the
                        # callee's own context) and parameters are skipped.
                        for a in args:
                            if not self._is_address(F, a):
                                continue
                            f = self.field_of(F, a, cp)
                            if f:
                                mut.add(f)
                            break
        return mut

    # -- the flow
    def run(self, entry):
        F = self.funcs.get(entry)
        if F is None:
            raise AnalysisBroken('%s vanished' % entry)
        cps = self.ctx_params(F)
        if not cps:
            raise AnalysisBroken('%s: no context parameter' % entry)
        self.exposed = []       # (field, function, inst, path)
        self.reads = 0
        self._run(F, cps[0], {}, (entry,))
        return self.exposed

    def _join(self, a, b):
        if a is None:
            return dict(b)
        return {k: (v if b[k] == v else None) for k, v in a.items() if k in b}

    def _run(self, F, cp, st_in, path):
        if len(path) > 6:
            return st_in
        bmap = {b['id']: b for b in F.blocks}
        instate = {F.entry: dict(st_in)}
        outret = None
        work = [F.entry]
        done_edges = {}
        iters = 0
        while work and iters < 4000:
            iters += 1
            b = work.pop(0)
            st = dict(instate[b])
            blk = bmap[b]
            for i in blk['insts']:
                self._transfer(F, cp, i, st, path)
            t = blk['insts'][-1]
            if t['op'] == 'ret':
                outret = self._join(outret, st)
                continue
            succ = list(F.succ[b])
            if t['op'] == 'br' and len(t['ops']) == 3 and t['ops'][0]['k'] == 'i':
                c = F.insts[t['ops'][0]['v']]
                if c['op'] == 'icmp' and c['ops'][1]['k'] == 'c' and c['pred'] in ('eq', 'ne'):
                    lv = F.strip_casts(c['ops'][0])
                    if lv['k'] == 'i' and F.insts[lv['v']]['op'] == 'load' and F.block_of[lv['v']] == b:
                        f = self.field_of(F, F.insts[lv['v']]['ops'][0], cp)
                        # the value loaded is the one the reset stored, provided no later write in this block (checked: last write wins in st)
                        if f and st.get(f) is not None and not self._written_after(F, blk, lv['v'], f, cp):
                            truth = (st[f] == c['ops'][1]['v']) == (c['pred'] == 'eq')
                            succ = [t['ops'][2]['v']] if truth else [t['ops'][1]['v']]
            edge_fact = {}
            if t['op'] == 'br' and len(t['ops']) == 3 and t['ops'][0]['k'] == 'i':
                c = F.insts[t['ops'][0]['v']]
                if c['op'] == 'icmp' and c['pred'] in ('eq', 'ne') and c['ops'][1]['k'] == 'c' and c['ops'][1]['v'] == 0 and c['ops'][0]['k'] == 'a':
                    key = ('arg', c['ops'][0]['v'])
                    tz, fz = ('z', 'nz') if c['pred'] == 'eq' else ('nz', 'z')        # fact on the true / false edge
                    known = st.get(key)
                    if known is not None:
                        succ = [t['ops'][2]['v']] if known == tz else [t['ops'][1]['v']]
                    else:
                        edge_fact = {t['ops'][2]['v']: (key, tz), t['ops'][1]['v']: (key, fz)}
                        if t['ops'][2]['v'] == t['ops'][1]['v']:
                            edge_fact = {}
            for s_ in succ:
                st_e = st
                if s_ in edge_fact:
                    st_e = dict(st)
                    st_e[edge_fact[s_][0]] = edge_fact[s_][1]
                new = self._join(instate.get(s_), st_e) if s_ in instate else dict(st_e)
                if s_ not in instate or new != instate[s_]:
                    instate[s_] = new
                    if s_ not in work:
                        work.append(s_)
        return outret if outret is not None else dict(st_in)

    def _written_after(self, F, blk, lid, f, cp):
        after = False
        for i in blk['insts']:
            if i['id'] == lid:
                after = True
            elif after and i['op'] == 'store' and self.field_of(F, i['ops'][1], cp) == f:
                return True
        return False

    def _read(self, F, f, i, st, path):
        self.reads += 1
        if f in self.mutable and f not in st:
            if not any(e[0] == f and e[2]['id'] == i['id'] and e[1] is F for e in self.exposed):
                self.exposed.append((f, F, i, path))

    def _transfer(self, F, cp, i, st, path):
        op = i['op']
        if op == 'load':
            f = self.field_of(F, i['ops'][0], cp)
            if f:
                self._read(F, f, i, st, path)
        elif op == 'store':
            f = self.field_of(F, i['ops'][1], cp)
            if f:
                v = i['ops'][0]
                full = i.get('size') == self.fields[f][1]
                st[f] = v['v'] if (v['k'] == 'c' and full) else None
        elif op == 'call':
            cal = i.get('callee') or ''
            if cal.startswith(('llvm.dbg', 'llvm.lifetime', 'br_verif')):
                return
            args = i['ops']
            if cal.startswith(MEMW):
                f = self.field_of(F, args[0], cp)
                if f:
                    st[f] = None
                return
            if cal.startswith(MEMC):
                fs = self.field_of(F, args[1], cp)
                if fs:
                    self._read(F, fs, i, st, path)
                fd = self.field_of(F, args[0], cp)
                if fd:
                    st[fd] = None
                return
            if cal in ENCW:
                fd = self.field_of(F, args[0], cp)
                if fd:
                    st[fd] = None
                return
            G = self.funcs.get(cal)
            passed = [k for k, a in enumerate(args) if a == cp]
            if G is not None and passed:
                mine = {k: v for k, v in st.items() if isinstance(k, tuple)}
                sin = {k: v for k, v in st.items() if not isinstance(k, tuple)}
                for j, a in enumerate(args):         # what is known about the caller's parameters holds for the callee's when passed unchanged
                    if a['k'] == 'a' and ('arg', a['v']) in mine:
                        sin[('arg', j)] = mine[('arg', a['v'])]
                    elif a['k'] == 'c' and a['v'] is not None:
                        sin[('arg', j)] = 'z' if a['v'] == 0 else 'nz'
                out = self._run(G, {'k': 'a', 'v': passed[0]}, sin, path + (cal,))
                st.clear()
                st.update({k: v for k, v in out.items() if not isinstance(k, tuple)})
                st.update(mine)
                return
            # any other callee: a pointer into a field is a read of that field (and possibly a write)
            touched = []
            for a in args:
                f = self.field_of(F, a, cp)
                if f:
                    self._read(F, f, i, st, path)
                    touched.append(f)
            for f in touched:
                st[f] = None
