"""Trace-partitioned interval analysis of straight-line carry-propagation code over an array of limbs kept in memory.

State = list of partitions; a partition maps limb offsets (bytes from the array base) to an interval [lo, hi].  `x >> s` on a value just
loaded from a limb whose interval spans several carry values splits the partition, one per carry value, refining the limb; `x & (2^s - 1)`
of a limb that lies in a single window keeps the offset inside the window.  This keeps the correlation "a carry came out of limb 2 only
if one came out of limb 1, which happened only if limb 0 was just above 2^44" that a plain interval analysis loses."""

FULL = (0, (1 << 64) - 1)
MAXSPLIT = 64


def run(F, insts, base, init):
    """insts: instruction list (program order); base: operand ({k, v}) of the limb array; init: {off: (lo, hi)}.
    returns list of final partitions {off: (lo, hi)}"""
    parts = [(dict(init), {})]          # (memory, ssa env: id -> (interval, source limb offset or None))

    def val(env, mem, o):
        if o['k'] == 'c':
            v = o['v'] & ((1 << 64) - 1)
            return (v, v), None
        if o['k'] == 'i' and o['v'] in env:
            return env[o['v']]
        return FULL, None
    for i in insts:
        op = i['op']
        new = []
        for mem, env in parts:
            if op == 'load':
                b, off = F.addr_of(i['ops'][0])
                if b == base and off in mem:
                    env = dict(env)
                    env[i['id']] = (mem[off], off)
                new.append((mem, env))
            elif op == 'store':
                b, off = F.addr_of(i['ops'][1])
                if b == base and off is not None:
                    mem = dict(mem)
                    mem[off] = val(env, mem, i['ops'][0])[0]
                new.append((mem, env))
            elif op == 'lshr' and i['ops'][1]['k'] == 'c' and i['ops'][1]['v'] is not None:
                (lo, hi), src = val(env, mem, i['ops'][0])
                s = i['ops'][1]['v']
                clo, chi = lo >> s, hi >> s
                if src is not None and chi - clo + 1 <= MAXSPLIT and chi > clo:
                    for c in range(clo, chi + 1):
                        m2, e2 = dict(mem), dict(env)
                        r = (max(lo, c << s), min(hi, ((c + 1) << s) - 1))
                        m2[src] = r
                        if i['ops'][0]['k'] == 'i':
                            e2[i['ops'][0]['v']] = (r, src)
                        e2[i['id']] = ((c, c), None)
                        new.append((m2, e2))
                else:
                    env = dict(env)
                    env[i['id']] = ((clo, chi), None)
                    new.append((mem, env))
            elif op == 'and' and any(o['k'] == 'c' for o in i['ops']):
                c = next(o for o in i['ops'] if o['k'] == 'c')['v'] & ((1 << 64) - 1)
                x = next(o for o in i['ops'] if o['k'] != 'c')
                (lo, hi), src = val(env, mem, x)
                env = dict(env)
                if c & (c + 1) == 0:        # 2^s - 1
                    s = c.bit_length()
                    if lo >> s == hi >> s:
                        w = (lo >> s) << s
                        env[i['id']] = ((lo - w, hi - w), None)
                    else:
                        env[i['id']] = ((0, c), None)
                else:
                    env[i['id']] = ((0, min(hi, c)), None)
                new.append((mem, env))
            elif op in ('add', 'mul'):
                (al, ah), _ = val(env, mem, i['ops'][0])
                (bl, bh), _ = val(env, mem, i['ops'][1])
                r = (al + bl, ah + bh) if op == 'add' else (al * bl, ah * bh)
                if r[1] >= 1 << 64:
                    r = FULL
                env = dict(env)
                env[i['id']] = (r, None)
                new.append((mem, env))
            elif op in ('zext', 'trunc', 'bitcast') and i['ops'][0]['k'] == 'i' and i['ops'][0]['v'] in env and op != 'trunc':
                env = dict(env)
                env[i['id']] = env[i['ops'][0]['v']]
                new.append((mem, env))
            else:
                new.append((mem, env))
        parts = new
        if len(parts) > 4096:
            raise RuntimeError('too many partitions')
    return [m for m, e in parts]


def run_env(F, insts):
    """plain (non-partitioned) interval evaluation of SSA values; unknown leaves are full 64-bit"""
    env = {}

    def val(o):
        if o['k'] == 'c':
            v = (o['v'] or 0) & ((1 << 64) - 1)
            return (v, v)
        if o['k'] == 'i' and o['v'] in env:
            return env[o['v']]
        return FULL
    for _ in range(2):
        for i in insts:
            op = i['op']
            if op == 'lshr' and i['ops'][1]['k'] == 'c' and i['ops'][1]['v'] is not None:
                lo, hi = val(i['ops'][0])
                env[i['id']] = (lo >> i['ops'][1]['v'], hi >> i['ops'][1]['v'])
            elif op == 'and' and any(o['k'] == 'c' for o in i['ops']):
                c = next(o for o in i['ops'] if o['k'] == 'c')['v'] & ((1 << 64) - 1)
                x = next(o for o in i['ops'] if o['k'] != 'c')
                env[i['id']] = (0, min(val(x)[1], c))
            elif op in ('add', 'mul'):
                a, b = val(i['ops'][0]), val(i['ops'][1])
                r = (a[0] + b[0], a[1] + b[1]) if op == 'add' else (a[0] * b[0], a[1] * b[1])
                env[i['id']] = r if r[1] < 1 << 64 else FULL
            elif op == 'zext' and i['ops'][0]['k'] == 'i':
                env[i['id']] = val(i['ops'][0])
    return env
