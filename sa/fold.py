"""FOLD engine (DESIGN 3.2): rejection obligations decided by LLVM's optimiser under an added hypothesis.

An obligation = (unit, function, hypothesis list, expectation).  The function's mem2reg IR is rewritten
(call results pinned to a constant / masked, llvm.assume on parameters or loaded fields), `opt -passes=default<O2>`
is run on the unit's module, and the expectation is evaluated on the optimised function.  Nothing is executed.
"""
import os, re, json, subprocess, hashlib
from . import build, irf
from .build import AnalysisBroken

NAMEEND = r'(?![\w.$\-])'
import itertools as _it
_counter = _it.count()


def _func_span(text, fname):
    m = re.search(r'^define [^\n]*@%s\(' % re.escape(fname), text, re.M)
    if not m:
        # quoted names
        m = re.search(r'^define [^\n]*@"%s"\(' % re.escape(fname), text, re.M)
    if not m:
        return None
    e = text.index('\n}\n', m.start()) + 3
    return m.start(), e


class FoldUnit:
    def __init__(self, src, config='host', unit=None):
        self.src = src
        self.config = config
        self.unit = unit if unit is not None else build.load_unit(src, 'm2r', config, hooks=False)
        self.text = open(self.unit['_ll']).read()
        # clang -O0 marks every function noinline; the hypothesis must propagate through static helpers
        self.text = re.sub(r'^(attributes #\d+ = \{[^\n]*?) noinline', r'\1', self.text, flags=re.M)
        self.text = re.sub(r'^(attributes #\d+ = \{) ?noinline ', r'\1 ', self.text, flags=re.M)
        self.funcs = {f['name']: irf.Func(self.unit, f) for f in self.unit['functions'] if not f['decl']}
        self.cache = {}

    def func(self, name):
        f = self.funcs.get(name)
        if f is None:
            raise AnalysisBroken('function %s not found in %s' % (name, self.src))
        return f

    # ---- site selection (from JSON facts)
    def call_sites(self, fname, callee=None, ftype=None, field=None, pred=None):
        """calls in fname; callee: direct name; ftype: regex on the function type of an indirect call;
        field: (offset) the function pointer was loaded from a constant GEP offset (vtable slot / context field)"""
        F = self.func(fname)
        res = []
        for i in F.calls():
            if callee is not None:
                if i.get('callee') != callee:
                    continue
            else:
                if i.get('callee') is not None:
                    continue
                if ftype is not None and not re.search(ftype, i['fty']):
                    continue
                if field is not None:
                    cv = F.strip_casts(i['cv'])
                    if cv['k'] != 'i' or F.insts[cv['v']]['op'] != 'load':
                        continue
                    base, off = F.addr_of(F.insts[cv['v']]['ops'][0])
                    if off != field:
                        continue
            if pred is not None and not pred(F, i):
                continue
            res.append(i)
        return res

    def field_loads(self, fname, param, off, size=None):
        F = self.func(fname)
        res = []
        for i in F.insts.values():
            if i['op'] != 'load':
                continue
            base, o = F.addr_of(i['ops'][0])
            if base['k'] == 'a' and base['v'] == param and o == off and (size is None or i['size'] == size):
                res.append(i)
        return res

    # ---- rewriting
    def rewrite(self, fname, hyps, noinline=()):
        span = _func_span(self.text, fname)
        if span is None:
            raise AnalysisBroken('no definition of %s in IR text of %s' % (fname, self.src))
        body = self.text[span[0]:span[1]]
        lines = body.split('\n')
        lines[0] = re.sub(r'^define internal ', 'define ', lines[0])
        hcount = [0]

        def defline(n):
            pat = re.compile(r'^\s+%s = ' % re.escape(n))
            for k, l in enumerate(lines):
                if pat.match(l):
                    return k
            raise AnalysisBroken('definition of %s not found in %s' % (n, fname))

        def replace_uses(n, repl, skip):
            pat = re.compile(re.escape(n) + NAMEEND)
            for k, l in enumerate(lines):
                if k in skip:
                    continue
                if n in l:
                    lines[k] = pat.sub(lambda m: repl, l)

        for h in hyps:
            kind = h['kind']
            if kind == 'pin':            # value produced by instruction named n (or the parameter n) is the constant c
                if h.get('param'):
                    replace_uses(h['n'], str(h['value']), {0})
                else:
                    k = defline(h['n'])
                    replace_uses(h['n'], str(h['value']), {k})
            elif kind == 'site':         # no hypothesis: only carries the site marker
                pass
            elif kind == 'before_call':  # assume(len [+ sum var*scale] > room) immediately before the nth call to callee, then the site marker
                if h['callee'] == '<store>':
                    pat = re.compile(r'^\s+store ')
                else:
                    pat = re.compile(r'^\s+(?:%%[\w.]+ = )?(?:tail |musttail |notail )?call [^@\n]*@%s\(' % re.escape(h['callee']))
                ks = [j for j, l in enumerate(lines) if pat.match(l)]
                if h['nth'] >= len(ks):
                    raise AnalysisBroken('call #%d to %s not found in the IR text of %s' % (h['nth'], h['callee'], fname))
                k = ks[h['nth']]
                hcount[0] += 1
                hn = '%%verif.b%d' % hcount[0]
                ins = []
                cur = h['len']
                if cur is None:
                    cur = str(h.get('lenconst', 0))
                elif h['lty'] != 'i64':
                    ins.append('  %s.z = zext %s %s to i64' % (hn, h['lty'], cur))
                    cur = hn + '.z'
                for q, (vn, vty, sc) in enumerate(h.get('var', [])):
                    v = vn
                    if vty != 'i64':
                        ins.append('  %s.v%d = sext %s %s to i64' % (hn, q, vty, vn))
                        v = '%s.v%d' % (hn, q)
                    ins.append('  %s.m%d = mul i64 %s, %d' % (hn, q, v, sc))
                    ins.append('  %s.s%d = add i64 %s, %s.m%d' % (hn, q, cur, hn, q))
                    cur = '%s.s%d' % (hn, q)
                ins += ['  %s = icmp ugt i64 %s, %s' % (hn, cur, h['roomv'] if h.get('roomv') else '%d' % h['room']),
                        '  call void @llvm.assume(i1 %s)' % hn,
                        '  call void @verif.site()']
                lines[k:k] = ins
            elif kind == 'pinexpr':      # uses of n see OP(a, b) over other SSA values / constants (a relational hypothesis on state)
                k = defline(h['n'])
                hcount[0] += 1
                nn = '%%verif.e%d' % hcount[0]
                replace_uses(h['n'], nn, {k})
                k2 = k + 1
                while ' = phi ' in lines[k2]:
                    k2 += 1
                lines.insert(k2, '  %s = %s %s %s, %s' % (nn, h['op'], h['ty'], h['a'], h['b']))
            elif kind == 'mask':         # uses see (n & mask)
                k = defline(h['n'])
                hcount[0] += 1
                nn = '%%verif.m%d' % hcount[0]
                replace_uses(h['n'], nn, {k})
                lines.insert(k + 1, '  %s = and %s %s, %d' % (nn, h['ty'], h['n'], h['mask']))
            elif kind == 'assume':       # llvm.assume(icmp pred ty n, value) right after n's definition
                hcount[0] += 1
                hn = '%%verif.h%d' % hcount[0]
                src_n = h['n']
                ins = []
                if h.get('mask') is not None:
                    ins.append('  %s.m = and %s %s, %d' % (hn, h['ty'], h['n'], h['mask']))
                    src_n = hn + '.m'
                ins += ['  %s = icmp %s %s %s, %s' % (hn, h['pred'], h['ty'], src_n, h['value']),
                        '  call void @llvm.assume(i1 %s)' % hn]
                if h.get('at_label') is not None:
                    lab = re.compile(r'^%s:' % re.escape(str(h['at_label'])))
                    k = next((j for j, l in enumerate(lines) if lab.match(l)), None)
                    if k is None:
                        raise AnalysisBroken('block label %s not found in %s' % (h['at_label'], fname))
                    k += 1
                    while ' = phi ' in lines[k]:
                        k += 1
                elif h.get('after') is not None:
                    k = defline(h['after']) + 1
                    while ' = phi ' in lines[k]:
                        k += 1
                elif h.get('param'):
                    k = 1
                    if re.match(r'^[\w.$\-"]+:', lines[1]):
                        k = 2
                else:
                    k = defline(h['n']) + 1
                    while lines[k].lstrip().startswith('%') and ' = phi ' in lines[k]:
                        k += 1
                lines[k:k] = ins
            else:
                raise ValueError(kind)
        # site marker: expectations are evaluated on the paths through the (first) hypothesis site
        for h in hyps[:1]:
            if h.get('kind') == 'before_call':
                continue
            if h.get('param') and h.get('at_label') is None and h.get('after') is None:
                continue
            if h.get('after') is not None:
                k = defline(h['after']) + 1
                while ' = phi ' in lines[k]:
                    k += 1
                lines.insert(k, '  call void @verif.site()')
                continue
            if h.get('at_label') is not None:
                lab = re.compile(r'^%s:' % re.escape(str(h['at_label'])))
                k = next(j for j, l in enumerate(lines) if lab.match(l)) + 1
            else:
                k = defline(h['n']) + 1
            while ' = phi ' in lines[k]:
                k += 1
            lines.insert(k, '  call void @verif.site()')
        text = self.text[:span[0]] + '\n'.join(lines) + self.text[span[1]:]
        text += '\ndeclare void @verif.site() inaccessiblememonly nounwind willreturn\n'
        if 'declare void @llvm.assume' not in text:
            text += '\ndeclare void @llvm.assume(i1 noundef)\n'
        for y in noinline:
            # external linkage: interprocedural passes must not specialise or re-shape the callee whose call sites are inspected
            text = re.sub(r'^define internal ([^\n]*@%s\()' % re.escape(y), r'define \1', text, flags=re.M)
            text = re.sub(r'^(define [^\n]*@%s\([^\n]*?)( #\d+)?( (?:!dbg|personality)[^\n]*)? \{$' % re.escape(y),
                          lambda m: m.group(1) + ' noinline' + (m.group(2) or '') + (m.group(3) or '') + ' {', text, flags=re.M)
        return text

    def optimise(self, fname, hyps, noinline=(), passes='default<O2>'):
        text = self.rewrite(fname, hyps, noinline)
        key = hashlib.sha1((fname + passes + text).encode()).hexdigest()[:16]
        if key in self.cache:
            return self.cache[key]
        wd = build.workdir()
        import threading, itertools
        uniq = '%s-%d-%d' % (key, threading.get_ident(), next(_counter))
        a = os.path.join(wd, 'fold-%s.ll' % uniq)
        b = os.path.join(wd, 'fold-%s.o.ll' % uniq)
        with open(a, 'w') as f:
            f.write(text)
        p = subprocess.run(['opt-14', '-S', '-passes=' + passes, a, '-o', b], capture_output=True, text=True)
        if p.returncode != 0:
            raise AnalysisBroken('opt failed for %s (%s): %s' % (fname, hyps, p.stderr[-600:]))
        p = subprocess.run([build.IRDUMP, b], capture_output=True, text=True)
        if p.returncode != 0:
            raise AnalysisBroken('irdump failed after opt: ' + p.stderr[-300:])
        d = json.loads(p.stdout)
        os.unlink(a)
        os.unlink(b)
        f = next((x for x in d['functions'] if x['name'] == fname and not x['decl']), None)
        if f is None:
            raise AnalysisBroken('%s vanished after optimisation' % fname)
        F = irf.Func(d, f)
        self.cache[key] = F
        return F


# ---------------- expectations (evaluated on the optimised function)

def _reach_insts(F):
    r = F.reachable()
    for b in F.blocks:
        if b['id'] in r:
            for i in b['insts']:
                yield i


def _site_insts(F):
    for i in _reach_insts(F):
        if _inst_after_site(F, i):
            yield i


def after_site(F):
    """blocks reachable from the hypothesis-site marker (None: no marker -> whole function)"""
    if getattr(F, '_after', 0) != 0:
        return F._after
    ms = [i for i in _reach_insts(F) if i['op'] == 'call' and i.get('callee') == 'verif.site']
    if not ms:
        F._after = None
        return None
    seen = set()
    st = []
    F._site_blocks = set(F.block_of[m['id']] for m in ms)
    for m in ms:
        st.extend(F.succ[F.block_of[m['id']]])
    while st:
        b = st.pop()
        if b in seen:
            continue
        seen.add(b)
        st.extend(F.succ[b])
    F._after = seen | F._site_blocks
    F._site_order = {F.block_of[m['id']]: F.order[m['id']] for m in ms}
    return F._after


def _inst_after_site(F, i):
    a = after_site(F)
    if a is None:
        return True
    b = F.block_of[i['id']]
    if b not in a:
        return False
    if b in F._site_blocks and b not in _strict_after(F):
        return F.order[i['id']] > F._site_order[b]
    return True


def _strict_after(F):
    if not hasattr(F, '_strict'):
        seen = set()
        st = []
        for b in F._site_blocks:
            st.extend(F.succ[b])
        while st:
            b = st.pop()
            if b in seen:
                continue
            seen.add(b)
            st.extend(F.succ[b])
        F._strict = seen
    return F._strict


def ret_values(F):
    vals = []
    a = after_site(F)
    for b in F.blocks:
        if b['id'] not in F.reachable():
            continue
        if a is not None and b['id'] not in a:
            continue
        t = b['insts'][-1]
        if t['op'] == 'ret':
            vals.append(t['ops'][0] if t['ops'] else None)
    return vals


def _const_set(F, o, depth=0):
    """set of constants an operand can take if it is a const / phi / select of consts; None otherwise"""
    if o is None:
        return None
    if o['k'] == 'c':
        return {o['v']}
    if o['k'] == 'null':
        return {0}
    if o['k'] == 'i' and depth < 6:
        i = F.insts[o['v']]
        if i['op'] == 'phi':
            s = set()
            a = after_site(F)
            if a is not None and F.block_of[i['id']] not in _strict_after(F):
                return None      # defined before the hypothesis site: opaque
            for x, inb in zip(i['ops'], i['inb']):
                if x['k'] == 'i' and x['v'] == i['id']:
                    continue
                if a is not None and inb not in a:
                    continue
                c = _const_set(F, x, depth + 1)
                if c is None:
                    return None
                s |= c
            return s
        if i['op'] == 'select':
            a = _const_set(F, i['ops'][1], depth + 1)
            b = _const_set(F, i['ops'][2], depth + 1)
            if a is None or b is None:
                return None
            return a | b
    return None


def expect_ret_const(F, c):
    """every reachable ret returns the constant c (c may be a set of allowed constants)"""
    allowed = c if isinstance(c, (set, frozenset)) else {c}
    vals = ret_values(F)
    if not vals:
        a = after_site(F)
        if a is not None:
            # a live site from which nothing returns: a trap (noreturn callee) is fine, a closed cycle is non-termination
            blocks = [b for b in F.blocks if b['id'] in a and b['id'] in F.reachable()]
            if blocks and not any(b['insts'][-1]['op'] == 'unreachable' for b in blocks):
                return False, 'no return is reachable from the site: under the hypothesis the function loops forever'
        return True, 'no reachable ret'
    for v in vals:
        s = _const_set(F, v)
        if s is None or not s <= allowed:
            return False, 'a ret returns %s' % (json.dumps(v) if s is None else sorted(s))
    return True, 'all %d ret(s) return %s' % (len(vals), sorted(allowed))


def expect_ret_nonzero(F):
    vals = ret_values(F)
    for v in vals:
        s = _const_set(F, v)
        if s is None or 0 in s:
            return False, 'a ret may return 0 / non-constant'
    return True, 'all rets return non-zero constants'


def expect_ret_negative(F):
    vals = ret_values(F)
    for v in vals:
        s = _const_set(F, v)
        if s is None or any(x >= 0 for x in s):
            return False, 'a ret may return >= 0 / non-constant'
    return True, 'all rets negative constants'


def expect_no_call(F, callee):
    for i in _site_insts(F):
        if i['op'] == 'call' and i.get('callee') == callee:
            return False, 'call to %s remains at line %s' % (callee, i.get('line'))
    return True, 'no call to %s' % callee


def expect_no_indirect_call(F):
    for i in _site_insts(F):
        if i['op'] == 'call' and i.get('callee') is None and i.get('cv', {}).get('k') != 'asm':
            return False, 'indirect call remains at line %s' % i.get('line')
    return True, 'no indirect call'


def expect_call_dominates_rets(F, callee, argidx=None, argpred=None):
    """a call to callee (with const arg satisfying argpred) dominates every reachable ret;
    with a hypothesis-site marker: lies on every path from the site to a ret"""
    if after_site(F) is not None:
        return _call_on_all_paths_from_site(F, callee, argidx, argpred)
    return _call_dominates_rets(F, callee, argidx, argpred)


def expect_on_all_paths(F, pred, what):
    """an instruction satisfying pred(F, inst) lies on every path from the hypothesis site to a ret"""
    if after_site(F) is None:
        raise AnalysisBroken('expect_on_all_paths needs a site marker')
    return _call_on_all_paths_from_site(F, what, None, None, pred)


def expect_on_all_paths_from_entry(F, pred, what):
    """an instruction satisfying pred(F, inst) lies on every path from the function entry to a ret"""
    good = set(i['id'] for i in _reach_insts(F) if i['op'] != 'dbgvalue' and pred(F, i))
    bid = {b['id']: b for b in F.blocks}
    seen, st = set(), [F.blocks[0]['id']]
    while st:
        b = st.pop()
        if b in seen:
            continue
        seen.add(b)
        cut = False
        for i in bid[b]['insts']:
            if i['id'] in good:
                cut = True
                break
            if i['op'] == 'ret':
                return False, 'a ret (line %s) is reached from the entry without %s' % (i.get('line'), what)
        if not cut:
            st.extend(F.succ[b])
    return True, 'every path from the entry to a ret passes through %s' % what


def _call_on_all_paths_from_site(F, callee, argidx, argpred, ipred=None):
    good = set()
    for i in _reach_insts(F):
        if ipred is not None:
            if i['op'] != 'dbgvalue' and ipred(F, i):
                good.add(i['id'])
            continue
        if i['op'] == 'call' and i.get('callee') == callee:
            if argidx is not None:
                a = i['ops'][argidx]
                if a['k'] != 'c' or (argpred and not argpred(a['v'])):
                    continue
            good.add(i['id'])
    bid = {b['id']: b for b in F.blocks}
    # walk from each site marker; a path is cut when it meets a good call
    ms = [i for i in _reach_insts(F) if i['op'] == 'call' and i.get('callee') == 'verif.site']
    if not ms:
        return True, 'the site is unreachable under the hypothesis'
    seen = set()
    st = []

    def scan(b, start_order):
        """returns 'cut' if a good call occurs in block b after start_order, 'ret' if a ret is reached first, else 'go'"""
        for i in bid[b]['insts']:
            if F.order[i['id']] <= start_order:
                continue
            if i['id'] in good:
                return 'cut', i
            if i['op'] == 'ret':
                return 'ret', i
        return 'go', None
    ended = False        # some path from the site ends: in the wanted call, or in a trap
    for m in ms:
        b = F.block_of[m['id']]
        r, i = scan(b, F.order[m['id']])
        if r == 'ret':
            return False, 'a ret (line %s) is reached from the site without a call to %s' % (i.get('line'), callee)
        if r == 'go':
            st.extend(F.succ[b])
            if bid[b]['insts'][-1]['op'] == 'unreachable':
                ended = True
        else:
            ended = True
    while st:
        b = st.pop()
        if b in seen:
            continue
        seen.add(b)
        r, i = scan(b, -1)
        if r == 'ret':
            return False, 'a ret (line %s) is reached from the site without a call to %s' % (i.get('line'), callee)
        if r == 'go':
            st.extend(F.succ[b])
            if bid[b]['insts'][-1]['op'] == 'unreachable':
                ended = True
        else:
            ended = True
    if not ended:
        return False, 'from the site neither a ret nor a call to %s is reachable: under the hypothesis the function loops forever' % callee
    return True, 'every path from the site to a ret calls %s' % callee


def _call_dominates_rets(F, callee, argidx=None, argpred=None):
    calls = []
    for i in _reach_insts(F):
        if i['op'] == 'call' and i.get('callee') == callee:
            if argidx is not None:
                a = i['ops'][argidx]
                if a['k'] != 'c' or (argpred and not argpred(a['v'])):
                    continue
            calls.append(i)
    reach = F.reachable()
    for b in F.blocks:
        if b['id'] not in reach:
            continue
        t = b['insts'][-1]
        if t['op'] == 'ret':
            if not any(F.dominates(c['id'], t['id']) for c in calls):
                return False, 'a ret (line %s) is not dominated by a call to %s' % (t.get('line'), callee)
    return True, 'every ret dominated by %s' % callee


def expect_no_const_store_to(F, param, off, value):
    """no reachable store of the constant `value` (directly or through a phi/select of constants) into (param + off);
    stores of computed values are not judged here"""
    for i in _site_insts(F):
        if i['op'] != 'store':
            continue
        base, o = F.addr_of(i['ops'][1])
        if base['k'] == 'a' and base['v'] == param and o == off:
            s = _const_set(F, i['ops'][0])
            if s is not None and value in s:
                return False, 'store of %d to arg%d+%d at line %s' % (value, param, off, i.get('line'))
            if s is None:
                v = i['ops'][0]
                if v['k'] == 'i' and F.insts[v['v']]['op'] in ('phi', 'select'):
                    for x in F.insts[v['v']]['ops']:
                        if x['k'] == 'c' and x['v'] == value:
                            return False, 'store of possibly %d to arg%d+%d at line %s' % (value, param, off, i.get('line'))
    return True, 'no store of the constant %d' % value


def expect_no_store_to(F, param, off, value=None, size=None):
    """no reachable store into (param + off) [of constant value]"""
    for i in _site_insts(F):
        if i['op'] != 'store':
            continue
        base, o = F.addr_of(i['ops'][1])
        if base['k'] == 'a' and base['v'] == param and o == off:
            if value is None:
                return False, 'store to arg%d+%d at line %s' % (param, off, i.get('line'))
            v = i['ops'][0]
            if v['k'] == 'c' and v['v'] == value:
                return False, 'store of %d to arg%d+%d at line %s' % (value, param, off, i.get('line'))
            if v['k'] != 'c':
                s = _const_set(F, v)
                if s is None or value in s:
                    return False, 'store of possibly %d to arg%d+%d at line %s' % (value, param, off, i.get('line'))
    return True, 'no such store'


def expect_stores_only(F, param, off, allowed, need=True):
    """every store into (param + off) reachable after the site stores a constant from `allowed` (and one exists)"""
    n = 0
    for i in _site_insts(F):
        if i['op'] != 'store':
            continue
        base, o = F.addr_of(i['ops'][1])
        if base['k'] == 'a' and base['v'] == param and o == off:
            n += 1
            s = _const_set(F, i['ops'][0])
            if s is None or not s <= set(allowed):
                return False, 'store of %s to arg%d+%d at line %s' % (sorted(s) if s else 'a non-constant', param, off, i.get('line'))
    if need and n == 0:
        return False, 'no store to arg%d+%d remains' % (param, off)
    return True, '%d store(s), all of %s' % (n, sorted(allowed))
