#!/usr/bin/env python3
"""Label-propagation engine over the IR facts (DESIGN 3.3): CT (secret taint) and DEP (may-dependence) share it."""
import json, sys, os, collections

class AV:
    __slots__ = ('labels', 'ptrs')
    def __init__(self, labels=frozenset(), ptrs=frozenset()):
        self.labels = labels; self.ptrs = ptrs
    def join(self, o):
        if o is None: return self
        if o.labels <= self.labels and o.ptrs <= self.ptrs: return self
        return AV(self.labels | o.labels, self.ptrs | o.ptrs)
    def __eq__(self, o): return o is not None and self.labels == o.labels and self.ptrs == o.ptrs
    def __repr__(self): return 'AV(%s,%s)' % (sorted(self.labels), sorted(map(str, self.ptrs)))
BOT = AV()

# Loc = (region, off) ; region = tuple ; off = int or None(variable)
# view region: ('V', parent_region, viewkey)
def root(r):
    while r[0] in ('V', 'S'): r = r[1]
    return r
def sroot(r):
    """summary root: innermost enclosing sub-object (S) or the base region"""
    while r[0] == 'V': r = r[1]
    return r

class Mem:
    def __init__(self):
        self.cells = collections.defaultdict(dict)      # region -> off -> AV
        self.ranges = collections.defaultdict(dict)     # region -> lo -> AV  (lo may be -inf as None)
        self.all = {}                                   # root -> AV
        self.public = set()                             # (region, off) declassified cells (flow-insensitive: see DESIGN 11.10 for the blind spot this leaves)
        self.changed = False
        self.epoch = 0; self.root_epoch = {}; self.reading = [set()]; self.trace = False
        self.prov = {}; self.site = None
        self.active = set(); self.kills = {}
        self.seq = 0; self.wlog = {}; self.killnow = {}
    def _j(self, d, k, av):
        old = d.get(k); new = av.join(old) if old is not None else av
        if old is None or not (new == old):
            d[k] = new; self.changed = True; self.epoch += 1; self.root_epoch[self.curroot] = self.epoch
            if self.trace: print('MEMCHG', self.site, str(k)[:80], sorted(new.labels), [str(p)[-60:] for p in new.ptrs][:3])
    def store(self, region, off, av, lo=None, var=False, owner=None, exc=frozenset()):
        rt = root(region); self.curroot = rt
        key = (region, ('R', lo) if var else off)
        for l in av.labels:
            self.prov.setdefault((key, l), self.site)
        self._j(self.all, sroot(region), av)
        if sroot(region) != rt: self._j(self.all, rt, av)
        self.seq += 1
        self.wlog.setdefault(region, {})[('R', lo) if var else off] = self.seq
        if var:
            for (lo2, ow2, exc2), av2 in self.ranges[region].items():
                if ow2 == owner and exc2 <= exc and (lo2 is None or (lo is not None and lo2 <= lo)) and av.labels <= av2.labels and av.ptrs <= av2.ptrs:
                    return      # subsumed by a wider summary
            self._j(self.ranges[region], (lo, owner, exc), av)
        else: self._j(self.cells[region], (off, owner), av)
    def covered_after(self, region, off, seq):
        for k, sq in self.wlog.get(region, {}).items():
            if sq <= seq: continue
            if isinstance(k, tuple):
                if k[1] is None or k[1] <= off + 1: return True
            elif k == off: return True
        return False
    def visible(self, region, c, owner, ekey=None):
        if owner is None: return True
        if owner in self.active:
            ks = self.killnow.get(owner, {}).get((region, c))
            if ks is None: return True
            return self.wlog.get(region, {}).get(ekey, 0) > ks
        return (region, c) not in self.kills.get(owner, ())
    def load(self, region, off, var=False, size=1, extfn=None):
        self.reading[-1].add(root(region))
        if var:
            r = self.all.get(sroot(region), BOT)
            if extfn: r = r.join(extfn(region, None))
            return r
        r = BOT
        for (o2, owner), av in self.cells[region].items():
            if off <= o2 < off + size and self.visible(region, off, owner, o2): r = r.join(av)
        if (region, off) in self.public:
            return AV(frozenset(), r.ptrs)
        for (lo, owner, exc), av in self.ranges[region].items():
            if off in exc: continue
            if (lo is None or lo < off + size) and self.visible(region, off, owner, ('R', lo)): r = r.join(av)
        if extfn: r = r.join(extfn(region, off))
        return r

class Engine:
    def __init__(self, units, policy, noncalls=()):
        self.funcs = {}      # name -> (unit, f)
        self.unitfuncs = {}  # (unit,name) -> f
        self.globals = {}
        self.gunit = {}
        for u, d in units.items():
            for g in d['globals']:
                if g['init'] or g['name'] not in self.globals:
                    self.globals[g['name']] = g     # the defining unit wins over extern declarations
                    self.gunit[g['name']] = u
            for f in d['functions']:
                if f['decl']: continue
                self.unitfuncs[(u, f['name'])] = f
                if not f['internal'] or f['name'] not in self.funcs: self.funcs[f['name']] = (u, f)
        self.mem = Mem()
        self.policy = policy
        self.vals = {}       # (ctx, fname, id) -> AV
        self.rets = {}       # (ctx, fname) -> AV
        self.args = {}       # (ctx, fname) -> [AV]
        self.alarms = {}     # key -> msg
        self.inprogress = set(); self.gchanged = False
        self.done = {}
        self.stats = collections.Counter()
        self.selects = set()
        self.index = {}
        self.definite = {}; self.owner = None; self.defseq = {}; self.memo = {}
        self.lbcache = {}
        self.init_globals()
    def init_globals(self):
        for n, g in self.globals.items():
            reg = ('G', n)
            for it in g['init']:
                if 'ptr' in it:
                    av = self.const_operand(it['ptr'], self.gunit.get(n))
                    self.mem.store(reg, it['off'], av)
        self.mem.changed = False
    def const_operand(self, o, unit=None):
        k = o['k']
        if k == 'f':
            # a static function named in a global initialiser is the one of the unit that defines the global
            if unit is not None and (unit, o['v']) in self.unitfuncs and self.unitfuncs[(unit, o['v'])]['internal']:
                return AV(frozenset(), frozenset([(('F', unit + '::' + o['v']), 0)]))
            return AV(frozenset(), frozenset([(('F', o['v']), 0)]))
        if k == 'g': return AV(frozenset(), frozenset([(('G', o['v']), 0)]))
        if k == 'cegep':
            b = self.const_operand(o['base'], unit)
            return AV(b.labels, frozenset((r, (off + o['off']) if off is not None else None) for r, off in b.ptrs))
        if k == 'cecast': return self.const_operand(o['base'], unit)
        return BOT
    # ---------- external memory policy
    def ext(self, region, off):
        rt = region
        if rt[0] != 'X': return BOT
        return self.policy.ext(rt, off)
    # ---------- analysis of a function in a context
    def val(self, ctx, fn, o, args):
        k = o['k']
        if k == 'i': return self.vals.get((ctx, fn, o['v']), BOT)
        if k == 'a': return args[o['v']]
        return self.const_operand(o)
    def alarm(self, ctx, fn, inst, what, labels):
        key = (fn, inst.get('line'), inst['id'], what)
        if key not in self.alarms:
            self.alarms[key] = (ctx, sorted(labels))
        elif not set(labels) <= set(self.alarms[key][1]):
            self.alarms[key] = (self.alarms[key][0], sorted(set(labels) | set(self.alarms[key][1])))
    def lower_bound(self, f_index, o, depth=0):
        k = o['k']
        if k == 'c': return o['v']
        if k == 'a': return 0
        if k != 'i': return None
        lbs = self.lbcache.get(id(f_index))
        if lbs is None:
            lbs = self.compute_lbs(f_index); self.lbcache[id(f_index)] = lbs
        v = lbs.get(o['v'], None)
        return None if v is None or v == float('inf') else v
    def compute_lbs(self, fi):
        INF = float('inf'); NEG = None
        lb = {}
        ints = [i for i in fi.values() if i['op'] != 'dbgvalue' and i.get('ty', '').startswith('i') and not i['ty'].endswith('*')]
        for i in ints: lb[i['id']] = INF
        def g(o):
            if o['k'] == 'c': return o['v'] if o['v'] is not None else NEG
            if o['k'] == 'a': return 0
            if o['k'] == 'i': return lb.get(o['v'], NEG)
            return NEG
        def add(a, b):
            if a is NEG or b is NEG: return NEG
            return a + b
        for rnd in range(12):
            ch = False
            for i in ints:
                op = i['op']; ops = i['ops']
                if op == 'zext':
                    a = g(ops[0]); n = 0 if a is NEG else max(0, a)
                elif op in ('sext', 'trunc'): n = g(ops[0])
                elif op == 'lshr' and ops[1]['k'] == 'c' and ops[1]['v'] is not None and ops[1]['v'] < 64:
                    a = g(ops[0]); n = (a >> ops[1]['v']) if (a is not NEG and a != INF and a >= 0) else (INF if a == INF else 0)
                elif op in ('and', 'lshr', 'urem', 'udiv', 'load', 'call', 'icmp', 'ptrtoint'): n = 0
                elif op == 'add': n = add(g(ops[0]), g(ops[1]))
                elif op == 'sub':
                    b = ops[1]
                    n = add(g(ops[0]), -b['v']) if b['k'] == 'c' else NEG
                elif op == 'ashr':
                    a = g(ops[0])
                    if a is NEG or a < 0: n = NEG
                    elif a == INF: n = INF
                    elif ops[1]['k'] == 'c' and ops[1]['v'] is not None and ops[1]['v'] < 64: n = a >> ops[1]['v']
                    else: n = 0
                elif op in ('mul', 'shl'):
                    a = g(ops[0]); b = g(ops[1])
                    if a is NEG or b is NEG or a < 0 or b < 0: n = NEG
                    elif a == INF or b == INF: n = INF
                    else: n = a * b if op == 'mul' else a << min(b, 40)
                elif op in ('phi', 'select'):
                    vs = [g(x) for x in (ops if op == 'phi' else ops[1:])]
                    n = NEG if any(v is NEG for v in vs) else min(vs)
                elif op in ('or', 'xor'): n = 0 if all((g(x) is not NEG and g(x) >= 0) for x in ops) else NEG
                else: n = NEG
                if rnd >= 8 and n is not NEG and lb[i['id']] is not NEG and n < lb[i['id']]: n = NEG   # widening
                if n != lb[i['id']]: lb[i['id']] = n; ch = True
            if not ch: break
        return lb
    def run_function(self, fname, ctx, args, unit=None):
        if unit is not None and (unit, fname) in self.unitfuncs: f = self.unitfuncs[(unit, fname)]; u = unit
        elif fname in self.funcs: u, f = self.funcs[fname]
        else: return None
        key = (ctx, fname)
        old = self.args.get(key)
        if old is not None: args = [a.join(b) for a, b in zip(args, old)]
        self.args[key] = args
        if len(ctx) > 24: raise Exception('ctx too deep ' + str(ctx))
        fi = self.index.get((u, fname))
        if fi is None:
            fi = {i['id']: i for b in f['blocks'] for i in b['insts']}
            self.index[(u, fname)] = fi
        ret = self.rets.get(key, BOT)
        if key in self.inprogress: return ret
        m = self.memo.get(key)
        if m is not None and old is not None and (len(m) < 4 or m[3]) and all(a == b for a, b in zip(args, old)) and all(self.mem.root_epoch.get(rt, 0) <= m[0] for rt in m[1]) and self.mem.kills.get(key) == m[2]:
            self.mem.reading[-1] |= m[1]; self.stats['reuse'] += 1
            return ret
        self.stats['runs'] += 1
        start_epoch = self.mem.epoch
        self.mem.reading.append(set())
        self.inprogress.add(key)
        defs = self.definite.get((u, fname))
        if defs is None: defs = self.find_definite(f, fi); self.definite[(u, fname)] = defs
        saved_owner = self.owner
        if defs:
            self.defseq[key] = {}; self.mem.killnow[key] = {}
            self.mem.active.add(key); self.owner = key
        local_changed = False       # a value of this very instance changed during this run: loop-carried phis may not have settled,
                                    # the instance must be run again even if its arguments and the memory it reads are unchanged
        for b in f['blocks']:
            for i in b['insts']:
                r = self.transfer(u, f, fi, ctx, fname, i, args)
                if i['op'] == 'ret':
                    if i['ops']:
                        nr = ret.join(self.val(ctx, fname, i['ops'][0], args))
                        if not (nr == ret): ret = nr; self.gchanged = True; local_changed = True
                    continue
                if r is None: continue
                k = (ctx, fname, i['id']); o = self.vals.get(k)
                n = r.join(o) if o is not None else r
                if len(n.ptrs) > 6: n = self.widen(n)
                if o is None or not (n == o):
                    self.vals[k] = n; self.gchanged = True; local_changed = True
                    if self.mem.trace: print('VALCHG', fname, i['id'], i['op'], i.get('line'), len(n.ptrs), sorted(n.labels))
        self.inprogress.discard(key)
        if defs:
            self.mem.active.discard(key)
            K = set()
            for (reg, off), sq in self.defseq.get(key, {}).items():
                if not self.mem.covered_after(reg, off, sq): K.add((reg, off))
            if K != self.mem.kills.get(key):
                self.mem.kills[key] = K; self.gchanged = True
                if self.mem.trace: print('KILLCHG', key[1], len(K))
        self.owner = saved_owner
        reads = self.mem.reading.pop(); self.mem.reading[-1] |= reads
        self.memo[key] = (start_epoch, reads, self.mem.kills.get(key), not local_changed)
        self.rets[key] = ret
        self.done[key] = (self.mem.epoch,)
        return ret
    def find_definite(self, f, fi):
        """stores to (param/param+const) that execute on every path to ret and are the last store through that base"""
        blocks = f['blocks']; nb = len(blocks)
        succ = {b['id']: [] for b in blocks}; rets = []
        for b in blocks:
            t = b['insts'][-1]
            if t['op'] == 'ret': rets.append(b['id'])
            for o in t['ops']:
                if o['k'] == 'bb': succ[b['id']].append(o['v'])
        if not rets: return set()
        # dominators (simple iterative)
        ids = [b['id'] for b in blocks]; entry = ids[0]
        pred = {i: [] for i in ids}
        for a, ss in succ.items():
            for s2 in ss: pred[s2].append(a)
        dom = {i: set(ids) for i in ids}; dom[entry] = {entry}
        ch = True
        while ch:
            ch = False
            for i in ids:
                if i == entry: continue
                ps = [dom[p] for p in pred[i]]
                n = (set.intersection(*ps) if ps else set()) | {i}
                if n != dom[i]: dom[i] = n; ch = True
        must = set.intersection(*[dom[r] for r in rets])
        res = set()
        for b in blocks:
            if b['id'] not in must: continue
            for i in b['insts']:
                if i['op'] != 'store': continue
                a = i['ops'][1]
                base = None
                if a['k'] == 'a': base = a['v']
                elif a['k'] == 'i' and fi[a['v']]['op'] == 'getelementptr' and not fi[a['v']].get('var') and fi[a['v']]['off'] is not None and fi[a['v']]['ops'][0]['k'] == 'a':
                    base = fi[a['v']]['ops'][0]['v']
                if base is None: continue
                res.add(i['id'])
        return res
    def addr_locs(self, fi, ctx, fn, o, args):
        """return (labels_of_address, [(region, off, var, lo)])"""
        if o['k'] == 'i' and fi[o['v']]['op'] == 'getelementptr' and fi[o['v']].get('var'):
            g = fi[o['v']]
            base = self.val(ctx, fn, g['ops'][0], args)
            labels = set(base.labels); lo = g['off'] if g['off'] is not None else None
            for vo, scale in g['var']:
                labels |= self.val(ctx, fn, vo, args).labels
                lb = self.lower_bound(fi, vo)
                if lb is None or lo is None: lo = None
                else: lo = lo + lb * scale
            locs = []
            for r, off in base.ptrs:
                locs.append((r, off, True, (off + lo) if (off is not None and lo is not None) else None))
            return labels, locs
        av = self.val(ctx, fn, o, args)
        return set(av.labels), [(r, off, off is None, None) for r, off in av.ptrs]
    def transfer(self, u, f, fi, ctx, fn, i, args):
        self.mem.site = (fn, i.get('line'), i['op'], len(ctx))
        op = i['op']; V = lambda o: self.val(ctx, fn, o, args)
        self.stats[op] += 0
        if op == 'dbgvalue': return None
        if op == 'alloca':
            reg = ('A', ctx, fn, i['id'])
            # policy: named members of local objects of well-known types are public by their meaning (e.g. the byte count of a hash context)
            pf = getattr(self.policy, 'public_fields', None)
            if pf:
                for tyname, offs in pf.items():
                    if i.get('aty', '').startswith('%' + tyname):
                        for o_ in offs: self.mem.public.add((reg, o_))
            return AV(frozenset(), frozenset([(reg, 0)]))
        if op == 'getelementptr':
            base = V(i['ops'][0]); labels = set(base.labels)
            if i['off'] is None: return AV(frozenset(labels), frozenset((r, None) for r, _ in base.ptrs))
            if not i['var']:
                if i.get('ragg') and i['off'] != 0 and i.get('rsz'):
                    ps = set()
                    for r, off in base.ptrs:
                        if off is None: ps.add((r, None))
                        else: ps.add((('S', r, off + i['off'], i['rsz']), 0))
                    return AV(frozenset(labels), frozenset(ps))
                return self.widen(AV(frozenset(labels), frozenset((r, off + i['off'] if off is not None else None) for r, off in base.ptrs)))
            for vo, scale in i['var']: labels |= V(vo).labels
            # variable offset: if it escapes as a pointer it denotes a view (sub-buffer)
            vk = (ctx, fn, i['id'])
            return AV(frozenset(labels), frozenset(((self.ancestor_view(r, vk), None) if self.ancestor_view(r, vk) is not None else (('V', r, vk), 0)) for r, _ in base.ptrs))
        if op == 'load':
            labels, locs = self.addr_locs(fi, ctx, fn, i['ops'][0], args)
            if labels: self.alarm(ctx, fn, i, 'load address', labels)
            self.stats['loads'] += 1
            r = BOT
            for reg, off, var, lo in locs:
                if reg[0] == 'F': continue
                r = r.join(self.mem.load(reg, off, var=var, size=i['size'], extfn=self.ext_ptr(i)))
            return r
        if op == 'store':
            labels, locs = self.addr_locs(fi, ctx, fn, i['ops'][1], args)
            if labels: self.alarm(ctx, fn, i, 'store address', labels)
            self.stats['stores'] += 1
            v = V(i['ops'][0])
            for reg, off, var, lo in locs:
                if reg[0] in ('F',): continue
                isdef = i['id'] in self.definite.get((u, fn), ()) and not var and off is not None
                self.mem.store(reg, off, v, lo=lo, var=var, owner=None if isdef else self.owner)
                if isdef and (ctx, fn) in self.defseq:
                    self.defseq[(ctx, fn)][(reg, off)] = self.mem.seq
                    self.mem.killnow.setdefault((ctx, fn), {})[(reg, off)] = self.mem.seq
            return None
        if op == 'br':
            if len(i['ops']) == 3:
                c = V(i['ops'][0]); self.stats['branches'] += 1
                if c.labels: self.alarm(ctx, fn, i, 'branch', c.labels)
            return None
        if op == 'switch':
            c = V(i['ops'][0])
            if c.labels: self.alarm(ctx, fn, i, 'switch', c.labels)
            return None
        if op in ('udiv', 'sdiv', 'urem', 'srem'):
            a = V(i['ops'][0]).join(V(i['ops'][1]))
            if a.labels: self.alarm(ctx, fn, i, 'division', a.labels)
            return AV(a.labels)
        if op == 'select':
            c = V(i['ops'][0]); a = V(i['ops'][1]); b = V(i['ops'][2])
            if c.labels: self.selects.add((fn, i.get('line')))
            r = AV(c.labels | a.labels | b.labels, a.ptrs | b.ptrs)
            return self.mkview_if_needed(r, (ctx, fn, i['id']))
        if op == 'phi':
            r = BOT
            for o in i['ops']: r = r.join(V(o))
            return self.widen(self.mkview_if_needed(r, (ctx, fn, i['id'])))
        if op == 'call': return self.call(u, f, fi, ctx, fn, i, args)
        if op in ('ret', 'unreachable'): return None
        # generic data operation
        r = BOT
        for o in i['ops']: r = r.join(V(o))
        if op in ('icmp', 'fcmp'): return AV(r.labels)
        if op in ('bitcast', 'ptrtoint', 'inttoptr', 'add', 'sub', 'and', 'or', 'xor'): return r   # keep pointer identity through int tricks
        return AV(r.labels)
    def ext_ptr(self, i):
        isptr = i['ty'].endswith('*')
        def fn(region, off):
            # resolve views / sub-objects of an external region to a byte range [lo, hi) of that region (hi None: unbounded)
            lo = off
            hi = None if off is None else off + 1
            cur = region
            while cur[0] in ('V', 'S'):
                if cur[0] == 'V':
                    lo, hi = None, None          # unknown position inside the parent
                else:
                    if lo is None:
                        lo, hi = cur[2], cur[2] + cur[3]
                    else:
                        lo, hi = cur[2] + lo, cur[2] + hi
                cur = cur[1]
            if cur[0] != 'X': return BOT
            if lo is None:
                return AV(frozenset(self.policy.labels(cur, None)))
            if hi - lo == 1:
                labels = self.policy.labels(cur, lo)
                if isptr and region[0] in ('X', 'S') and off is not None:
                    tg = getattr(self.policy, 'ptr_rules', {}).get((cur[1], lo))
                    if tg: return AV(frozenset(labels), frozenset(((('F', g[2:]) if g.startswith('F:') else ('G', g)), 0) for g in tg))
                    return AV(frozenset(labels), frozenset([(('X', cur[1] + (lo,)), 0)]))
                return AV(frozenset(labels))
            labs = set()
            for o in range(lo, min(hi, lo + 4096)):
                labs |= set(self.policy.labels(cur, o))
            if hi - lo > 4096: labs |= set(self.policy.labels(cur, None))
            return AV(frozenset(labs))
        return fn
    def widen(self, av):
        byreg = collections.defaultdict(list)
        for r, off in av.ptrs: byreg[r].append(off)
        if all(len(v) <= 4 for v in byreg.values()): return av
        ps = set()
        for r, offs in byreg.items():
            if len(offs) <= 4: ps |= set((r, o) for o in offs)
            else: ps.add((r, None))
        return AV(av.labels, frozenset(ps))
    def ancestor_view(self, r, vk):
        while r[0] in ('V', 'S'):
            if r[0] == 'V' and r[2] == vk: return r
            r = r[1]
        return None
    def mkview_if_needed(self, av, vk):
        # pointer merge of different offsets into same region -> view
        byreg = collections.defaultdict(set)
        for r, off in av.ptrs: byreg[r].add(off)
        if all(len(s) == 1 for s in byreg.values()): return av
        ptrs = set()
        for r, offs in byreg.items():
            if len(offs) == 1: ptrs.add((r, next(iter(offs))))
            elif self.ancestor_view(r, vk) is not None: ptrs.add((self.ancestor_view(r, vk), None))     # pointer walk inside its own view
            else: ptrs.add((('V', r, vk), 0))
        return AV(av.labels, frozenset(ptrs))
    def call(self, u, f, fi, ctx, fn, i, args):
        V = lambda o: self.val(ctx, fn, o, args)
        callee = i.get('callee'); A = [V(o) for o in i['ops']]
        targets = []
        if callee is None:
            cv = V(i['cv'])
            if cv.labels: self.alarm(ctx, fn, i, 'indirect call target', cv.labels)
            targets = [r[1] for r, off in cv.ptrs if r[0] == 'F']
            if not targets:
                self.stats['unresolved_indirect'] += 1
                self.unres = getattr(self, 'unres', set()); self.unres.add((fn, i.get('line')))
                return self.unknown_call(A)
        else: targets = [callee]
        res = BOT
        for t in targets:
            if t.startswith('llvm.memcpy') or t.startswith('llvm.memmove') or t in ('memcpy', 'memmove'):
                self.memcpy(ctx, fn, i, A); continue
            if t.startswith('llvm.memset') or t == 'memset':
                self.memset(ctx, fn, i, A); continue
            if t.startswith('llvm.dbg') or t.startswith('llvm.lifetime'): continue
            if t == 'br_ccopy':
                self.ccopy(ctx, fn, i, A); continue
            if t in getattr(self.policy, 'cswap', ()) and len(A) == 3:
                # conditional exchange of two equally-sized integers (a, b, ctl): modelled like two conditional copies (assumption B)
                self.ccopy(ctx, fn, i, [A[2], A[0], A[1], BOT])
                self.ccopy(ctx, fn, i, [A[2], A[1], A[0], BOT])
                continue
            if t == 'br_verif_public64':
                res = res.join(A[0] if getattr(self.policy, 'keep_marks', False) else AV(frozenset(), A[0].ptrs)); continue
            if t == 'br_verif_public_mem':
                if not getattr(self.policy, 'keep_marks', False):
                    for r, off in A[0].ptrs:
                        if off is not None: self.mem.public.add((r, off))
                continue
            if t in self.policy.nonct:
                lab = set()
                for a in A:
                    lab |= a.labels
                    for r, off in a.ptrs: lab |= self.mem.load(r, off, var=True, extfn=self.ext_ptr({'ty': 'i8'})).labels
                if lab: self.alarm(ctx, fn, i, 'call to non-CT ' + t, lab)
            if t.startswith('llvm.'):
                r = BOT
                for a in A: r = r.join(a)
                res = res.join(AV(r.labels)); continue
            if '::' in t:
                tu, t = t.split('::', 1)
                r = self.run_function(t, ctx + ((fn, i['id']),), A, unit=tu)
            else:
                r = self.run_function(t, ctx + ((fn, i['id']),), A, unit=u)
            if r is None: res = res.join(self.unknown_call(A, t))
            elif t in getattr(self.policy, 'public_results', ()): res = res.join(AV(frozenset(), r.ptrs))     # documented public verdict
            else: res = res.join(r)
        return res
    def unknown_call(self, A, name=None):
        self.stats['unknown_calls'] += 1
        self.unk = getattr(self, 'unk', set()); self.unk.add(name)
        lab = set()
        for a in A:
            lab |= a.labels
            for r, off in a.ptrs:
                if r[0] == 'F': continue
                lab |= self.mem.load(r, off, var=True, extfn=self.ext_ptr({'ty': 'i8'})).labels
        av = AV(frozenset(lab))
        for a in A:
            for r, off in a.ptrs:
                if r[0] in ('F', 'G'): continue
                self.mem.store(r, off, av, lo=off, var=True)
        return av
    def index_of(self, fn):
        u, f = self.funcs[fn] if fn in self.funcs else (None, None)
        for (uu, nn), fi in self.index.items():
            if nn == fn: return fi
        return {}
    def memcpy(self, ctx, fn, i, A):
        dst, src, ln = A[0], A[1], A[2]
        if dst.labels or src.labels or ln.labels: self.alarm(ctx, fn, i, 'memcpy address/length', dst.labels | src.labels | ln.labels)
        lenop = i['ops'][2]; clen = lenop['v'] if lenop['k'] == 'c' else None
        for dr, doff in dst.ptrs:
            if dr[0] == 'F': continue
            for sr, soff in src.ptrs:
                if sr[0] == 'F': continue
                if doff is None or soff is None:
                    self.mem.store(dr, doff, self.mem.load(sr, soff, var=True, extfn=self.ext_ptr({'ty': 'i8'})), lo=doff, var=True); continue
                # cell-wise copy of exact cells in range, ranges as ranges
                ext = self.ext_ptr({'ty': 'i8'})
                offs = set(o2 - soff for (o2, ow) in self.mem.cells[sr] if o2 >= soff) | set(o2 - doff for (o2, ow) in self.mem.cells[dr] if o2 >= doff)
                lmin = clen if clen is not None else (self.lower_bound(self.index_of(fn), lenop) or 0)
                far = BOT; exact = set()
                for k in sorted(offs):
                    if clen is not None and k >= clen: continue
                    if k >= max(lmin, 0): continue          # may or may not be copied: leave to the range copy
                    if sr[0] != 'G' and ((root(sr) == root(dr) and k >= 16) or len(self.mem.cells[dr]) > 64): continue
                    av = self.mem.load(sr, soff + k, size=1, extfn=ext)
                    self.mem.store(dr, doff + k, av, owner=self.owner); exact.add(doff + k)
                exc = frozenset(exact)
                for (lo, ow, e2), av in dict(self.mem.ranges[sr]).items():
                    if clen is not None and lo is not None and lo >= soff + clen: continue
                    nlo = None if lo is None else doff + max(lo - soff, 0)
                    self.mem.store(dr, None, av, lo=nlo, var=True, owner=self.owner, exc=exc)
                for (o2, ow) in list(self.mem.cells[sr]):
                    k = o2 - soff
                    if k >= 0 and (doff + k) not in exact and (clen is None or k < clen):
                        self.mem.store(dr, None, self.mem.load(sr, o2, size=1), lo=doff + k, var=True, owner=self.owner, exc=exc)
                if sr[0] == 'X':
                    # external source: header cell + body
                    if clen is not None and clen <= 1024 and soff is not None:
                        # constant-size copy of an external object: field-precise, one exact cell per byte
                        for k in range(clen):
                            self.mem.store(dr, doff + k, ext(sr, soff + k))
                    else:
                        self.mem.store(dr, doff, ext(sr, soff))
                        self.mem.store(dr, None, ext(sr, None), lo=doff + 1, var=True, exc=frozenset([doff]))
                    # pointer-valued cells of the source that the policy binds to known targets keep their targets in the copy
                    pext = self.ext_ptr({'ty': 'i8*'})
                    for (path, poff) in getattr(self.policy, 'ptr_rules', {}):
                        if path == sr[1] and soff <= poff and (clen is None or poff < soff + clen):
                            self.mem.store(dr, doff + (poff - soff), pext(sr, poff))
    def ccopy(self, ctx, fn, i, A):
        ctl, dst, src, ln = A
        if dst.labels or src.labels or ln.labels: self.alarm(ctx, fn, i, 'ccopy address/length', dst.labels | src.labels | ln.labels)
        ext = self.ext_ptr({'ty': 'i8'})
        for dr, doff in dst.ptrs:
            for sr, soff in src.ptrs:
                if dr[0] == 'F' or sr[0] == 'F': continue
                if doff is None or soff is None:
                    self.mem.store(dr, doff, self.mem.load(sr, soff, var=True, extfn=ext).join(AV(ctl.labels)), lo=doff, var=True); continue
                offs = set(o - soff for (o, ow) in self.mem.cells[sr] if o >= soff) | set(o - doff for (o, ow) in self.mem.cells[dr] if o >= doff)
                for k in offs:
                    if (root(sr) == root(dr) and k >= 16) or len(self.mem.cells[dr]) > 64: continue
                    a = self.mem.load(sr, soff + k, size=1, extfn=ext); b = self.mem.load(dr, doff + k, size=1)
                    if a.labels or b.labels: self.mem.store(dr, doff + k, AV(a.labels | b.labels | ctl.labels, a.ptrs | b.ptrs))
                    # assumption B: public cell conditionally copied over public cell (equal headers) stays public
                body = BOT
                for (lo, ow, e2), av in self.mem.ranges[sr].items(): body = body.join(av)
                if sr[0] == 'X': body = body.join(ext(sr, None))
                self.mem.store(dr, None, AV(body.labels | ctl.labels), lo=doff, var=True, exc=frozenset(doff + k for k in offs))
    def memset(self, ctx, fn, i, A):
        dst, v, ln = A[0], A[1], A[2]
        if dst.labels or ln.labels: self.alarm(ctx, fn, i, 'memset address/length', dst.labels | ln.labels)
        for dr, doff in dst.ptrs:
            if dr[0] == 'F': continue
            self.mem.store(dr, doff, AV(v.labels), lo=doff, var=True)
    def analyze(self, entry, args):
        for it in range(100):
            self.mem.changed = False; self.gchanged = False
            r = self.run_function(entry, (), args)
            self.passes = it + 1
            if it >= 60:
                raise Exception('flow engine: no fixpoint after %d passes for %s' % (it, entry))

            if not self.mem.changed and not self.gchanged: break
        return r

class Policy:
    """ext(region,off)->labels for external memory reached from entry params."""
    def __init__(self, rules, nonct=('memcmp', 'strlen', 'strcmp')):
        self.rules = rules; self.nonct = set(nonct)
    def labels(self, region, off):
        path = region[1]
        f = self.rules.get(path)
        if f is None:
            # try wildcard on prefix
            return frozenset()
        return frozenset(f(off))

_ALL = None


def all_units(config='host'):
    """every unit of the build, compiled with the declassification hooks on"""
    global _ALL
    if _ALL is None:
        _ALL = {}
    if config not in _ALL:
        from . import build
        srcs = build.all_sources()
        _ALL[config] = build.load_units(srcs, 'm2r', config, hooks=True)
    return _ALL[config]
