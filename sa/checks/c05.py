"""C05 — memory safety on untrusted input, the statically decidable clauses (DESIGN §4 C05)."""
from .. import build, report, t0, irf
from .. import oblig as _ob
from .. import oblig
from ..build import AnalysisBroken

INIT_SITES = {
    # interpreter: (unit, function that installs the stack pointers, context struct, prefix of the stack fields)
    'x509_minimal': ('src/x509/x509_minimal.c', 'xm_start_chain', 'br_x509_minimal_context', ''),
    'x509_decoder': ('src/x509/x509_decoder.c', 'br_x509_decoder_init', 'br_x509_decoder_context', ''),
    'skey_decoder': ('src/x509/skey_decoder.c', 'br_skey_decoder_init', 'br_skey_decoder_context', ''),
    'pkey_decoder': ('src/x509/pkey_decoder.c', 'br_pkey_decoder_init', 'br_pkey_decoder_context', ''),
    'pemdec': ('src/codec/pemdec.c', 'br_pem_decoder_init', 'br_pem_decoder_context', ''),
    'hs_client': ('src/ssl/ssl_engine.c', 'br_ssl_engine_hs_reset', 'br_ssl_engine_context', ''),
    'hs_server': ('src/ssl/ssl_engine.c', 'br_ssl_engine_hs_reset', 'br_ssl_engine_context', ''),
}


def check_depth(chk, key):
    P = t0.Program(key)
    eff = P.native_effects()
    chk.count('t0_words', len(P.words))
    chk.count('t0_natives', P.interp)
    # built-in opcodes must have the effects the bytecode analysis assumes
    want = {1: 1, 2: 1, 3: -1, 4: 0, 5: -1, 6: -1}
    for opc, d in want.items():
        got = eff[opc]['dp']['ret']
        if got != {d}:
            chk.violation('t0-builtin-effect', '%s opcode %d (%s)' % (key, opc, P.natives[opc]), P.src,
                          'data-stack effect derived from %s is %s, the analysis assumes %d' % (P.runfn, sorted(map(str, got)), d),
                          key='t0-builtin-effect %s %d' % (key, opc))
    D = t0.Depth(P, eff)
    L = P.layouts
    pre = 'eng.' if key.startswith('hs_') else ''
    try:
        dps = L.field(P.ctxname, pre + 'dp_stack')[2]
        rps = L.field(P.ctxname, pre + 'rp_stack')[2]
    except KeyError as e:
        raise AnalysisBroken('%s: stack field %s not in debug info' % (key, e))
    for name, slot in P.entries:
        net, peak, rmax = D.word(slot)
        inst = '%s entry %s: data stack max %d <= %d slots' % (key, name, peak, dps['count'])
        if peak <= dps['count']:
            chk.ok('t0-data-stack-depth', inst, P.src, 'exhaustive over %d reachable words' % len(D.memo))
        else:
            chk.violation('t0-data-stack-depth', '%s entry %s' % (key, name), P.src,
                          'maximum data stack depth %d exceeds dp_stack[%d]' % (peak, dps['count']), key='t0-data-stack-depth %s' % key)
        inst = '%s entry %s: return stack max %d <= %d slots' % (key, name, rmax, rps['count'])
        if rmax <= rps['count']:
            chk.ok('t0-return-stack-depth', inst, P.src, 'call graph acyclic, %d words' % len(D.memo))
        else:
            chk.violation('t0-return-stack-depth', '%s entry %s' % (key, name), P.src,
                          'maximum return stack depth %d exceeds rp_stack[%d]' % (rmax, rps['count']), key='t0-return-stack-depth %s' % key)
    for kind, where, det in D.problems:
        chk.violation('t0-stack-balance', '%s %s %s' % (key, kind, where), P.src,
                      '%s: %s (stack depth is path dependent: unbounded or inconsistent)' % (kind, det), key='t0-stack-balance %s %s %s' % (key, kind, where))
    if not D.problems:
        chk.ok('t0-stack-balance', '%s: every join and every ret is balanced, no recursion' % key, P.src, '%d words' % len(D.memo))
    return P, D


def check_init(chk, key):
    src, fn, ctx, pre = INIT_SITES[key]
    U = build.load_unit(src)
    L = irf.Layouts(U)
    f = next((x for x in U['functions'] if x['name'] == fn and not x['decl']), None)
    if f is None:
        raise AnalysisBroken('%s: %s not found' % (src, fn))
    F = irf.Func(U, f)
    for st, ptr in (('dp_stack', 'cpu.dp'), ('rp_stack', 'cpu.rp')):
        so = L.field(ctx, st)[0]
        po = L.field(ctx, ptr)[0]
        found = False
        for i in F.insts.values():
            if i['op'] != 'store':
                continue
            b, o = F.addr_of(i['ops'][1])
            if b['k'] == 'a' and o == po:
                vb, vo = F.addr_of(i['ops'][0])
                if vb == b and vo == so:
                    found = True
                else:
                    chk.violation('t0-stack-init', '%s: %s := &%s[0]' % (fn, ptr, st), F.where(i),
                                  '%s is initialised with offset %s, expected the start of %s (%d)' % (ptr, vo, st, so),
                                  key='t0-stack-init %s %s' % (fn, ptr))
                    found = True
        if found:
            chk.ok('t0-stack-init', '%s: %s := &%s[0]' % (fn, ptr, st), F.where())
        else:
            raise AnalysisBroken('%s: no store to %s in %s' % (key, ptr, fn))


# context-field invariants used as facts by the abstract interpreter (DESIGN 3.4): field -> (lo, hi, justification)
FIELD_RANGES = {
    'eng.suites_num': (0, 48, 'only br_ssl_engine_set_suites writes it, after checking suites_num*2 <= sizeof suites_buf (checked below)'),
    'eng.session.session_id_len': (0, 32, 'T0 code stores it only after comparing with 32; the application/cache supplied session parameters are trusted API input'),
}


def suites_num_guard(chk):
    from .. import oblig, fold, wmw
    from ..oblig import Ob, Var, E
    u = build.load_unit('src/ssl/ssl_engine.c')
    L = irf.Layouts(u)
    off = L.field('br_ssl_engine_context', 'suites_num')[0]
    cap = L.field('br_ssl_engine_context', 'suites_buf')[1] // 2
    oblig.run_obligations(chk, [
        Ob('src/ssl/ssl_engine.c', 'br_ssl_engine_set_suites', Var('suites_num', 'param'), ('assume', 'ugt', cap),
           E(fold.expect_no_store_to, 'suites_num is not stored', 0, off), ('assume', 'eq', 4),
           'more suites than suites_buf holds must be refused', rule='field-invariant',
           extra_hyps=[(Var('suites_num', 'param'), ('assume', 'ult', 1 << 32))]),
    ])
    ws = set(F.name for F, i, st in wmw.stores_to_field([(s_, off) for s_ in ('br_ssl_engine_context', 'br_ssl_client_context', 'br_ssl_server_context')], 1))
    if ws <= {'br_ssl_engine_set_suites'} and ws:
        chk.ok('field-invariant', 'suites_num is written only by br_ssl_engine_set_suites', 'src/ssl/ssl_engine.c')
    else:
        chk.violation('field-invariant', 'suites_num is written only by br_ssl_engine_set_suites', 'src/ssl/ssl_engine.c', 'writers: %s' % sorted(ws),
                      key='field-invariant suites_num writers')


def no_resume_after_fail(chk):
    """The T0 `fail` word records the error and yields (T0_CO): the coroutine is suspended *behind* the failed test.  Feeding more
    input would resume it there, with the test's precondition violated -- the bounds derived for the bytecode (stack depth, context
    accesses) all assume that a failure is final.  So every C function that re-enters <decoder>_run (other than the initialiser, which
    starts from a zeroed context) must first test the recorded error and not run the interpreter when it is set."""
    from ..oblig import Ob, Call, FieldLoad, NOCALL
    R = 't0-no-resume-after-fail'
    n = 0
    obs = []
    for key, src, st in (('x509_decoder', 'src/x509/x509_decoder.c', 'br_x509_decoder_context'),
                         ('skey_decoder', 'src/x509/skey_decoder.c', 'br_skey_decoder_context'),
                         ('pkey_decoder', 'src/x509/pkey_decoder.c', 'br_pkey_decoder_context'),
                         ('x509_minimal', 'src/x509/x509_minimal.c', 'br_x509_minimal_context')):
        P = t0.Program(key)
        if P.native_id('fail') is None:
            raise AnalysisBroken('%s: no fail native' % key)
        U = _ob.funit(src)
        L = irf.Layouts(U.unit)
        o_err = L.field(st, 'err')[0]
        run = 'br_%s_run' % key
        initm = 'br_%s_init_main' % key
        callers = [fn for fn, F in U.funcs.items() if fn != run and F.calls(run)]
        if not callers:
            raise AnalysisBroken('%s: no caller of %s in %s' % (key, run, src))
        for fn in sorted(callers):
            F = U.funcs[fn]
            if F.calls(initm):
                continue        # initialiser: context zeroed / error cleared just before
            n += 1
            obs.append(Ob(src, fn, FieldLoad(0, o_err, 'err'), ('pin', 33), NOCALL(run), ('pin', 0),
                          'after a recorded failure the interpreter must not be re-entered: the next instruction is the one behind the failed check '
                          '(e.g. a length counter already at 0 is decremented and bytes are stored past the destination)', rule=R))
    _ob.run_obligations(chk, obs)
    chk.floor('decoder entry points that re-enter an interpreter', n, 4)


def status_accessors(chk):
    """"Afterwards the context answers its documented status queries consistently (an error or a result, never both)": the inline
    accessors of bearssl_x509.h hand out a decoded key only when no error is recorded.  They are header-only, so a small unit that
    wraps each of them is compiled against the current headers and decided with FOLD (err pinned non-zero => NULL)."""
    from ..oblig import Ob, FieldLoad, RET
    from .. import fold as _fold
    R = 'status-queries-consistent'
    acc = [('br_x509_decoder_get_pkey', 'br_x509_decoder_context', 'br_x509_pkey *'),
           ('br_skey_decoder_get_rsa', 'br_skey_decoder_context', 'const br_rsa_private_key *'),
           ('br_skey_decoder_get_ec', 'br_skey_decoder_context', 'const br_ec_private_key *'),
           ('br_pkey_decoder_get_rsa', 'br_pkey_decoder_context', 'const br_rsa_public_key *'),
           ('br_pkey_decoder_get_ec', 'br_pkey_decoder_context', 'const br_ec_public_key *')]
    txt = '#include "bearssl.h"\n'
    for fn, st, rt in acc:
        txt += '%s verif_wrap_%s(%s *ctx) { return %s(ctx); }\n' % (rt, fn, st, fn)
    unit = build.extra_unit('x509_accessors', txt)
    U = _fold.FoldUnit('<extra>x509_accessors', unit=unit)
    _ob._units[('<extra>x509_accessors', 'host')] = U
    L = irf.Layouts(unit)
    obs = []
    for fn, st, rt in acc:
        o_err = L.field(st, 'err')[0]
        if fn not in U.funcs:
            raise AnalysisBroken('inline accessor %s not emitted' % fn)
        obs.append(Ob('<extra>x509_accessors', fn, FieldLoad(0, o_err, 'err'), ('pin', 33), RET(0), ('pin', 0),
                      'a decoder that recorded an error must not hand out a key: the caller would use a partially decoded / unvalidated object', rule=R))
    _ob.run_obligations(chk, obs)


def curve_id_range(chk):
    """The curve identifier of a key structure is chosen by whoever supplies the key.  Every EC entry point tests support with
    `(impl->supported_curves >> curve) & 1`: a shift by 32 or more (or a negative amount) is undefined behaviour, and on targets that
    mask the count an unsupported identifier aliases a supported one and then indexes the curve tables out of bounds.  Sibling rule
    over src/ec (br_ec_keygen and br_ec_compute_pub test `curve < 0 || curve >= 32` first): every shift of supported_curves by a
    non-constant amount is dominated by the in-range side of a comparison of that amount with a constant <= 32."""
    from .. import wmw
    R = 'curve-id-range-checked'
    P = wmw.program()
    n = 0
    for (un, fn), F in sorted(P.static.items()):
        if not F.file().replace(build.REPO + '/', '').startswith('src/ec/'):
            continue
        for i in F.insts.values():
            if i['op'] not in ('lshr', 'shl', 'ashr') or i['ops'][1]['k'] == 'c':
                continue
            x = F.strip_casts(i['ops'][0])
            if not (x['k'] == 'i' and F.insts[x['v']]['op'] == 'load'):
                continue
            st, off, _ = wmw.typed_base(F, F.insts[x['v']]['ops'][0])
            if st != 'br_ec_impl' or off != 0:
                continue
            n += 1

            def src(o):
                while o['k'] == 'i' and F.insts[o['v']]['op'] in ('zext', 'sext', 'trunc'):
                    o = F.insts[o['v']]['ops'][0]
                return o
            amt = src(i['ops'][1])

            def same(a, b):
                """same SSA value, or two loads of the same (const) key field: base pointer + constant offset"""
                if a == b:
                    return True
                if a['k'] == 'i' and b['k'] == 'i' and F.insts[a['v']]['op'] == 'load' and F.insts[b['v']]['op'] == 'load':
                    pa, pb = F.addr_of(F.insts[a['v']]['ops'][0]), F.addr_of(F.insts[b['v']]['ops'][0])
                    return pa == pb and pa[1] is not None and pa[0]['k'] == 'a'
                return False
            inst = '%s: the shift of supported_curves (line %s) is by an amount proved to lie in 0..31' % (fn, i.get('line'))
            okk = False
            if amt['k'] == 'i' and F.insts[amt['v']]['op'] == 'and' and any(q['k'] == 'c' and 0 <= q['v'] <= 31 for q in F.insts[amt['v']]['ops']):
                okk = True
            hi = lo = False
            for c in F.insts.values():
                if c['op'] != 'icmp' or c['ops'][1]['k'] != 'c' or not same(src(c['ops'][0]), amt):
                    continue
                k, p = c['ops'][1]['v'], c['pred']
                # which successor of the branch on c is the in-range side?
                side = None
                if p in ('sge', 'uge') and 1 <= k <= 32 or p in ('sgt', 'ugt') and 0 <= k <= 31:
                    side, what = 'false', 'hi' if p[0] == 's' else 'both'
                elif p in ('slt', 'ult') and 1 <= k <= 32 or p in ('sle', 'ule') and 0 <= k <= 31:
                    side, what = 'true', 'hi' if p[0] == 's' else 'both'
                elif p == 'slt' and k == 0:
                    side, what = 'false', 'lo'
                elif p == 'sge' and k == 0 or p == 'sgt' and k == -1:
                    side, what = 'true', 'lo'
                if side is None:
                    continue
                for b in F.blocks:
                    t = b['insts'][-1]
                    if t['op'] == 'br' and len(t['ops']) == 3 and t['ops'][0] == {'k': 'i', 'v': c['id']}:
                        dest = t['ops'][2]['v'] if side == 'true' else t['ops'][1]['v']
                        if len(F.pred[dest]) == 1 and F.dominates_block(dest, F.block_of[i['id']]):
                            if what in ('hi', 'both'):
                                hi = True
                            if what in ('lo', 'both'):
                                lo = True
            if okk or (hi and lo):
                chk.ok(R, inst, F.where(i))
            else:
                chk.violation(R, inst, F.where(i), 'no dominating test bounds the curve identifier (%s): a key structure with curve >= 32 or < 0 makes the shift undefined, and an '
                              'aliased identifier indexes the curve tables out of bounds' % ('upper bound only' if hi else 'lower bound only' if lo else 'none'),
                              key='%s %s' % (R, fn))
    chk.floor('supported_curves shifts in src/ec', n, 6)


def self_indexed_wrap(chk):
    """A context that buffers bytes in a fixed array indexed by one of its own fields (`ctx->buf[ctx->ptr ++] = x`) stays in bounds only
    by the inductive invariant ptr < sizeof buf: when the incremented index is tested against the array capacity, the taken side of
    that test must reset the index on *every* path back to the common continuation - a reset that is skipped under some condition (no
    receiver installed, ...) lets the next byte be written past the array, over the index field itself and beyond.  Path rule over
    every such store in the library (the PEM decoder's write8 is the instance)."""
    from .. import wmw
    R = 'self-indexed-buffer-wraps'
    P = wmw.program()
    n = 0
    for (un, fn), F in sorted(P.static.items()):
        L = None
        for i in F.insts.values():
            if i['op'] != 'store':
                continue
            o = F.strip_casts(i['ops'][1])
            if o['k'] != 'i':
                continue
            g = F.insts[o['v']]
            if g['op'] != 'getelementptr' or len(g.get('var') or []) != 1 or g.get('off') is None:
                continue
            base, off0 = F.addr_of(g['ops'][0])
            if base['k'] != 'a' or off0 is None:
                continue
            idx = g['var'][0][0]
            while idx['k'] == 'i' and F.insts[idx['v']]['op'] in ('zext', 'sext', 'trunc'):
                idx = F.insts[idx['v']]['ops'][0]
            if not (idx['k'] == 'i' and F.insts[idx['v']]['op'] == 'load'):
                continue
            b2, foff = F.addr_of(F.insts[idx['v']]['ops'][0])
            if b2 != base or foff is None:
                continue
            sn = wmw.ptr_struct(F.f['params'][base['v']]['ty'])
            if sn is None:
                # `void *t0ctx` interpreters: the struct type is on the cast in the address chain
                q = g['ops'][0]
                for _ in range(8):
                    if q['k'] != 'i':
                        break
                    qi = F.insts[q['v']]
                    if qi['op'] == 'bitcast' and wmw.ptr_struct(qi['ty']):
                        sn = wmw.ptr_struct(qi['ty'])
                        break
                    if qi['op'] not in ('getelementptr', 'bitcast'):
                        break
                    q = qi['ops'][0]
            if sn is None:
                continue
            if L is None:
                L = irf.Layouts(P.units[un])
            fa = L.field_at(sn, off0 + g['off'])
            if fa is None or not fa[3]['count']:
                continue
            cap = fa[3]['count']
            # the increment: store f := idx + 1
            incs = [q for q in F.insts.values() if q['op'] == 'add' and idx in q['ops'] and any(z['k'] == 'c' and z['v'] == 1 for z in q['ops'])]
            if not incs:
                continue

            def is_f(addr):
                b, o2 = F.addr_of(addr)
                return b == base and o2 == foff
            tests = []
            for c in F.insts.values():
                if c['op'] != 'icmp' or c['pred'] != 'eq' or c['ops'][1]['k'] != 'c' or c['ops'][1]['v'] != cap:
                    continue
                x = c['ops'][0]
                while x['k'] == 'i' and F.insts[x['v']]['op'] in ('zext', 'sext', 'trunc'):
                    x = F.insts[x['v']]['ops'][0]
                if x['k'] != 'i':
                    continue
                inc_ids = [q['id'] for q in incs]
                inc_stores = [z for z in F.insts.values() if z['op'] == 'store' and is_f(z['ops'][1]) and z['ops'][0]['k'] == 'i' and
                              F.strip_casts(z['ops'][0])['v'] in inc_ids + [u_['id'] for u_ in F.insts.values() if u_['op'] in ('trunc', 'zext', 'sext')
                                                                            and u_['ops'][0]['k'] == 'i' and u_['ops'][0]['v'] in inc_ids]]
                reload = F.insts[x['v']]['op'] == 'load' and is_f(F.insts[x['v']]['ops'][0]) and x['v'] != idx['v'] and \
                    any(F.order[z['id']] < F.order[x['v']] for z in inc_stores)
                if reload or x['v'] in inc_ids:
                    tests.append(c)
            if not tests:
                continue
            for c in tests:
                n += 1
                inst = '%s: when %s.%s is full (index == %d) the index is reset on every path' % (fn, sn, fa[2], cap)
                bad = None
                for b in F.blocks:
                    t = b['insts'][-1]
                    if not (t['op'] == 'br' and len(t['ops']) == 3 and t['ops'][0] == {'k': 'i', 'v': c['id']}):
                        continue
                    T, E = t['ops'][2]['v'], t['ops'][1]['v']
                    seen, st = set(), [T]
                    while st and bad is None:
                        q = st.pop()
                        if q in seen:
                            continue
                        seen.add(q)
                        if q == E:
                            bad = 'the continuation (line %s) is reached from the full-buffer side without a store to the index' % \
                                next((z.get('line') for z in next(x for x in F.blocks if x['id'] == q)['insts'] if z.get('line')), '?')
                            break
                        blk = next(x for x in F.blocks if x['id'] == q)
                        if any(z['op'] == 'store' and is_f(z['ops'][1]) and z['ops'][0]['k'] == 'c' and 0 <= z['ops'][0]['v'] < cap for z in blk['insts']):
                            continue
                        if blk['insts'][-1]['op'] == 'ret':
                            bad = 'a return is reached from the full-buffer side without a store to the index'
                            break
                        st.extend(F.succ[q])
                if bad:
                    chk.violation(R, inst, F.where(c), bad + ': the next byte is stored at %s[%d], past the array' % (fa[2], cap), key='%s %s' % (R, fn))
                else:
                    chk.ok(R, inst, F.where(c))
    chk.floor('self-indexed buffers with a wrap test', n, 1)


def modpow_window_room(chk):
    """br_iXX_modpow_opt() carves its window table out of the caller's work area: a window of k bits uses 2^k table slots plus the
    running value, i.e. (2^k + 1) integers of mwlen words (the table is indexed 1 .. 2^k - 1 after the two base temporaries; see the
    comment in the source).  The window size is chosen by comparing that requirement with twlen; an under-estimate writes the
    last slot past the work area - on the stack of br_rsa_iXX_public / _private, with a modulus size chosen by whoever supplies the
    key.  Symbolic form of the guard in both word-size variants: (2^win_len + 1) * mwlen <= twlen, and 2 * mwlen for the 1-bit case."""
    from .. import sym
    R = 'modpow-window-fits-work-area'
    for w in (15, 31):
        src, fn = 'src/int/i%d_modpow2.c' % w, 'br_i%d_modpow_opt' % w
        u = build.load_unit(src)
        F = next((irf.Func(u, f) for f in u['functions'] if f['name'] == fn and f.get('blocks')), None)
        if F is None:
            raise AnalysisBroken('%s vanished' % fn)
        S = sym.Sym(F, leaf_vars=('win_len', 'mwlen', 'twlen'))
        tw, mw, wl = S.atom(('var', 'twlen')), ('var', 'mwlen'), S.atom(('var', 'win_len'))
        one = S.aff({}, 1)
        want_win = S.atom(('op', 'mul') + tuple(sorted((sym.add_const(S.atom(('op', 'shl', one, wl)), 1), S.atom(mw)), key=repr)))
        want_min = S.aff({mw: 2})
        found = {'win': None, 'min': None}
        for i in F.insts.values():
            if i['op'] != 'icmp':
                continue
            a, b = S.sym(i['ops'][0]), S.sym(i['ops'][1])
            if i['pred'] == 'ule' and b == tw and a[0] == 'aff' and any(k[0] == 'op' and k[1] == 'mul' for k, v in a[1]):
                found['win'] = (a, i)
            elif i['pred'] == 'ult' and a == tw:
                found['min'] = (b, i)
        for k, want, what in (('win', want_win, '(2^win_len + 1) * mwlen <= twlen selects the window'), ('min', want_min, 'twlen < 2 * mwlen is refused')):
            inst = '%s: %s' % (fn, what)
            if found[k] is None:
                chk.violation(R, inst, src, 'no such comparison with twlen found', key='%s %d %s none' % (R, w, k))
            elif found[k][0] == want:
                chk.ok(R, inst, F.where(found[k][1]))
            else:
                chk.violation(R, inst, F.where(found[k][1]), 'the work-area requirement compared with twlen is %s: the window table can be written past the work area'
                              % sym.show(found[k][0]), key='%s %d %s' % (R, w, k))


def p256_point_length_gate(chk):
    """The specialised P-256 implementations write the result point back into the caller's G buffer with a fixed 65-byte encoder: api_mul
    must therefore refuse any Glen other than 65 *before* it decodes or encodes anything - the decoder rejects a short point too, but
    the encoder runs regardless and writes 65 bytes into a buffer that may hold fewer.  Partial evaluation under Glen != 65: the
    function returns 0 and no call to the point encoder remains."""
    from .. import oblig
    from ..oblig import Ob, Var, ALL, RET, NOCALL
    R = 'p256-point-length-gate'
    obs = []
    for impl, enc in (('m15', 'p256_encode'), ('m31', 'p256_encode'), ('m62', 'point_encode'), ('m64', 'point_encode')):
        s = 'src/ec/ec_p256_%s.c' % impl
        obs.append(Ob(s, 'api_mul', Var('Glen', 'param'), ('assume', 'ne', 65), ALL(RET(0), NOCALL(enc)), ('assume', 'eq', 65),
                      'a point of the wrong length is refused before the fixed-size encoder writes into its buffer', rule=R, noinline=(enc,)))
    oblig.run_obligations(chk, obs)


def guarded_length_is_the_one_used(chk, rule='length-guard-covers-the-value-used'):
    """a length from which caller-chosen amounts are subtracted (xlen - hash_len - salt_len - 2 in PSS unpadding: the result bounds
    the scan over the decrypted signature) must be the very value that the size guard compared against: a guard placed before the
    length is adjusted (n_bitlen --) compares a different, larger value, and the subtraction can underflow for moduli of 8k+1 bits"""
    TABLE = (('src/rsa/rsa_pss_sig_unpad.c', 'br_rsa_pss_sig_unpad', 'xlen'),)
    for src, fn, var in TABLE:
        U = oblig.funit(src)
        F = U.func(fn)
        ids = set(o['v'] for i, o in oblig.dbg_values(F, var) if o['k'] == 'i')
        if not ids:
            raise AnalysisBroken('%s: no SSA value for variable %s in %s' % (rule, var, fn))
        guards, uses = set(), {}
        for i in F.insts.values():
            if i['op'] == 'icmp' and i['pred'] in ('ugt', 'uge', 'ult', 'ule'):
                for o in i['ops']:
                    if o['k'] == 'i' and o['v'] in ids:
                        guards.add(o['v'])
            if i['op'] == 'sub' and i['ops'][0]['k'] == 'i' and i['ops'][0]['v'] in ids and i['ops'][1]['k'] != 'c':
                uses.setdefault(i['ops'][0]['v'], i)
        if not uses or not guards:
            raise AnalysisBroken('%s: %s has %d guarded values and %d variable subtractions of %s' % (rule, fn, len(guards), len(uses), var))
        inst = '%s: every value of %s that a variable amount is subtracted from was compared by the size guard' % (fn, var)
        badv = [v for v in uses if v not in guards]
        if badv:
            chk.violation(rule, inst, F.where(uses[badv[0]]), 'the subtraction uses a value of %s assigned after the guard compared an earlier one' % var, key='%s %s' % (rule, fn))
        else:
            chk.ok(rule, inst, F.where(list(uses.values())[0]), '%d subtraction sites, all on the guarded SSA value' % len(uses))


def run(tier):
    chk = report.Check('C05', tier,
                       'Static bounds for the T0 virtual machines that parse all untrusted input (X.509, keys, PEM, both handshakes): '
                       '(1) exhaustive maximum data-/return-stack depth over every path of every word, with native stack effects derived '
                       'from the IR of the generated run function, compared with the dp_stack/rp_stack arrays of the context structs; '
                       'stack balance at every join (no unbounded growth), acyclic call graph; stack pointers initialised to the arrays; '
                       '(2) record-length gates of the four protection modes refuse every length that would underflow the decrypt arithmetic or exceed 2^14 plaintext bytes; '
                       '(3) every context access of the T0 code lies inside the member it addresses (abstract interpretation, sa/t0access.py); '
                       '(4) whole library: every variable-length memcpy/memmove/memset/br_ccopy (and in-place ASN.1->raw conversion) into a local array or an '
                       'array member of a context struct, and every store through a variable index into such an array, is dead code under "bytes written > room left" '
                       '(sa/bufcopy.py; the sites the optimiser can decide are armed (rules/bufcopy_sites.json), the others are listed as undecided in the evidence notes); the engine refuses records larger than its buffer. '
                       'NOT decided: memory safety of the C code of native words and hand-written decoders, termination beyond the acyclic '
                       'T0 call graph, arithmetic UB.',
                       assumptions=['the generated interpreter skeleton (dispatch switch, T0_ENTER, ret) is the T0 compiler\'s standard one; '
                                    'its shape is re-derived from the IR and the check exits 2 if it is not recognised',
                                    'LP64 struct layouts (no 32-bit headers in the image)'],
                       trusted=['clang 14 IR', 'tools/irdump.cc', 'sa/t0.py'])
    for key in t0.INTERPRETERS:
        check_depth(chk, key)
        check_init(chk, key)
    import json as _json, os as _os
    from .. import t0access
    assumed = _json.load(open(_os.path.join(build.VERIF, 'rules', 't0_assumed_sites.json')))
    t0access.check_all(chk, list(t0.INTERPRETERS), FIELD_RANGES, assumed)
    from .. import t0kernel
    nk = sum(t0kernel.check(chk, key) for key in t0.INTERPRETERS)
    chk.floor('kernel natives verified', nk, 150)
    suites_num_guard(chk)
    from . import c02
    c02.length_gates(chk)
    guarded_length_is_the_one_used(chk)
    from .. import engio, oblig as _ob
    _ob.run_obligations(chk, engio.bounds_obligations())
    engio.offered_regions(chk)
    no_resume_after_fail(chk)
    status_accessors(chk)
    curve_id_range(chk)
    p256_point_length_gate(chk)
    self_indexed_wrap(chk)
    modpow_window_room(chk)
    from .. import bufcopy
    bufcopy.check(chk)
    chk.floor('interpreters', len(t0.INTERPRETERS), 7)
    from .. import t0mandatory as _t0m
    _t0m.check(chk, ('skey_decoder', 'pkey_decoder'))
    from .. import lints as _lints_ir
    _lints_ir.ignored_result_regression(chk, ['src/codec/', 'src/x509/', 'src/ssl/'])
    return chk.finish()
