"""C14 — AEAD modes: parameter rejection of CCM, tag verification structure of GCM / EAX / CCM (DESIGN §4 C14)."""
from .. import build, report, oblig, irf
from ..oblig import Ob, Call, Var, RET, ALL, NOCALL, E
from .. import fold
from ..build import AnalysisBroken


def no_icall():
    return E(fold.expect_no_indirect_call, 'no block-cipher call is reached')


def tag_compare_shape(chk, src, fn, get_tag, bound):
    """the verdict accumulates, over u in [0, bound), computed_tag[u] ^ caller_tag[u], where computed_tag is the buffer
    filled by get_tag() and bound is the `len` parameter (trunc variants) or get_tag()'s result (CCM)"""
    R = 'aead-tag-compare'
    u = build.load_unit(src)
    f = next((x for x in u['functions'] if x['name'] == fn and not x['decl']), None)
    if f is None:
        raise AnalysisBroken('%s not found' % fn)
    F = irf.Func(u, f)
    inloop = F.loops_blocks()
    ors = [i for i in F.insts.values() if i['op'] == 'or' and F.block_of[i['id']] in inloop]
    inst = '%s: verdict = EQ0(OR_u (computed[u] ^ tag[u])), u < %s' % (fn, bound)
    if len(ors) != 1:
        chk.violation(R, inst, F.where(), 'expected exactly one OR-accumulation inside the comparison loop, found %d' % len(ors), key='%s %s shape' % (R, fn))
        return

    def strip(o):
        while o['k'] == 'i' and F.insts[o['v']]['op'] in ('zext', 'sext', 'trunc'):
            o = F.insts[o['v']]['ops'][0]
        return o
    o = ors[0]
    xs = [strip(x) for x in o['ops']]
    xor = next((F.insts[x['v']] for x in xs if x['k'] == 'i' and F.insts[x['v']]['op'] == 'xor'), None)
    if xor is None:
        chk.violation(R, inst, F.where(o), 'the accumulated value is not an XOR of two bytes', key='%s %s xor' % (R, fn))
        return
    bases, idxs = [], []
    for x in xor['ops']:
        x = strip(x)
        if x['k'] != 'i' or F.insts[x['v']]['op'] != 'load':
            chk.violation(R, inst, F.where(xor), 'XOR operand is not a loaded byte', key='%s %s load' % (R, fn))
            return
        g = F.insts[x['v']]['ops'][0]
        if g['k'] != 'i' or F.insts[g['v']]['op'] != 'getelementptr':
            chk.violation(R, inst, F.where(xor), 'byte is not indexed', key='%s %s gep' % (R, fn))
            return
        gi = F.insts[g['v']]
        b = gi['ops'][0]
        while b['k'] == 'i' and F.insts[b['v']]['op'] in ('bitcast', 'getelementptr') and not F.insts[b['v']].get('var') and F.insts[b['v']].get('off', 0) == 0:
            b = F.insts[b['v']]['ops'][0]
        bases.append(b)
        idxs.append([v[0] for v in gi.get('var', [])] + ([] if gi.get('off', 0) == 0 else ['off%d' % gi['off']]))
    kinds = []
    for b in bases:
        if b['k'] == 'a':
            kinds.append(('param', b['v']))
        elif b['k'] == 'i' and F.insts[b['v']]['op'] == 'alloca':
            kinds.append(('alloca', b['v']))
        else:
            kinds.append(('other', None))
    okk = sorted(k for k, _ in kinds) == ['alloca', 'param'] and ('param', 1) in kinds
    det = 'operands: %s' % kinds
    if okk:
        al = next(v for k, v in kinds if k == 'alloca')
        # the alloca is the output argument of get_tag, called before the loop
        gt = [c for c in F.calls(get_tag)]
        okk = len(gt) == 1 and any(F.strip_casts(a) == {'k': 'i', 'v': al} or F.addr_of(a)[0] == {'k': 'i', 'v': al} for a in gt[0]['ops'])
        det += '; get_tag fills the compared buffer: %s' % okk
        if okk:
            okk = idxs[0] == idxs[1] and len(idxs[0]) == 1 and idxs[0][0]['k'] == 'i' and F.insts[idxs[0][0]['v']]['op'] == 'phi'
            det += '; same induction index on both sides: %s' % okk
        if okk:
            # loop bound
            ph = idxs[0][0]['v']
            cmps = [i for i in F.insts.values() if i['op'] == 'icmp' and any(x['k'] == 'i' and x['v'] == ph for x in i['ops'])]
            bd = None
            for c in cmps:
                other = [x for x in c['ops'] if not (x['k'] == 'i' and x['v'] == ph)][0]
                if c['pred'] in ('ult', 'ne', 'slt'):
                    bd = other
            if bound == 'len':
                okk = bd is not None and bd['k'] == 'a' and bd['v'] == 2
            else:
                okk = bd is not None and bd['k'] == 'i' and F.insts[bd['v']]['op'] == 'call' and F.insts[bd['v']].get('callee') == get_tag
            det += '; loop bound is %s: %s' % (bound, okk)
    if okk:
        chk.ok(R, inst, F.where(o), det)
    else:
        chk.violation(R, inst, F.where(o), det, key='%s %s' % (R, fn))


def chunk_completion(chk):
    """Split-independence of the additional data, necessary structural part: when an injection completes a partially filled
    block the completed block must reach the authenticator (GHASH / CBC-MAC) -- immediately, or through the mode's own
    "full block pending" state -- on every path.  Hypotheses are on the context state (bytes buffered) and the length."""
    from ..oblig import FieldLoad
    R = 'aead-chunk-completion'
    obs = []

    def buf_arg(struct_src, struct, field, argidx):
        u = build.load_unit(struct_src)
        off = irf.Layouts(u).field(struct, field)[0]

        def pred(F, i):
            if i['op'] != 'call' or i.get('callee') is not None or len(i['ops']) <= argidx:
                return False
            b, o = F.addr_of(i['ops'][argidx])
            return b == {'k': 'a', 'v': 0} and o == off
        return pred

    def onpath(pred, desc):
        return E(fold.expect_on_all_paths, desc, pred, desc)
    # ---- GCM: bytes buffered = count_aad & 15; no pending-full state exists, so a completed block is hashed at once
    s = 'src/aead/gcm.c'
    L = irf.Layouts(build.load_unit(s))
    o_cnt, sz = L.field('br_gcm_context', 'count_aad')[:2]
    gh_buf = buf_arg(s, 'br_gcm_context', 'buf', 2)
    for hyp, what in ((('assume', 'ugt', 11), 'more than the 11 missing bytes'), (('assume', 'eq', 11), 'exactly the 11 missing bytes')):
        obs.append(Ob(s, 'br_gcm_aad_inject', FieldLoad(0, o_cnt, 'count_aad', size=sz), ('pin', 5),
                      onpath(gh_buf, 'GHASH is applied to ctx->buf on every path'), ('pin', 0),
                      '5 AAD bytes are buffered and the call brings %s: the completed block must be hashed, or those 16 bytes never reach the tag' % what,
                      rule=R, extra_hyps=[(Var('len', 'param'), hyp)]))
    # ---- CCM
    s = 'src/aead/ccm.c'
    L = irf.Layouts(build.load_unit(s))
    o_ptr, sz = L.field('br_ccm_context', 'ptr')[:2]
    mac_buf = buf_arg(s, 'br_ccm_context', 'buf', 2)
    for hyp, what in ((('assume', 'ugt', 11), 'more than the 11 missing bytes'), (('assume', 'eq', 11), 'exactly the 11 missing bytes')):
        obs.append(Ob(s, 'br_ccm_aad_inject', FieldLoad(0, o_ptr, 'ptr', size=sz, nth=0), ('pin', 5),
                      onpath(mac_buf, 'CBC-MAC is applied to ctx->buf on every path'), ('pin', 0),
                      '5 AAD bytes are buffered and the call brings %s: the completed block must enter the CBC-MAC' % what,
                      rule=R, extra_hyps=[(Var('len', 'param'), hyp)]))
    # ---- EAX: ptr == 16 means "full block pending", consumed by do_cbcmac_chunk
    s = 'src/aead/eax.c'
    L = irf.Layouts(build.load_unit(s))
    o_ptr, sz = L.field('br_eax_context', 'ptr')[:2]
    mac_buf = buf_arg(s, 'br_eax_context', 'buf', 2)
    NI = ('do_cbcmac_chunk',)
    pend = ALL(E(fold.expect_stores_only, 'ctx->ptr := 16 (full block pending)', 0, o_ptr, {16}),
               E(fold.expect_call_dominates_rets, 'do_cbcmac_chunk on every path', 'do_cbcmac_chunk'))
    for k in (5, 0):
        obs.append(Ob(s, 'br_eax_aad_inject', FieldLoad(0, o_ptr, 'ptr', size=sz), ('pin', k), pend, ('pin', 16),
                      '%d AAD bytes are buffered and the call brings more than the %d missing ones: the block completed in ctx->buf must be marked pending '
                      '(ctx->ptr == 16 is what do_cbcmac_chunk tests) before the rest is processed, or those 16 bytes never reach the tag' % (k, 16 - k),
                      rule=R, noinline=NI, extra_hyps=[(Var('len', 'param'), ('assume', 'ugt', 16 - k))]))
    obs.append(Ob(s, 'br_eax_aad_inject', FieldLoad(0, o_ptr, 'ptr', size=sz), ('pin', 5),
                  E(fold.expect_stores_only, 'ctx->ptr := 16 (full block pending)', 0, o_ptr, {16}), None,
                  '5 AAD bytes are buffered and the call brings exactly the 11 missing ones: the full block is left pending', rule=R, noinline=NI,
                  extra_hyps=[(Var('len', 'param'), ('assume', 'eq', 11))]))
    obs.append(Ob(s, 'do_cbcmac_chunk', FieldLoad(0, o_ptr, 'ptr', size=sz), ('pin', 16),
                  onpath(mac_buf, 'CBC-MAC is applied to ctx->buf on every path'), ('pin', 5),
                  'a pending full block is authenticated before any further data', rule=R, extra_hyps=[(Var('len', 'param'), ('assume', 'ugt', 0))]))
    oblig.run_obligations(chk, obs)


def authenticated_bytes(chk):
    """GCM and EAX authenticate the ciphertext, CCM the plaintext (SP 800-38D 7, EAX 2, SP 800-38C 6): when run() completes a
    partially filled block across calls, the bytes it parks in ctx->buf for the authenticator must be the ciphertext (GCM, EAX) or
    the plaintext (CCM) in *both* directions.  Decided by partial evaluation of the three run() functions with 5 bytes already in the
    block, 3 more supplied, encrypt fixed to 1 and to 0."""
    from ..oblig import FieldLoad
    R = 'aead-authenticated-bytes'
    n = 0
    for mode, src, st, statef, auth in (('gcm', 'src/aead/gcm.c', 'br_gcm_context', 'count_ctr', 'ciphertext'),
                                        ('eax', 'src/aead/eax.c', 'br_eax_context', 'ptr', 'ciphertext'),
                                        ('ccm', 'src/aead/ccm.c', 'br_ccm_context', 'ptr', 'plaintext')):
        U = oblig.funit(src)
        L = irf.Layouts(U.unit)
        fn = 'br_%s_run' % mode
        F = U.func(fn)
        o_state = L.field(st, statef)[0]
        o_buf = L.field(st, 'buf')[0]
        loads = U.field_loads(fn, 0, o_state)
        if not loads:
            raise AnalysisBroken('%s: no load of %s' % (fn, statef))
        for enc in (1, 0):
            hy = [dict(kind='pin', n=x['n'], value=5) for x in loads]
            hy.append(dict(kind='assume', n=F.f['params'][3]['n'], ty=F.f['params'][3]['ty'], pred='eq', value=3, param=True))
            hy.append(dict(kind='assume', n=F.f['params'][1]['n'], ty=F.f['params'][1]['ty'], pred='eq', value=enc, param=True))
            Fo = U.optimise(fn, hy, (), 'default<O1>')

            def strip(o):
                while o['k'] == 'i' and Fo.insts[o['v']]['op'] in ('zext', 'sext', 'trunc'):
                    o = Fo.insts[o['v']]['ops'][0]
                if o['k'] == 'i' and Fo.insts[o['v']]['op'] == 'and' and any(q['k'] == 'c' and q['v'] == 255 for q in Fo.insts[o['v']]['ops']):
                    return strip(next(q for q in Fo.insts[o['v']]['ops'] if q['k'] != 'c'))
                return o

            def is_load_of(o, base, off):
                o = strip(o)
                if o['k'] != 'i' or Fo.insts[o['v']]['op'] != 'load':
                    return False
                b, of = Fo.addr_of(Fo.insts[o['v']]['ops'][0])
                return b == base and of == off
            kinds = {}
            for i in Fo.insts.values():
                if i['op'] != 'store':
                    continue
                b, of = Fo.addr_of(i['ops'][1])
                if b != {'k': 'a', 'v': 0} or of is None or not (o_buf + 5 <= of < o_buf + 8):
                    continue
                u = of - o_buf - 5
                v = strip(i['ops'][0])
                if is_load_of(v, {'k': 'a', 'v': 2}, u):
                    kinds[u] = 'input'
                elif v['k'] == 'i' and Fo.insts[v['v']]['op'] == 'xor' and \
                        any(is_load_of(q, {'k': 'a', 'v': 2}, u) for q in Fo.insts[v['v']]['ops']) and \
                        any(is_load_of(q, {'k': 'a', 'v': 0}, of) for q in Fo.insts[v['v']]['ops']):
                    kinds[u] = 'output'
                else:
                    kinds[u] = 'other'
            want = 'output' if (auth == 'ciphertext') == bool(enc) else 'input'
            n += 1
            inst = '%s (%s): the bytes parked for the authenticator are the %s (= the %s bytes of this call)' % (fn, 'encrypt' if enc else 'decrypt', auth, want)
            if kinds == {0: want, 1: want, 2: want}:
                chk.ok(R, inst, src)
            else:
                chk.violation(R, inst, src, 'with 5 bytes buffered and 3 supplied, ctx->buf[5..8) receives %s bytes: the tag is computed over the wrong text for a block '
                              'that straddles two run() calls' % (kinds or 'no'), key='%s %s %d' % (R, mode, enc))
    chk.floor('authenticated-text cases', n, 6)


def reset_history_free(chk):
    """An AEAD context is keyed once and then reset for every message: what reset() computes (J0, the OMAC states, B0 and the tag mask)
    must not depend on what the previous message left in the context.  sa/resetflow.py: on every path through br_gcm_reset,
    br_eax_reset and br_ccm_reset (callees that receive the context are followed in the caller's state) no field that a
    message-processing function may write is read -- loaded, copied from, or handed by pointer to a callee such as GHASH or the
    CBC-MAC -- before reset has written it.  br_eax_reset_pre_aad / _post_aad are covered too: their cleanliness depends on
    `len != 0` in the caller implying the buffer copy in do_cbcmac_chunk; the analysis carries zero / non-zero facts about parameters
    from a caller's branch into the callee."""
    from .. import resetflow
    R = 'aead-reset-history-free'
    n = 0
    for src, st, inits, entry, must_mut in (('src/aead/gcm.c', 'br_gcm_context', ('br_gcm_init',), 'br_gcm_reset', ('y', 'jc', 'count_aad', 'count_ctr', 'buf')),
                                            ('src/aead/eax.c', 'br_eax_context', ('br_eax_init',), 'br_eax_reset', ('cbcmac', 'buf', 'ptr', 'ctr', 'nonce')),
                                            ('src/aead/eax.c', 'br_eax_context', ('br_eax_init',), 'br_eax_reset_pre_aad', ('cbcmac', 'buf', 'ptr', 'ctr', 'nonce')),
                                            ('src/aead/eax.c', 'br_eax_context', ('br_eax_init',), 'br_eax_reset_post_aad', ('cbcmac', 'buf', 'ptr', 'ctr', 'nonce')),
                                            ('src/aead/ccm.c', 'br_ccm_context', ('br_ccm_init',), 'br_ccm_reset', ('cbcmac', 'buf', 'ptr', 'ctr', 'tagmask'))):
        RF = resetflow.ResetFlow(src, st, inits)
        miss = [f for f in must_mut if f not in RF.mutable]
        if miss:
            raise AnalysisBroken('%s: fields %s are no longer recognised as written by message processing' % (st, miss))
        ex = RF.run(entry)
        if RF.reads < 3:
            raise AnalysisBroken('%s: only %d context reads seen' % (entry, RF.reads))
        n += 1
        inst = '%s: no message-mutable field of %s (%s) is read before the reset has written it' % (entry, st, ', '.join(sorted(RF.mutable)))
        if not ex:
            chk.ok(R, inst, src, '%d reads of the context examined' % RF.reads)
        for f, F, i, path in ex:
            chk.violation(R, inst, F.where(i), 'field `%s` is %s here (call path %s) with whatever the previous message left in it: the second message processed '
                          'with this context gets a different %s than a fresh context would' % (
                              f, 'passed to %s' % (i.get('callee') or 'an indirect call') if i['op'] == 'call' else 'loaded', ' > '.join(path),
                              'counter block / tag' if 'gcm' in src else 'MAC state'), key='%s %s %s' % (R, entry, f))
    chk.floor('aead resets analysed', n, 5)


def mac_restart_sets_fill(chk):
    """EAX keeps (cbcmac, buf, ptr): running CBC-MAC value, pending bytes, their count.  Whenever a new OMAC computation is started by
    overwriting ctx->cbcmac (zeroes, or a saved pre-processed state), the fill count belongs to the *previous* computation: ctx->ptr must be
    assigned before the context is handed to any routine (do_cbcmac_chunk, do_pad read it) and before returning.  Path rule over the
    CFG of every function of eax.c that bulk-writes ctx->cbcmac."""
    R = 'eax-mac-restart-sets-fill'
    s = 'src/aead/eax.c'
    u = build.load_unit(s)
    L = irf.Layouts(u)
    fc, fp = L.field('br_eax_context', 'cbcmac'), L.field('br_eax_context', 'ptr')
    if fc is None or fp is None:
        raise AnalysisBroken('br_eax_context.cbcmac / ptr vanished')
    n = 0
    for f in u['functions']:
        if not f.get('blocks'):
            continue
        F = irf.Func(u, f)
        if not f['params'] or 'br_eax_context' not in f['params'][0]['ty']:
            continue
        ctx = {'k': 'a', 'v': 0}

        def is_ctx_field(o, fld):
            if o['k'] not in ('i', 'a'):
                return False
            b, off = F.addr_of(o)
            return b == ctx and off == fld[0]
        starts = [i for i in F.insts.values() if i['op'] == 'call' and (i.get('callee') or '').startswith(('llvm.memcpy', 'llvm.memset'))
                  and is_ctx_field(i['ops'][0], fc)]
        for st in starts:
            n += 1
            inst = '%s: after ctx->cbcmac is overwritten (line %s), ctx->ptr is assigned before the context is used or the function returns' % (F.name, st.get('line'))
            # forward search
            bad = None
            b0 = F.block_of[st['id']]
            work = [(b0, F.order[st['id']])]
            seen = set()
            while work and bad is None:
                b, after = work.pop()
                blk = next(x for x in F.blocks if x['id'] == b)
                done = False
                for i in blk['insts']:
                    if F.order[i['id']] <= after:
                        continue
                    if i['op'] == 'store' and is_ctx_field(i['ops'][1], fp):
                        done = True
                        break
                    if i['op'] == 'call' and not (i.get('callee') or '').startswith('llvm.') and any(
                            o['k'] in ('i', 'a') and F.addr_of(o) == (ctx, 0) for o in i['ops']):
                        bad = 'the context reaches %s() at line %s' % (i.get('callee') or 'an indirect call', i.get('line'))
                        break
                    if i['op'] == 'ret':
                        bad = 'the function returns at line %s' % i.get('line')
                        break
                if done or bad:
                    continue
                for sb in F.succ[b]:
                    if sb not in seen:
                        seen.add(sb)
                        work.append((sb, -1))
            if bad is None:
                chk.ok(R, inst, F.where(st))
            else:
                chk.violation(R, inst, F.where(st), bad + ' with the fill count of the previous computation: bytes left in ctx->buf are '
                              'authenticated as if they belonged to the new input', key='%s %s %s' % (R, F.name, starts.index(st)))
    chk.floor('MAC restarts', n, 4)


def run(tier):
    chk = report.Check('C14', tier,
                       'Static: br_ccm_reset returns 0 (and reaches no block-cipher call) under each forbidden parameter range of RFC 3610 / '
                       'SP 800-38C (nonce < 7, > 13, tag < 4, > 16, odd tag, length not representable); the tag verdict of GCM, EAX and CCM is '
                       'EQ0 of an OR-accumulation of computed[u] ^ caller[u] over the full requested length, the computed tag being the buffer '
                       'filled by get_tag; check_tag delegates to check_tag_trunc with 16; in the AAD injection of the three modes a block completed across calls always '
                       'reaches the authenticator (GHASH / CBC-MAC), directly or through the mode\'s pending-block state; a block straddling two run() calls is authenticated as ciphertext (GCM, EAX) / plaintext (CCM) in both directions. NOT decided: ciphertext/tag values, '
                       'full call-splitting invariance (only the block-completion step), decrypt-inverts-encrypt.',
                       trusted=['clang/opt 14', 'sa/fold.py'])
    s = 'src/aead/ccm.c'
    R = 'ccm-reset-params'
    f = 'br_ccm_reset'
    bad = ALL(RET(0), no_icall())
    obs = [
        Ob(s, f, Var('nonce_len', 'param'), ('assume', 'ult', 7), bad, ('assume', 'eq', 12), 'nonce shorter than 7', rule=R),
        Ob(s, f, Var('nonce_len', 'param'), ('assume', 'ugt', 13), bad, ('assume', 'eq', 13), 'nonce longer than 13', rule=R),
        Ob(s, f, Var('tag_len', 'param'), ('assume', 'ult', 4), bad, ('assume', 'eq', 8), 'tag shorter than 4', rule=R),
        Ob(s, f, Var('tag_len', 'param'), ('assume', 'ugt', 16), bad, ('assume', 'eq', 16), 'tag longer than 16', rule=R),
        Ob(s, f, Var('tag_len', 'param'), ('assume', 'ne', 0, 1), bad, ('assume', 'eq', 0, 1), 'odd tag length', rule=R),
        Ob(s, f, Var('data_len', 'loopexit'), ('assume', 'ne', 0), bad, ('assume', 'eq', 0), 'data length not representable in 15-nonce_len bytes', rule=R),
    ]
    # SP 800-38C A.2.2 encoding of the associated-data length
    u = build.load_unit(s)
    from .. import irf as _irf
    L = _irf.Layouts(u)
    optr = L.field('br_ccm_context', 'ptr')[0]
    obuf = L.field('br_ccm_context', 'buf')[0]
    R = 'ccm-aad-length-encoding'
    okargs = [(Var('nonce_len', 'param'), ('assume', 'eq', 12)), (Var('tag_len', 'param'), ('assume', 'eq', 16)), (Var('data_len', 'param'), ('assume', 'ult', 1000))]

    def enc(ptr, b0=None, b1=None):
        es = [E(fold.expect_stores_only, 'ctx->ptr := %d' % ptr, 0, optr, {ptr})]
        if b0 is not None:
            es.append(E(fold.expect_stores_only, 'buf[0] := 0x%02X' % b0, 0, obuf, {b0, b0 - 256}))
            es.append(E(fold.expect_stores_only, 'buf[1] := 0x%02X' % b1, 0, obuf + 1, {b1, b1 - 256}))
        return ALL(*es)
    obs += [
        Ob(s, f, Var('aad_len', 'param'), ('assume', 'eq', 0), enc(0), None, 'no AAD: no length header', rule=R, extra_hyps=okargs),
        Ob(s, f, Var('aad_len', 'param'), ('assume', 'ult', 0xFF00), enc(2), None, '0 < a < 2^16-2^8: 2-byte length', rule=R,
           extra_hyps=okargs + [(Var('aad_len', 'param'), ('assume', 'ugt', 0))]),
        Ob(s, f, Var('aad_len', 'param'), ('assume', 'uge', 0xFF00), enc(6, 0xFF, 0xFE), None, '2^16-2^8 <= a < 2^32: FF FE + 32-bit length', rule=R,
           extra_hyps=okargs + [(Var('aad_len', 'param'), ('assume', 'ult', 1 << 32))]),
        Ob(s, f, Var('aad_len', 'param'), ('assume', 'uge', 1 << 32), enc(10, 0xFF, 0xFF), None, 'a >= 2^32: FF FF + 64-bit length', rule=R, extra_hyps=okargs),
    ]
    R = 'aead-check-tag'
    obs += [
        Ob('src/aead/gcm.c', 'br_gcm_check_tag', Call('br_gcm_check_tag_trunc', pred=lambda F, i: i['ops'][2] == {'k': 'c', 'v': 16, 'w': 64}),
           ('pin', 0), RET(0), ('pin', 1), 'full-length verification', rule=R),
        Ob('src/aead/eax.c', 'br_eax_check_tag', Call('br_eax_check_tag_trunc', pred=lambda F, i: i['ops'][2] == {'k': 'c', 'v': 16, 'w': 64}),
           ('pin', 0), RET(0), ('pin', 1), 'full-length verification', rule=R),
    ]
    oblig.run_obligations(chk, obs)
    oblig.run_conjuncts(chk, [
        ('src/aead/gcm.c', 'br_gcm_check_tag_trunc', 'x', 'or', 1, 'tag difference must decide the verdict'),
        ('src/aead/eax.c', 'br_eax_check_tag_trunc', 'x', 'or', 1, 'tag difference must decide the verdict'),
        ('src/aead/ccm.c', 'br_ccm_check_tag', 'z', 'or', 1, 'tag difference must decide the verdict'),
    ], 'aead-verdict-conjunct')
    tag_compare_shape(chk, 'src/aead/gcm.c', 'br_gcm_check_tag_trunc', 'br_gcm_get_tag', 'len')
    tag_compare_shape(chk, 'src/aead/eax.c', 'br_eax_check_tag_trunc', 'br_eax_get_tag', 'len')
    tag_compare_shape(chk, 'src/aead/ccm.c', 'br_ccm_check_tag', 'br_ccm_get_tag', 'get_tag()')
    chunk_completion(chk)
    authenticated_bytes(chk)
    mac_restart_sets_fill(chk)
    reset_history_free(chk)
    from .c12 import x86ni_round_key_chains, bitsliced_ctr_lane_counters
    bitsliced_ctr_lane_counters(chk)  # GCM over the bitsliced AES/CTR back ends
    x86ni_round_key_chains(chk)       # the AES-NI CTR / CTR+CBC-MAC back ends of GCM, CCM and EAX
    # CCM and EAX run on the CTR+CBC-MAC primitives: their counter carry chains decide the ciphertext (shared with C12)
    from .c12 import counter_carry_chains, empty_chunk_is_identity, x86ni_counter_lanes, ghash_pclmul_tail
    ghash_pclmul_tail(chk)
    counter_carry_chains(chk)
    empty_chunk_is_identity(chk)
    x86ni_counter_lanes(chk)
    chk.floor('obligations', len(chk.obls), 18)
    from .. import lints
    lints.length_is_boolean(chk, ['src/aead/'])
    lints.round_down_mask_keeps_high_word(chk, ['src/aead/', 'src/hash/ghash'])   # AAD / data length counters
    lints.word_codec_maps(chk, ['src/hash/ghash', 'src/symcipher/aes_ct_ctrcbc', 'src/symcipher/aes_ct64_ctrcbc'], floor=4)
    from .. import lints as _lints_ir
    _lints_ir.ignored_result_regression(chk, ['src/aead/'])
    return chk.finish()
