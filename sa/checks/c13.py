"""C13 — hash / HMAC / PRF constants and class descriptors against the standards (DESIGN §4 C13)."""
from .. import build, report, tab, irf, fold
from ..build import AnalysisBroken


def cmp_table(chk, rule, unit, gname, ref, what, src):
    got = tab.ints_of_global(unit, gname)
    if got is None:
        raise AnalysisBroken('table %s not found in %s' % (gname, src))
    inst = '%s:%s == %s' % (src.split('/')[-1], gname, what)
    if got == ref:
        chk.ok(rule, inst, src, '%d entries equal the generated reference' % len(ref))
    else:
        bad = [i for i, (a, b) in enumerate(zip(got, ref)) if a != b]
        det = 'length %d vs %d' % (len(got), len(ref)) if len(got) != len(ref) else \
            'entry %d is 0x%X, the standard value is 0x%X (%d entries differ)' % (bad[0], got[bad[0]], ref[bad[0]], len(bad))
        chk.violation(rule, inst, src, det, key='%s %s %s' % (rule, src, gname))


HASHES = {
    # name: (unit, id, out, state, lblen, flags, context type)
    'md5': ('src/hash/md5.c', 1, 16, 16, 6, ('MD',), 'br_md5_context'),
    'sha1': ('src/hash/sha1.c', 2, 20, 20, 6, ('MD', 'BE'), 'br_sha1_context'),
    'sha224': ('src/hash/sha2small.c', 3, 28, 32, 6, ('MD', 'BE'), 'br_sha224_context'),
    'sha256': ('src/hash/sha2small.c', 4, 32, 32, 6, ('MD', 'BE'), 'br_sha256_context'),
    'sha384': ('src/hash/sha2big.c', 5, 48, 64, 7, ('MD', '128', 'BE'), 'br_sha384_context'),
    'sha512': ('src/hash/sha2big.c', 6, 64, 64, 7, ('MD', '128', 'BE'), 'br_sha512_context'),
    'md5sha1': ('src/hash/md5sha1.c', 0, 36, 36, 6, (), 'br_md5sha1_context'),
}


def prf_sites(chk):
    """RFC 5246 8.1 / 6.3: master secret = PRF(pms, "master secret", client_random + server_random)[48],
    key block = PRF(master, "key expansion", server_random + client_random)"""
    R = 'tls-prf-call-shape'
    src = 'src/ssl/ssl_engine.c'
    u = build.load_unit(src)
    L = irf.Layouts(u)
    want = {
        'br_ssl_engine_compute_master': dict(label='master secret', seeds=['client_random', 'server_random'], out='session.master_secret', outlen=48, secret=None),
        'compute_key_block': dict(label='key expansion', seeds=['server_random', 'client_random'], out=None, secret='session.master_secret', secretlen=48),
    }
    for fn, w in want.items():
        f = next((x for x in u['functions'] if x['name'] == fn and not x['decl']), None)
        if f is None:
            raise AnalysisBroken('%s not found in ssl_engine.c' % fn)
        F = irf.Func(u, f)
        calls = [i for i in F.calls() if i.get('callee') is None and i['nargs'] == 7]
        if len(calls) != 1:
            raise AnalysisBroken('%s: expected one indirect PRF call, found %d' % (fn, len(calls)))
        c = calls[0]

        def fieldname(o):
            b, off = F.addr_of(o)
            if b['k'] == 'a' and b['v'] == 0 and off is not None:
                fa = L.field_at('br_ssl_engine_context', off)
                return fa[2] if fa and fa[0] == off else '%s+%d' % (fa[2] if fa else '?', off - (fa[0] if fa else 0))
            return None

        def strof(o):
            while o.get('k') in ('cegep', 'cecast'):
                o = o['base']
            if o.get('k') == 'g':
                v = tab.ints_of_global(u, o['v'])
                return bytes(v).split(b'\0')[0].decode('latin1') if v else None
            return None
        label = strof(c['ops'][4])
        nseed = c['ops'][5]['v'] if c['ops'][5]['k'] == 'c' else None
        sb, so = F.addr_of(c['ops'][6])
        seeds = {}
        for i in F.insts.values():
            if i['op'] == 'store':
                b, off = F.addr_of(i['ops'][1])
                if b == sb and off is not None:
                    seeds[off - (so or 0)] = i['ops'][0]
        sl = []
        for k in range(2):
            d = seeds.get(16 * k)
            ln = seeds.get(16 * k + 8)
            sl.append((fieldname(d) if d else None, ln['v'] if ln and ln['k'] == 'c' else None))
        got = dict(label=label, nseed=nseed, seeds=sl, out=fieldname(c['ops'][0]), outlen=c['ops'][1].get('v'), secret=fieldname(c['ops'][2]),
                   secretlen=c['ops'][3].get('v'))
        exp_seeds = [(x, 32) for x in w['seeds']]
        okk = label == w['label'] and nseed == 2 and sl == exp_seeds
        if w['out']:
            okk = okk and got['out'] == w['out'] and got['outlen'] == w['outlen']
        if w['secret']:
            okk = okk and got['secret'] == w['secret'] and got['secretlen'] == w['secretlen']
        inst = '%s: PRF(label "%s", seed %s)' % (fn, w['label'], ' + '.join(w['seeds']))
        if okk:
            chk.ok(R, inst, F.where(c), str(got))
        else:
            chk.violation(R, inst, F.where(c), 'call shape is %s' % got, key='%s %s' % (R, fn))


def prf_output_cleared(chk):
    """br_tls_phash XORs its stream into the output buffer (that is how TLS 1.0 combines P_MD5 and P_SHA-1), so each PRF entry point must
    clear the whole output first: PRF(secret, label, seed) is then a function of its inputs and not of what the buffer held.  Rule:
    in each of the three PRFs a memset(dst, 0, len) over the dst / len parameters dominates every br_tls_phash call, and
    br_tls_phash itself combines by XOR (its stores to the output are xors with a load of the same address)."""
    R = 'tls-prf-output-cleared'
    n = 0
    for src, fn, calls in (('src/ssl/prf_md5sha1.c', 'br_tls10_prf', 2), ('src/ssl/prf_sha256.c', 'br_tls12_sha256_prf', 1), ('src/ssl/prf_sha384.c', 'br_tls12_sha384_prf', 1)):
        u = build.load_unit(src)
        F = next((irf.Func(u, f) for f in u['functions'] if f['name'] == fn and f.get('blocks')), None)
        if F is None:
            raise AnalysisBroken('%s vanished' % fn)
        DST, LEN = {'k': 'a', 'v': 0}, {'k': 'a', 'v': 1}
        ph = F.calls('br_tls_phash')
        if len(ph) != calls:
            raise AnalysisBroken('%s: %d br_tls_phash calls (expected %d)' % (fn, len(ph), calls))
        ms = [c for c in F.calls() if (c.get('callee') or '').startswith(('llvm.memset', 'memset')) and F.strip_casts(c['ops'][0]) == DST
              and c['ops'][1].get('v') == 0 and F.strip_casts(c['ops'][2]) == LEN]
        n += 1
        inst = '%s: the output buffer is zeroed over its whole length before the XOR-accumulating P_hash runs' % fn
        bad = [c for c in ph if not (F.strip_casts(c['ops'][0]) == DST and F.strip_casts(c['ops'][1]) == LEN and any(F.dominates(m['id'], c['id']) for m in ms))]
        if bad:
            chk.violation(R, inst, F.where(bad[0]), 'no memset(dst, 0, len) dominates this br_tls_phash call: the PRF output is XORed with the previous contents of '
                          'the buffer (a reused key-block or verify_data buffer gives a different result than a fresh one)', key='%s %s' % (R, fn))
        else:
            chk.ok(R, inst, F.where(ph[0]))
    u = build.load_unit('src/ssl/prf.c')
    F = next((irf.Func(u, f) for f in u['functions'] if f['name'] == 'br_tls_phash' and f.get('blocks')), None)
    if F is None:
        raise AnalysisBroken('br_tls_phash vanished')
    n += 1
    inst = 'br_tls_phash: output bytes are combined by XOR with the buffer contents'
    xs = []
    for i in F.insts.values():
        if i['op'] != 'store':
            continue
        v = F.strip_casts(i['ops'][0])
        if v['k'] == 'i' and F.insts[v['v']]['op'] == 'xor':
            for o in F.insts[v['v']]['ops']:
                o = F.strip_casts(o)
                if o['k'] == 'i' and F.insts[o['v']]['op'] == 'load' and F.strip_casts(F.insts[o['v']]['ops'][0]) == F.strip_casts(i['ops'][1]):
                    xs.append(i)
    if xs:
        chk.ok(R, inst, F.where(xs[0]))
    else:
        chk.violation(R, inst, F.where(), 'no `buf[u] ^= ...` store found: the TLS 1.0 PRF (P_MD5 xor P_SHA-1) relies on it', key=R + ' phash')
    chk.floor('prf output rules', n, 4)


def hmac_drbg_empty_seed(chk):
    """SP 800-90A 10.1.2.2 step 3: the second (0x01) round of HMAC_DRBG_Update is skipped when the provided data is *empty*.  The test is
    on the length: a non-NULL pointer with length 0 is an empty input too (RFC 6979 callers and wrappers pass such pairs)."""
    R = 'hmac-drbg-empty-seed'
    src = 'src/rand/hmac_drbg.c'
    u = build.load_unit(src)
    F = next((irf.Func(u, f) for f in u['functions'] if f['name'] == 'br_hmac_drbg_update' and f.get('blocks')), None)
    if F is None:
        raise AnalysisBroken('br_hmac_drbg_update vanished')
    SEED, LEN = {'k': 'a', 'v': 1}, {'k': 'a', 'v': 2}
    cm = [i for i in F.insts.values() if i['op'] == 'icmp' and i['pred'] in ('eq', 'ne') and F.strip_casts(i['ops'][0]) in (SEED, LEN)
          and (i['ops'][1]['k'] == 'c' or i['ops'][1]['k'] == 'null' or i['ops'][1].get('v') in (0, None))]
    inst = 'br_hmac_drbg_update: the early exit after the first round tests the seed length against 0'
    onlen = [i for i in cm if F.strip_casts(i['ops'][0]) == LEN]
    onptr = [i for i in cm if F.strip_casts(i['ops'][0]) == SEED]
    if onlen and not onptr:
        chk.ok(R, inst, F.where(onlen[0]))
    elif not cm:
        raise AnalysisBroken('br_hmac_drbg_update: early-exit test not found')
    else:
        chk.violation(R, inst, F.where((onptr or cm)[0]), 'the test is on the seed pointer: an empty seed given with a non-NULL pointer runs the second round, every later '
                      'output differs from SP 800-90A', key=R)


def tls10_prf_shape(chk):
    """RFC 2246 5: PRF(secret, label, seed) = P_MD5(S1, ...) XOR P_SHA-1(S2, ...), S1 / S2 = first / last ceil(L/2) bytes of the secret"""
    R = 'tls-prf-call-shape'
    src = 'src/ssl/prf_md5sha1.c'
    u = build.load_unit(src)
    f = next((x for x in u['functions'] if x['name'] == 'br_tls10_prf' and not x['decl']), None)
    if f is None:
        raise AnalysisBroken('br_tls10_prf not found')
    F = irf.Func(u, f)
    ph = F.calls('br_tls_phash')
    inst = 'br_tls10_prf: P_MD5 over the first and P_SHA-1 over the last ceil(L/2) secret bytes'
    if len(ph) != 2:
        chk.violation(R, inst, F.where(), '%d calls of br_tls_phash (expected 2)' % len(ph), key='%s tls10 count' % R)
        return

    def expr(o, depth=0):
        if o['k'] == 'c':
            return str(o['v'])
        if o['k'] == 'a':
            return 'arg%d' % o['v']
        if o['k'] in ('g', 'f'):
            return '@' + o['v']
        if o['k'] in ('cegep', 'cecast'):
            return expr(o['base'], depth + 1)
        if o['k'] != 'i' or depth > 8:
            return '?'
        i = F.insts[o['v']]
        if i['op'] in ('zext', 'sext', 'trunc', 'bitcast'):
            return expr(i['ops'][0], depth + 1)
        if i['op'] in ('add', 'sub', 'lshr', 'shl'):
            return '%s(%s,%s)' % (i['op'], expr(i['ops'][0], depth + 1), expr(i['ops'][1], depth + 1))
        if i['op'] == 'getelementptr':
            parts = [expr(i['ops'][0], depth + 1)] + [('%d*' % sc if sc != 1 else '') + expr(vo, depth + 1) for vo, sc in (i.get('var') or [])]
            if i.get('off'):
                parts.append(str(i['off']))
            return '+'.join(parts)
        return '?' + i['op']
    half = 'lshr(add(arg3,1),1)'
    got = [(expr(c['ops'][2]), expr(c['ops'][3]), expr(c['ops'][4])) for c in ph]
    want = [('@br_md5_vtable', 'arg2', half), ('@br_sha1_vtable', None, half)]
    okk = got[0] == want[0] and got[1][0] == want[1][0] and got[1][2] == half
    # S2 = secret + (L - ceil(L/2)): two GEP terms arg3 and -slen
    s2 = got[1][1]
    okk = okk and s2.startswith('arg2') and 'arg3' in s2 and (half in s2)
    if okk:
        chk.ok(R, inst, F.where(ph[0]), str(got))
    else:
        chk.violation(R, inst, F.where(ph[0]), 'call shapes are %s; RFC 2246 requires (MD5, secret, (L+1)>>1) and (SHA-1, secret + L - ((L+1)>>1), (L+1)>>1)' % (got,),
                      key='%s br_tls10_prf' % R)


def hmac_ct_window(chk):
    """br_hmac_outCT (the HMAC that hides the data length): the loop bound km and the capture index kz are the same padding formula
    applied to max_len and to len -- round_up(kr + x + po, bs) - kr, minus one for kz -- kl is 8 bytes below the end of the last
    block, and po is the minimal Merkle-Damgard padding: 1 + 8 bytes, or 1 + 16 for the 128-byte-block functions."""
    from .. import sym
    R = 'hmac-ct-window'
    src = 'src/mac/hmac_ct.c'
    u = build.load_unit(src)
    F = irf.Units({'u': u}).func('br_hmac_outCT')
    if F is None:
        raise AnalysisBroken('br_hmac_outCT vanished')
    S = sym.Sym(F, leaf_vars=('kr', 'po', 'bs', 'len', 'max_len', 'count'))
    kz, kl, km = S.of_var('kz'), S.of_var('kl'), S.of_var('km')
    if None in (kz, kl, km):
        raise AnalysisBroken('br_hmac_outCT: variables kz / kl / km not found in the debug information')
    inst = 'br_hmac_outCT: km is kz + 1 with max_len in place of len'
    if sym.subst(km, {'max_len': 'len'}) == sym.add_const(kz, 1) and km != sym.add_const(kz, 1):
        chk.ok(R, inst, src, 'kz = %s' % sym.show(kz))
    else:
        chk.violation(R, inst, src, 'km = %s but kz = %s: the number of processed bytes and the index at which the state is captured follow different '
                      'padding rules, so for some (len, max_len) the capture point lies outside the loop or at a wrong block' % (sym.show(km), sym.show(kz)),
                      key='%s km-kz' % R)
    inst = 'br_hmac_outCT: kl = kz - 7 (start of the 64-bit length field)'
    if kl == sym.add_const(kz, -7):
        chk.ok(R, inst, src)
    else:
        chk.violation(R, inst, src, 'kl = %s' % sym.show(kl), key='%s kl' % R)
    # the formula itself: round_up(kr + len + po, bs) - 1 - kr
    want = None
    for k, v in kz[1]:
        if isinstance(k, tuple) and k[0] == 'op' and k[1] == 'and' and v == 1:
            want = k
    inst = 'br_hmac_outCT: kz = ((kr + len + po + bs - 1) & ~(bs - 1)) - 1 - kr'
    okk = False
    if want is not None and kz[2] == -1 and dict(kz[1]).get(('var', 'kr')) == -1 and len(kz[1]) == 2:
        kids = want[2:]
        summ = S.aff({('var', 'kr'): 1, ('var', 'len'): 1, ('var', 'po'): 1, ('var', 'bs'): 1}, -1)
        mask = S.atom(('op', 'xor') + tuple(sorted((S.aff({('var', 'bs'): 1}, -1), S.aff({}, -1)), key=repr)))
        mask2 = S.atom(('op', 'xor') + tuple(sorted((S.aff({('var', 'bs'): 1}, -1), S.aff({}, 0xFFFFFFFF)), key=repr)))
        okk = summ in kids and (mask in kids or mask2 in kids)
    if okk:
        chk.ok(R, inst, src)
    else:
        chk.violation(R, inst, src, 'kz = %s' % sym.show(kz), key='%s kz' % R)
    # po
    po_defs = [i for b in F.blocks for i in b['insts'] if i['op'] == 'dbgvalue' and i['var'] == 'po']
    vals = set()
    for d in po_defs:
        o = d['ops'][0]
        if o['k'] == 'c':
            vals.add(o['v'])
        elif o['k'] == 'i':
            cs = fold._const_set(F, o)
            if cs:
                vals |= cs
            else:
                t = S.sym(o, top=True)
                if t[0] == 'aff' and not t[1]:
                    vals.add(t[2])
    # dbg.value of constants is not recorded by irdump: recover from the phi feeding kz
    for i in F.insts.values():
        if i['op'] == 'phi' and S.names.get(('i', i['id'])) == 'po':
            for x in i['ops']:
                t = S.sym(x, top=True)
                if t[0] == 'aff' and not t[1]:
                    vals.add(t[2])
    inst = 'br_hmac_outCT: po is 9 (64-bit length) or 17 (128-bit length)'
    if vals == {9, 17}:
        chk.ok(R, inst, src)
    else:
        chk.violation(R, inst, src, 'po takes the values %s' % sorted(vals), key='%s po' % R)


def hmac_key_rules(chk):
    """RFC 2104 2: a key longer than the block size B is first hashed; a key of at most B bytes (B included) is used as is, padded with
    zeros; inner / outer pads are 0x36 / 0x5C.  Decided by partial evaluation of br_hmac_key_init with the hash descriptor of SHA-256
    (B = 64) and SHA-384 (B = 128) and the key length fixed just below, at and just above B."""
    from .. import oblig
    R = 'hmac-key-processing'
    src = 'src/mac/hmac.c'
    U = oblig.funit(src)
    fn = 'br_hmac_key_init'
    F = U.func(fn)
    bs_calls = U.call_sites(fn, callee='block_size')
    ds_calls = U.call_sites(fn, callee='br_digest_size')
    if not bs_calls or not ds_calls:
        raise AnalysisBroken('br_hmac_key_init: block_size() / br_digest_size() calls not found')
    pk = F.f['params'][3]
    n = 0
    for g, B, H in (('br_sha256_vtable', 64, 32), ('br_sha384_vtable', 128, 48)):
        for klen in (B - 1, B, B + 1):
            hy = [dict(kind='pin', n=x['n'], value=B) for x in bs_calls] + [dict(kind='pin', n=x['n'], value=H) for x in ds_calls]
            hy.append(dict(kind='assume', n=pk['n'], ty=pk['ty'], pred='eq', value=klen, param=True))
            Fo = U.optimise(fn, hy, ('process_key', 'block_size', 'br_digest_size'))
            calls = [c for c in fold._reach_insts(Fo) if c['op'] == 'call' and c.get('callee') == 'process_key']
            inst = 'br_hmac_key_init (%s, B = %d): key of %d bytes is %s' % (g[3:-7], B, klen, 'hashed first' if klen > B else 'used as is')
            n += 1
            det = []
            okk = len(calls) == 2
            for c in calls:
                kp, kl, bb = c['ops'][2], c['ops'][3], c['ops'][4]
                b, _o = Fo.addr_of(kp)
                direct = (b == {'k': 'a', 'v': 2})
                ln = kl['v'] if kl['k'] == 'c' else None
                det.append('%s key, %s bytes, pad 0x%02X' % ('caller' if direct else 'digested', ln, bb['v'] & 0xFF if bb['k'] == 'c' else -1))
                if klen > B:
                    okk = okk and (not direct) and ln == H
                else:
                    okk = okk and direct and ln == klen
            pads = sorted(c['ops'][4]['v'] & 0xFF for c in calls if c['ops'][4]['k'] == 'c')
            okk = okk and pads == [0x36, 0x5C]
            if okk:
                chk.ok(R, inst, src, '; '.join(det))
            else:
                chk.violation(R, inst, src, 'process_key is called with: %s' % '; '.join(det), key='%s %s %d' % (R, g, klen))
    chk.floor('HMAC key cases', n, 6)


def md_padding(chk):
    """Merkle-Damgard strengthening (RFC 1321 3.1-3.2, FIPS 180-4 5.1): after the message bytes come 0x80, zeros up to the length
    field, and the message length in bits -- 64-bit little-endian for MD5, 64-bit big-endian for SHA-1/224/256, 128-bit big-endian for
    SHA-384/512; one extra block when fewer than 1 + field bytes remain.  Decided by partial evaluation of the out() functions with
    the byte count pinned (small, just below / at / above the two-block threshold): the straight-line result is interpreted over a
    byte image of the local block buffer, and the image handed to each compression call is compared with the reference."""
    from .. import oblig
    R = 'md-padding'
    CASES = [
        ('src/hash/md5.c', 'br_md5_out', 'br_md5_context', 64, 8, ['le'], ['br_md5_round']),
        ('src/hash/sha1.c', 'br_sha1_out', 'br_sha1_context', 64, 8, ['be'], ['br_sha1_round']),
        ('src/hash/sha2small.c', 'sha2small_out', 'br_sha224_context', 64, 8, ['be'], ['br_sha2small_round']),
        ('src/hash/sha2big.c', 'sha2big_out', 'br_sha384_context', 128, 16, ['be'], ['sha2big_round']),
        ('src/hash/md5sha1.c', 'br_md5sha1_out', 'br_md5sha1_context', 64, 8, ['le', 'be'], ['br_md5_round', 'br_sha1_round']),
    ]
    n = 0
    for src, fn, st, B, LF, ends, rounds in CASES:
        U = oblig.funit(src)
        if fn not in U.funcs:
            raise AnalysisBroken('%s vanished from %s' % (fn, src))
        L = irf.Layouts(U.unit)
        o_cnt = L.field(st, 'count')[0]
        loads = U.field_loads(fn, 0, o_cnt)
        if not loads:
            raise AnalysisBroken('%s: no load of count' % fn)
        for cnt in (3, B - LF - 1, B - LF, B - 1, 3 * B + 5):
            hy = [dict(kind='pin', n=x['n'], value=cnt) for x in loads]
            Fo = U.optimise(fn, hy, tuple(rounds))
            reach = Fo.reachable()
            blocks = [b for b in Fo.blocks if b['id'] in reach]
            inst = '%s: padding of a %d-byte message (%d bytes in the last block)' % (fn, cnt, cnt % B)
            if len(blocks) != 1:
                continue        # not reduced to straight-line code: not judged
            bufs = [i for i in Fo.insts.values() if i['op'] == 'alloca' and i.get('size') == B]
            if len(bufs) != 1:
                continue
            bid = bufs[0]['id']
            img = ['?'] * B
            snaps = []

            def put(off, ln, val):
                for k in range(ln):
                    if 0 <= off + k < B:
                        img[off + k] = val(k) if callable(val) else val
            for i in blocks[0]['insts']:
                if i['op'] == 'store':
                    b, o = Fo.addr_of(i['ops'][1])
                    if b == {'k': 'i', 'v': bid} and o is not None:
                        v, sz = i['ops'][0], i.get('size', 1)
                        if v['k'] == 'c' and v['v'] is not None:
                            put(o, sz, lambda k, vv=v['v']: (vv >> (8 * k)) & 0xFF)
                        elif v['k'] == 'i' and Fo.insts[v['v']]['op'] == 'call' and (Fo.insts[v['v']].get('callee') or '').startswith('llvm.bswap') \
                                and Fo.insts[v['v']]['ops'][0]['k'] == 'c':
                            vv = Fo.insts[v['v']]['ops'][0]['v']
                            put(o, sz, lambda k, vv=vv, sz=sz: (vv >> (8 * (sz - 1 - k))) & 0xFF)
                        else:
                            put(o, sz, '?')
                elif i['op'] == 'call':
                    cal = i.get('callee') or ''
                    if cal.startswith('llvm.memset'):
                        b, o = Fo.addr_of(i['ops'][0])
                        if b == {'k': 'i', 'v': bid} and o is not None and i['ops'][2]['k'] == 'c' and i['ops'][1]['k'] == 'c':
                            put(o, i['ops'][2]['v'], i['ops'][1]['v'] & 0xFF)
                    elif cal.startswith('llvm.memcpy') or cal.startswith('llvm.memmove'):
                        b, o = Fo.addr_of(i['ops'][0])
                        if b == {'k': 'i', 'v': bid} and o is not None and i['ops'][2]['k'] == 'c':
                            sb, so = Fo.addr_of(i['ops'][1])
                            put(o, i['ops'][2]['v'], 'M' if sb == {'k': 'a', 'v': 0} else '?')
                    elif cal in rounds:
                        snaps.append((cal, list(img)))
                    elif cal in ('br_enc64be', 'br_enc64le', 'br_enc32be', 'br_enc32le'):
                        b, o = Fo.addr_of(i['ops'][0])
                        if b == {'k': 'i', 'v': bid} and o is not None and i['ops'][1]['k'] == 'c':
                            sz = 8 if '64' in cal else 4
                            vv = i['ops'][1]['v']
                            if cal.endswith('be'):
                                put(o, sz, lambda k, vv=vv, sz=sz: (vv >> (8 * (sz - 1 - k))) & 0xFF)
                            else:
                                put(o, sz, lambda k, vv=vv: (vv >> (8 * k)) & 0xFF)
            # reference images
            ptr = cnt % B
            bits = cnt * 8
            refs = []
            for ri, rname in enumerate(rounds):
                end = ends[ri] if len(ends) > 1 else ends[0]
                lf = [(bits >> (8 * (LF - 1 - k))) & 0xFF for k in range(LF)] if end == 'be' else \
                     [(bits >> (8 * k)) & 0xFF for k in range(8)] + [0] * (LF - 8)
                b1 = ['M'] * ptr + [0x80]
                if ptr + 1 > B - LF:
                    b1 = b1 + [0] * (B - len(b1))
                    refs.append((rname, 0, b1))
                    refs.append((rname, 1, [0] * (B - LF) + lf))
                else:
                    b1 = b1 + [0] * (B - LF - len(b1)) + lf
                    refs.append((rname, 0, b1))
            want = sorted(refs, key=lambda r: (r[1], rounds.index(r[0])))
            want = [(r[0], r[2]) for r in want]
            n += 1
            if snaps == want:
                chk.ok(R, inst, src, '%d compression call(s) see the reference block image' % len(snaps))
            else:
                k = next((j for j in range(min(len(snaps), len(want))) if snaps[j] != want[j]), None)
                det = '%d compression calls, reference has %d' % (len(snaps), len(want))
                if k is not None:
                    pos = next((q for q in range(B) if snaps[k][1][q] != want[k][1][q]), None)
                    det = 'block #%d handed to %s differs from the reference at byte %s: %s vs %s' % (k, snaps[k][0], pos,
                          snaps[k][1][pos] if pos is not None else snaps[k][0], want[k][1][pos] if pos is not None else want[k][0])
                chk.violation(R, inst, src, det, key='%s %s %d' % (R, fn, cnt))
    chk.floor('padding cases evaluated', n, 20)


def md_update(chk):
    """update(): input is appended to the block buffer at count mod B; each time the buffer fills, exactly one compression call runs
    over it; the remainder stays buffered; count grows by the input length -- whatever the split.  Decided by partial evaluation with
    (count, len) pinned around the block boundary: the optimised straight-line code must be the reference sequence of
    copies / compression calls, and count += len."""
    from .. import oblig
    R = 'md-update-chunking'
    CASES = [
        ('src/hash/md5.c', 'br_md5_update', 'br_md5_context', 64, ['br_md5_round']),
        ('src/hash/sha1.c', 'br_sha1_update', 'br_sha1_context', 64, ['br_sha1_round']),
        ('src/hash/sha2small.c', 'sha2small_update', 'br_sha224_context', 64, ['br_sha2small_round']),
        ('src/hash/sha2big.c', 'sha2big_update', 'br_sha384_context', 128, ['sha2big_round']),
        ('src/hash/md5sha1.c', 'br_md5sha1_update', 'br_md5sha1_context', 64, ['br_md5_round', 'br_sha1_round']),
    ]
    n = 0
    for src, fn, st, B, rounds in CASES:
        U = oblig.funit(src)
        if fn not in U.funcs:
            raise AnalysisBroken('%s vanished from %s' % (fn, src))
        F = U.func(fn)
        L = irf.Layouts(U.unit)
        o_cnt, o_buf = L.field(st, 'count')[0], L.field(st, 'buf')[0]
        loads = [x for x in U.field_loads(fn, 0, o_cnt)]
        if not loads:
            raise AnalysisBroken('%s: no load of count' % fn)
        first = min(loads, key=lambda x: F.order[x['id']])
        plen = F.f['params'][2]
        for cnt, ln in ((0, B), (B - 4, 4), (B - 4, 10), (5, 7), (B - 1, 1), (3 * B + 7, B - 7)):
            hy = [dict(kind='pin', n=first['n'], value=cnt), dict(kind='assume', n=plen['n'], ty=plen['ty'], pred='eq', value=ln, param=True)]
            Fo = U.optimise(fn, hy, tuple(rounds))
            reach = Fo.reachable()
            blocks = [b for b in Fo.blocks if b['id'] in reach]
            if len(blocks) != 1:
                continue
            seq = []
            cstore = None
            for i in blocks[0]['insts']:
                if i['op'] == 'call':
                    cal = i.get('callee') or ''
                    if cal.startswith('llvm.memcpy') or cal.startswith('llvm.memmove'):
                        b, o = Fo.addr_of(i['ops'][0])
                        sb, so = Fo.addr_of(i['ops'][1])
                        if b == {'k': 'a', 'v': 0} and i['ops'][2]['k'] == 'c':
                            seq.append(('copy', o - o_buf, so if sb == {'k': 'a', 'v': 1} else None, i['ops'][2]['v']))
                    elif cal in rounds:
                        b, o = Fo.addr_of(i['ops'][0])
                        seq.append(('round', cal, (o - o_buf) if b == {'k': 'a', 'v': 0} and o is not None else None))
                elif i['op'] == 'store':
                    b, o = Fo.addr_of(i['ops'][1])
                    if b == {'k': 'a', 'v': 0} and o is not None:
                        if o == o_cnt:
                            v = i['ops'][0]
                            if v['k'] == 'c':
                                cstore = (cstore or 0) + (v['v'] - cnt)
                            elif v['k'] == 'i' and Fo.insts[v['v']]['op'] == 'add':
                                a_ = Fo.insts[v['v']]['ops']
                                cs = [q for q in a_ if q['k'] == 'c']
                                ld = [q for q in a_ if q['k'] == 'i' and Fo.insts[q['v']]['op'] == 'load'
                                      and Fo.addr_of(Fo.insts[q['v']]['ops'][0]) == ({'k': 'a', 'v': 0}, o_cnt)]
                                if cs and ld:
                                    cstore = (cstore or 0) + cs[0]['v']
                                else:
                                    cstore = -1 << 40
                            else:
                                cstore = -1 << 40
                        elif o_buf <= o < o_buf + B:
                            # a small copy lowered to scalar load/store: value loaded from data + k
                            v = i['ops'][0]
                            if v['k'] == 'i' and Fo.insts[v['v']]['op'] == 'load':
                                sb, so = Fo.addr_of(Fo.insts[v['v']]['ops'][0])
                                seq.append(('copy', o - o_buf, so if sb == {'k': 'a', 'v': 1} else None, i.get('size', 1)))
            # reference
            want = []
            ptr, pos, rem = cnt % B, 0, ln
            while rem > 0:
                c = min(B - ptr, rem)
                want.append(('copy', ptr, pos, c))
                ptr += c
                pos += c
                rem -= c
                if ptr == B:
                    for r_ in rounds:
                        want.append(('round', r_, 0))
                    ptr = 0
            # merge adjacent scalar copies in the observed sequence
            merged = []
            for e in seq:
                if merged and e[0] == 'copy' and merged[-1][0] == 'copy' and merged[-1][2] is not None and e[2] is not None \
                        and merged[-1][1] + merged[-1][3] == e[1] and merged[-1][2] + merged[-1][3] == e[2]:
                    merged[-1] = ('copy', merged[-1][1], merged[-1][2], merged[-1][3] + e[3])
                else:
                    merged.append(e)
            n += 1
            inst = '%s: count = %d, len = %d' % (fn, cnt, ln)
            if merged == want and cstore == ln:
                chk.ok(R, inst, src, '%d step(s), count += %d' % (len(want), ln))
            else:
                chk.violation(R, inst, src, 'observed %s, count += %s; reference %s, count += %d' % (merged, cstore, want, ln), key='%s %s %d %d' % (R, fn, cnt, ln))
    chk.floor('update cases evaluated', n, 15)


def drbg_rules(chk):
    """SP 800-90A 10.1.2.5: HMAC_DRBG Generate ends with the state update (K, V) := HMAC_DRBG_Update(additional_input, K, V) whatever the
    number of bits requested, including none; the implementation does it with a final HMAC key change.  Decided by FOLD with
    len == 0: the key update (br_hmac_key_init on the stored K) must still lie on every path."""
    from ..oblig import Ob, Var, CALLDOM
    from .. import oblig as _ob
    R = 'drbg-state-update'
    src = 'src/rand/hmac_drbg.c'
    _ob.run_obligations(chk, [
        Ob(src, 'br_hmac_drbg_generate', Var('len', 'param'), ('assume', 'eq', 0), CALLDOM('br_hmac_key_init', desc='br_hmac_key_init (K update) on every path'), None,
           'a request for zero bytes must still advance the generator state, or the sequence of later outputs differs from the specification', rule=R,
           noinline=('br_hmac_key_init', 'br_hmac_init', 'br_hmac_update', 'br_hmac_out')),
        Ob(src, 'br_hmac_drbg_generate', Var('len', 'param'), ('assume', 'eq', 40), CALLDOM('br_hmac_key_init', desc='br_hmac_key_init (K update) on every path'), None,
           'the generator state is advanced after producing output', rule=R,
           noinline=('br_hmac_key_init', 'br_hmac_init', 'br_hmac_update', 'br_hmac_out')),
    ])


def aesctr_drbg_chunking(chk):
    """AESCTR_DRBG: under one key the block counter never goes beyond 32768 (a forced re-key follows), and a chunk is at most 65280
    bytes.  Decided by partial evaluation of one turn of the generate loop with the stored counter and the remaining length pinned to
    boundary values: the length handed to the CTR run must be min(len, 65280, 16 * (32768 - cc)), the counter argument is cc;
    and the re-key (br_aesctr_drbg_update) is called iff the counter returned by the run reaches 32768."""
    from .. import oblig as _o, fold as _f, irf as _irf
    R = 'aesctr-drbg-chunking'
    src = 'src/rand/aesctr_drbg.c'
    fn = 'br_aesctr_drbg_generate'
    U = _o.funit(src)
    if fn not in U.funcs:
        raise AnalysisBroken('%s vanished' % fn)
    F = U.func(fn)
    L = _irf.Layouts(build.load_unit(src))
    cc = L.field('br_aesctr_drbg_context', 'cc')
    if cc is None:
        raise AnalysisBroken('br_aesctr_drbg_context.cc vanished')
    loads = U.field_loads(fn, 0, cc[0], cc[1])
    runs = [i for i in F.insts.values() if i['op'] == 'call' and i.get('callee') is None and len(i['ops']) == 5]
    phis = [F.insts[o['v']] for i, o in _o.dbg_values(F, 'len') if o['k'] == 'i' and F.insts[o['v']]['op'] == 'phi']
    if len(runs) != 1 or not phis or not loads:
        raise AnalysisBroken('%s: CTR run call / loop variable len / loads of cc not identified' % fn)
    before = [l for l in loads if F.order[l['id']] < F.order[runs[0]['id']]]
    after = [l for l in loads if F.order[l['id']] > F.order[runs[0]['id']]]
    if not before or not after:
        raise AnalysisBroken('%s: counter is not read before and after the CTR run' % fn)
    n = 0
    for ccv, lenv in ((32767, 17), (32767, 16), (0, 100000), (0, 65281), (32760, 200), (28688, 65280), (28689, 65280), (1, 15), (32704, 1025), (32704, 1024)):
        want = min(lenv, 65280, 16 * (32768 - ccv))
        hy = [dict(kind='pin', n=l['n'], value=ccv) for l in before] + [dict(kind='pin', n=phis[0]['n'], value=lenv)]
        Fo = U.optimise(fn, hy, ())
        ic = [c for c in _f._reach_insts(Fo) if c['op'] == 'call' and c.get('callee') is None and len(c['ops']) == 5]
        n += 1
        inst = '%s: counter %d, %d bytes wanted => CTR run over %d bytes from counter %d' % (fn, ccv, lenv, want, ccv)
        got = [(c['ops'][2].get('v') if c['ops'][2]['k'] == 'c' else None, c['ops'][4].get('v') if c['ops'][4]['k'] == 'c' else None) for c in ic]
        if got == [(ccv, want)]:
            chk.ok(R, inst, F.where(runs[0]))
        else:
            used = ccv + ((got[0][1] or 0) + 15) // 16 if got and got[0][1] is not None else None
            chk.violation(R, inst, F.where(runs[0]), 'the run is over (counter, length) = %s%s' % (got, '' if used is None or used <= 32768 else
                          ': the counter reaches %d under the same key' % used), key='%s %d %d' % (R, ccv, lenv))
    for ccv, wantcall in ((32768, True), (32767, False), (32769, True)):
        hy = [dict(kind='pin', n=l['n'], value=ccv) for l in after]
        Fo = U.optimise(fn, hy, ('br_aesctr_drbg_update',))
        has = any(c['op'] == 'call' and c.get('callee') == 'br_aesctr_drbg_update' for c in _f._reach_insts(Fo))
        n += 1
        inst = '%s: counter %d after the run => %s' % (fn, ccv, 're-key' if wantcall else 'no re-key')
        if has == wantcall:
            chk.ok(R, inst, F.where(after[0]))
        else:
            chk.violation(R, inst, F.where(after[0]), 'br_aesctr_drbg_update is %s' % ('called' if has else 'not called'), key='%s rekey %d' % (R, ccv))
    chk.floor('aesctr_drbg cases', n, 13)


def shake_lane_complement(chk):
    """The Keccak permutation of shake.c works on the lane-complemented state (Keccak implementation overview 2.2): lanes 1, 2, 8, 12,
    17 and 20 are stored inverted.  The three places that know this must agree: br_shake_init sets exactly those lanes to all-ones
    (complemented zero), and br_shake_produce re-inverts exactly those lanes when it serialises the state, lane k at byte 8k of the
    output block.  A lane missed on output flips 64 bits of every block squeezed."""
    R = 'shake-lane-complement'
    src = 'src/kdf/shake.c'
    u = build.load_unit(src)
    L = irf.Layouts(u)
    oa = L.field('br_shake_context', 'A')
    ob = L.field('br_shake_context', 'dbuf')
    if not oa or not ob:
        raise AnalysisBroken('br_shake_context layout changed')
    REF = [1, 2, 8, 12, 17, 20]
    S = {'k': 'a', 'v': 0}
    Fi = next((irf.Func(u, f) for f in u['functions'] if f['name'] == 'br_shake_init' and f.get('blocks')), None)
    Fp = next((irf.Func(u, f) for f in u['functions'] if f['name'] == 'br_shake_produce' and f.get('blocks')), None)
    if Fi is None or Fp is None:
        raise AnalysisBroken('br_shake_init / br_shake_produce vanished')
    ones = []
    for i in Fi.insts.values():
        if i['op'] == 'store' and i['ops'][0]['k'] == 'c' and i['ops'][0]['v'] == -1:
            b, o = Fi.addr_of(i['ops'][1])
            if b == S and o is not None and oa[0] <= o < oa[0] + oa[1] and (o - oa[0]) % 8 == 0:
                ones.append((o - oa[0]) // 8)
    inst = 'br_shake_init: lanes %s start as all-ones (complemented zero), the others as zero' % REF
    if sorted(ones) == REF and any((c.get('callee') or '').startswith('llvm.memset') for c in Fi.calls()):
        chk.ok(R, inst, src)
    else:
        chk.violation(R, inst, Fi.where(), 'lanes set to all-ones: %s' % sorted(ones), key=R + ' init')
    lanes = {}
    for c in Fp.calls('br_enc64le'):
        b, off = Fp.addr_of(c['ops'][0])
        v = Fp.strip_casts(c['ops'][1])
        inv = False
        if v['k'] == 'i' and Fp.insts[v['v']]['op'] == 'xor' and Fp.insts[v['v']]['ops'][1].get('v') == -1:
            inv = True
            v = Fp.strip_casts(Fp.insts[v['v']]['ops'][0])
        if v['k'] == 'i' and Fp.insts[v['v']]['op'] == 'load':
            lb, lo = Fp.addr_of(Fp.insts[v['v']]['ops'][0])
            if lb == S and lo is not None and oa[0] <= lo < oa[0] + oa[1]:
                db = off - ob[0] if (b == S and off is not None) else None
                lanes[(lo - oa[0]) // 8] = (db, inv, c)
    inst = 'br_shake_produce: all 25 lanes are serialised, lane k at byte 8k of the block, lanes %s re-inverted' % REF
    if len(lanes) != 25:
        raise AnalysisBroken('br_shake_produce: %d lane encodings recognised (expected 25)' % len(lanes))
    badpos = [k for k, (db, inv, c) in lanes.items() if db != 8 * k]
    badinv = sorted(k for k, (db, inv, c) in lanes.items() if inv != (k in REF))
    if badpos or badinv:
        k = (badpos + badinv)[0]
        chk.violation(R, inst, Fp.where(lanes[k][2]), ('lane(s) %s written at the wrong offset' % badpos) if badpos else
                      'lane(s) %s: %s - every squeezed block has those 64-bit lanes complemented' % (badinv, 'not re-inverted' if badinv[0] in REF else 'inverted although stored plain'),
                      key=R + ' produce')
    else:
        chk.ok(R, inst, src)


def shake_rules(chk):
    """SHAKE (FIPS 202): rate = 200 - 2 * (security level in bytes) = 168 / 136; padding is the suffix 1111 followed by pad10*1, i.e.
    byte 0x1F right after the message, zeros, and bit 7 of the last byte of the block set (0x9F when both fall on the same byte);
    the 24 round constants are generated by the degree-8 LFSR of section 3.2.5.  Decided by partial evaluation of br_shake_init /
    br_shake_flip (rate and fill level pinned, byte image of the block buffer when it is XORed into the state) and by TAB."""
    from .. import oblig, fold
    R = 'shake-padding'
    src = 'src/kdf/shake.c'
    U = oblig.funit(src)
    for fn in ('br_shake_flip', 'br_shake_init'):
        if fn not in U.funcs:
            raise AnalysisBroken('%s vanished' % fn)
    L = irf.Layouts(U.unit)
    od, orr, ob, oa = (L.field('br_shake_context', f) for f in ('dptr', 'rate', 'dbuf', 'A'))
    if None in (od, orr, ob, oa):
        raise AnalysisBroken('br_shake_context layout changed')
    # round constants
    def rc_bit(t):
        r = 1
        for _ in range(t % 255):
            r <<= 1
            if r & 0x100:
                r ^= 0x171
        return r & 1
    ref = []
    for ir in range(24):
        v = 0
        for j in range(7):
            if rc_bit(j + 7 * ir):
                v |= 1 << ((1 << j) - 1)
        ref.append(v)
    cmp_table(chk, 'hash-constants', U.unit, 'RC', ref, 'Keccak-f[1600] round constants (LFSR of FIPS 202 3.2.5)', src)
    # init
    F = U.func('br_shake_init')
    n = 0
    for sec, rate in ((128, 168), (256, 136)):
        hy = [dict(kind='assume', n=F.f['params'][1]['n'], ty=F.f['params'][1]['ty'], pred='eq', value=sec, param=True)]
        Fo = U.optimise('br_shake_init', hy, (), 'default<O1>')
        st = {}
        for i in fold._reach_insts(Fo):
            if i['op'] == 'store':
                b, o = Fo.addr_of(i['ops'][1])
                if b == {'k': 'a', 'v': 0} and o in (od[0], orr[0]):
                    st[o] = i['ops'][0].get('v') if i['ops'][0]['k'] == 'c' else '?'
        n += 1
        inst = 'br_shake_init: security level %d => rate %d bytes, empty block' % (sec, rate)
        if st == {od[0]: 0, orr[0]: rate}:
            chk.ok(R, inst, src)
        else:
            chk.violation(R, inst, src, 'rate := %s, dptr := %s' % (st.get(orr[0]), st.get(od[0])), key='%s init %d' % (R, sec))
    # flip
    fn = 'br_shake_flip'
    F = U.func(fn)
    ld = U.field_loads(fn, 0, od[0])
    lr = U.field_loads(fn, 0, orr[0])
    if not ld or not lr:
        raise AnalysisBroken('%s: loads of dptr / rate not found' % fn)
    first = min(ld, key=lambda i: F.order[i['id']])
    for rate, dptr in ((168, 0), (168, 5), (168, 166), (168, 167), (136, 0), (136, 77), (136, 134), (136, 135)):
        hy = [dict(kind='assume', n=first['n'], ty=first['ty'], pred='eq', value=dptr)] + [dict(kind='pin', n=x['n'], value=rate) for x in lr]
        Fo = U.optimise(fn, hy, ('xor_block',))
        reach = Fo.reachable()
        blocks = [b for b in Fo.blocks if b['id'] in reach]
        inst = '%s: rate %d, %d message bytes in the block => 0x1F, zeros, last byte |= 0x80, whole block absorbed' % (fn, rate, dptr)
        n += 1
        if len(blocks) != 1:
            chk.violation(R, inst, src, 'the function does not reduce to straight-line code under the hypothesis (%d blocks)' % len(blocks), key='%s flip %d %d' % (R, rate, dptr))
            continue
        img = ['M'] * dptr + ['?'] * (rate - dptr)
        snap = None
        fill = None
        for i in blocks[0]['insts']:
            if i['op'] == 'store':
                b, o = Fo.addr_of(i['ops'][1])
                if b == {'k': 'a', 'v': 0} and o is not None:
                    if ob[0] <= o < ob[0] + rate and i.get('size', 1) == 1:
                        img[o - ob[0]] = (i['ops'][0]['v'] & 0xFF) if i['ops'][0]['k'] == 'c' else '?'
                    elif o == od[0]:
                        fill = i['ops'][0].get('v') if i['ops'][0]['k'] == 'c' else '?'
            elif i['op'] == 'call':
                cal = i.get('callee') or ''
                if cal.startswith('llvm.memset'):
                    b, o = Fo.addr_of(i['ops'][0])
                    if b == {'k': 'a', 'v': 0} and o is not None and i['ops'][1]['k'] == 'c' and i['ops'][2]['k'] == 'c':
                        for k in range(i['ops'][2]['v']):
                            if 0 <= o - ob[0] + k < rate:
                                img[o - ob[0] + k] = i['ops'][1]['v'] & 0xFF
                elif cal == 'xor_block':
                    ok_args = Fo.addr_of(i['ops'][0]) == ({'k': 'a', 'v': 0}, oa[0]) and Fo.addr_of(i['ops'][1]) == ({'k': 'a', 'v': 0}, ob[0]) \
                        and i['ops'][2] .get('v') == rate
                    snap = (list(img), ok_args)
        want = ['M'] * dptr + [0] * (rate - dptr)
        want[dptr] ^= 0x1F
        want[rate - 1] ^= 0x80
        if snap and snap[0] == want and snap[1] and fill == rate:
            chk.ok(R, inst, src)
        else:
            det = 'no xor_block call' if not snap else 'xor_block arguments are not (A, dbuf, rate)' if not snap[1] else \
                'dptr := %s instead of rate' % fill if snap[0] == want else \
                'byte %d of the absorbed block is %s, FIPS 202 gives %s' % next((k, snap[0][k], want[k]) for k in range(rate) if snap[0][k] != want[k])
            chk.violation(R, inst, src, det, key='%s flip %d %d' % (R, rate, dptr))
    chk.floor('shake cases', n, 10)


def hkdf_expand(chk):
    """HKDF-Expand (RFC 5869 2.3): T(1) = HMAC(PRK, info | 0x01), T(i) = HMAC(PRK, T(i-1) | info | i), at most 255 blocks.  Decided by
    partial evaluation of one turn of br_hkdf_produce() at a block boundary (ptr == dig_len) with the block counter pinned: the
    sequence of HMAC calls, their operands (previous block only from the second block on; the counter byte is the new block number)
    and the stop after block 255."""
    from .. import oblig, fold
    from ..oblig import LocalLoad
    R = 'hkdf-expand-block'
    src, fn = 'src/kdf/hkdf.c', 'br_hkdf_produce'
    U = oblig.funit(src)
    if fn not in U.funcs:
        raise AnalysisBroken('%s vanished' % fn)
    F = U.func(fn)
    L = irf.Layouts(U.unit)
    f = {k: L.field('br_hkdf_context', k) for k in ('ptr', 'dig_len', 'chunk_num', 'buf')}
    if None in f.values():
        raise AnalysisBroken('br_hkdf_context layout changed')
    NI = ('br_hmac_init', 'br_hmac_update', 'br_hmac_out')

    def first(k):
        ls = U.field_loads(fn, 0, f[k][0], f[k][1])
        if not ls:
            raise AnalysisBroken('%s: no load of %s' % (fn, k))
        return min(ls, key=lambda i: F.order[i['id']])
    xl = LocalLoad('x').sites(U, fn)
    DL = 32
    n = 0
    for c in (0, 1, 7, 254, 255):
        hy = [dict(kind='pin', n=first('ptr')['n'], value=DL), dict(kind='assume', n=first('chunk_num')['n'], ty=first('chunk_num')['ty'], pred='eq', value=c)]
        hy += [dict(kind='pin', n=l['n'], value=DL) for l in U.field_loads(fn, 0, f['dig_len'][0], f['dig_len'][1])]
        hy += [dict(kind='pin', n=l['n'], value=(c + 1) & 255) for _, l in xl]
        Fo = U.optimise(fn, hy, NI)
        seq = []
        xval = {}
        for i in sorted(fold._reach_insts(Fo), key=lambda i: i['id']):
            if i['op'] == 'store':
                b, o = Fo.addr_of(i['ops'][1])
                if b['k'] == 'i' and Fo.insts[b['v']]['op'] == 'alloca' and i['ops'][0]['k'] == 'c':
                    xval[b['v']] = i['ops'][0]['v'] & 0xFF
            if i['op'] != 'call' or i.get('callee') not in NI:
                continue
            cal = i['callee']
            if cal == 'br_hmac_update':
                b, o = Fo.addr_of(i['ops'][1])
                ln = i['ops'][2]
                if b == {'k': 'a', 'v': 0} and o == f['buf'][0]:
                    seq.append(('update', 'previous block', ln.get('v') if ln['k'] == 'c' else '?'))
                elif b == {'k': 'a', 'v': 1} and ln == {'k': 'a', 'v': 2}:
                    seq.append(('update', 'info', 'info_len'))
                elif b['k'] == 'i' and Fo.insts[b['v']]['op'] == 'alloca' and ln['k'] == 'c':
                    seq.append(('update', 'counter byte %s' % xval.get(b['v'], '?'), ln['v']))
                else:
                    seq.append(('update', '?', '?'))
            elif cal == 'br_hmac_out':
                b, o = Fo.addr_of(i['ops'][1])
                seq.append(('out', 'buf' if (b == {'k': 'a', 'v': 0} and o == f['buf'][0]) else '?'))
            else:
                seq.append(('init',))
        if c == 255:
            want = []
        else:
            want = [('init',)] + ([('update', 'previous block', DL)] if c >= 1 else []) + \
                [('update', 'info', 'info_len'), ('update', 'counter byte %d' % (c + 1), 1), ('out', 'buf')]
        n += 1
        inst = '%s: block %d = HMAC(PRK, %sinfo | %#04x)' % (fn, c + 1, 'T(%d) | ' % c if c >= 1 else '', c + 1) if c < 255 else \
            '%s: no block beyond the 255th' % fn
        cn_stores = [i['ops'][0].get('v') if i['ops'][0]['k'] == 'c' else '?' for i in fold._reach_insts(Fo)
                     if i['op'] == 'store' and Fo.addr_of(i['ops'][1]) == ({'k': 'a', 'v': 0}, f['chunk_num'][0])]
        if seq == want and (c < 255 or all(v == 255 for v in cn_stores)):
            chk.ok(R, inst, src)
        elif seq == want:
            chk.violation(R, inst, src, 'at the limit the block counter is moved on to %s: the next call no longer sees the limit, the counter byte wraps and '
                          'the output stream restarts from T(1)' % cn_stores, key='%s limit-sticky' % R)
        else:
            chk.violation(R, inst, src, 'the HMAC calls are %s, RFC 5869 gives %s' % (seq, want), key='%s %d' % (R, c))
    # ---- the copy out of the current block: min(dig_len - ptr, out_len) bytes from buf + ptr, and the read position advances by that much
    phis = [F.insts[o['v']] for i, o in oblig.dbg_values(F, 'out_len') if o['k'] == 'i' and F.insts[o['v']]['op'] == 'phi']
    if not phis:
        raise AnalysisBroken('%s: loop variable out_len not identified' % fn)
    for p0, want_len in ((10, 5), (10, 100), (0, 32), (15, 9)):
        clen = min(DL - p0, want_len)
        hy = [dict(kind='assume', n=first('ptr')['n'], ty=first('ptr')['ty'], pred='eq', value=p0), dict(kind='pin', n=phis[0]['n'], value=want_len)]
        hy += [dict(kind='pin', n=l['n'], value=DL) for l in U.field_loads(fn, 0, f['dig_len'][0], f['dig_len'][1])]
        Fo = U.optimise(fn, hy, NI)
        cps, pst = [], []
        for i in sorted(fold._reach_insts(Fo), key=lambda i: i['id']):
            if i['op'] == 'call' and (i.get('callee') or '').startswith('llvm.memcpy'):
                sb, so = Fo.addr_of(i['ops'][1])
                if sb == {'k': 'a', 'v': 0}:
                    cps.append((so - f['buf'][0] if so is not None else None, i['ops'][2].get('v') if i['ops'][2]['k'] == 'c' else None))
            elif i['op'] == 'store':
                b, o = Fo.addr_of(i['ops'][1])
                if b == {'k': 'a', 'v': 0} and o == f['ptr'][0]:
                    v = i['ops'][0]
                    if v['k'] == 'c':
                        pst.append(v['v'])
                    elif v['k'] == 'i' and Fo.insts[v['v']]['op'] == 'add':
                        # position re-read after the copy (the copy may alias it) plus a constant
                        ops = Fo.insts[v['v']]['ops']
                        cst = [q['v'] for q in ops if q['k'] == 'c']
                        lds = [q for q in ops if q['k'] == 'i' and Fo.insts[q['v']]['op'] == 'load' and
                               Fo.addr_of(Fo.insts[q['v']]['ops'][0]) == ({'k': 'a', 'v': 0}, f['ptr'][0])]
                        pst.append(p0 + cst[0] if len(cst) == 1 and len(lds) == 1 else None)
                    else:
                        pst.append(None)
        n += 1
        inst = '%s: %d bytes wanted at position %d of the block => %d bytes copied from buf + %d, position becomes %d' % (fn, want_len, p0, clen, p0, p0 + clen)
        if cps[:1] == [(p0, clen)] and pst[:1] == [p0 + clen]:
            chk.ok(R, inst, src)
        else:
            chk.violation(R, inst, src, 'copies (offset in buf, count) = %s, position stored = %s: output requested in several calls differs from one call'
                          % (cps[:2], pst[:2]), key='%s copy %d %d' % (R, p0, want_len))
    chk.floor('hkdf blocks', n, 9)


def state_save_restore(chk):
    """"A saved state restored into a fresh context continues identically": state() serialises the chaining value with
    br_range_encNN(dst + o, cc->field, n) and set_state() reads it back with br_range_decNN(cc->field, n, src + o).  For every hash the
    two functions must cover the same (field, word count, buffer offset, endianness and word width) triples, and n words must be the
    whole field.  Structural rule over the six state-saving hash implementations."""
    R = 'hash-state-save-restore-symmetric'
    n = 0
    for src, names, st in (('src/hash/md5.c', ['br_md5'], 'br_md5_context'), ('src/hash/sha1.c', ['br_sha1'], 'br_sha1_context'),
                           ('src/hash/sha2small.c', ['br_sha224'], 'br_sha224_context'), ('src/hash/sha2big.c', ['br_sha384'], 'br_sha384_context'),
                           ('src/hash/md5sha1.c', ['br_md5sha1'], 'br_md5sha1_context')):
        u = build.load_unit(src)
        L = irf.Layouts(u)
        for nm in names:
            sets = {}
            for kind, fn in (('save', nm + '_state'), ('restore', nm + '_set_state')):
                F = next((irf.Func(u, f) for f in u['functions'] if f['name'] == fn and f.get('blocks')), None)
                if F is None:
                    raise AnalysisBroken('%s vanished from %s' % (fn, src))
                items = set()
                for c in F.calls():
                    cal = c.get('callee') or ''
                    if not cal.startswith('br_range_'):
                        continue
                    enc = 'enc' in cal
                    if enc != (kind == 'save'):
                        items.add(('wrong direction', cal))
                        continue
                    fld, cnt, buf = (c['ops'][1], c['ops'][2], c['ops'][0]) if enc else (c['ops'][0], c['ops'][1], c['ops'][2])
                    fb, fo = F.addr_of(fld)
                    bb, bo = F.addr_of(buf)
                    fa = L.field_at(st, fo) if fb == {'k': 'a', 'v': 0} and fo is not None else None
                    items.add((fa[2] if fa else '?', cnt.get('v') if cnt['k'] == 'c' else '?', bo, cal.replace('enc', 'XXX').replace('dec', 'XXX'),
                               fa[1] if fa else None))
                sets[kind] = items
            n += 1
            inst = '%s: state() and set_state() cover the same fields, word counts and offsets, and each covers its field entirely' % nm
            bad = []
            if sets['save'] != sets['restore'] or not sets['save']:
                bad.append('save %s vs restore %s' % (sorted(sets['save'], key=repr), sorted(sets['restore'], key=repr)))
            for it in sets['save'] | sets['restore']:
                if len(it) == 5 and isinstance(it[1], int) and it[4] is not None:
                    wsz = 8 if '64' in it[3] else 4
                    if it[1] * wsz != it[4]:
                        bad.append('%d words of %d bytes do not cover the %d-byte field %s' % (it[1], wsz, it[4], it[0]))
            if bad:
                chk.violation(R, inst, src, '; '.join(bad) + ': part of the chaining value is not restored, the continued hash differs', key='%s %s' % (R, nm))
            else:
                chk.ok(R, inst, src)
    chk.floor('state-saving hashes', n, 5)


def aesctr_drbg_seed_padding(chk):
    """AESCTR_DRBG update: the seed is absorbed in 16-byte blocks, each placed in the second half of the 32-byte key H || m; "the last
    block is padded with zeros" (comment in the source, and the only reading under which equal seeds give equal streams regardless of
    what was absorbed before).  Path rule: after a variable-length copy of seed bytes into the key block, every path to the key
    installation passes through a zero fill of that block's remainder - not a fill done once before the loop."""
    R = 'aesctr-drbg-seed-block-padded'
    src, fn = 'src/rand/aesctr_drbg.c', 'br_aesctr_drbg_update'
    u = build.load_unit(src)
    F = next((irf.Func(u, f) for f in u['functions'] if f['name'] == fn and f.get('blocks')), None)
    if F is None:
        raise AnalysisBroken('%s vanished' % fn)
    copies = []
    for c in F.calls():
        if (c.get('callee') or '').startswith('llvm.memcpy') and c['ops'][2]['k'] != 'c':
            db, do = F.addr_of(c['ops'][0])
            sb, _ = F.addr_of(c['ops'][1])
            if db['k'] == 'i' and F.insts[db['v']]['op'] == 'alloca' and do == 16 and (sb == {'k': 'a', 'v': 1} or (sb['k'] == 'i' and F.insts[sb['v']]['op'] == 'phi')):
                copies.append((c, db))
    if not copies:
        raise AnalysisBroken('%s: the copy of seed bytes into the key block is not identified' % fn)
    def root(o):
        for _ in range(12):
            if o['k'] != 'i':
                return o
            i_ = F.insts[o['v']]
            if i_['op'] in ('getelementptr', 'bitcast'):
                o = i_['ops'][0]
            else:
                return o
        return o
    for c, db in copies:
        inst = '%s: a partial seed block is zero-padded before the key is installed' % fn
        bad = None
        seen = set()
        st = [(F.block_of[c['id']], F.order[c['id']])]
        while st and bad is None:
            b, after = st.pop()
            blk = next(x for x in F.blocks if x['id'] == b)
            stop = False
            for i in blk['insts']:
                if F.order[i['id']] <= after:
                    continue
                if i['op'] == 'call' and (i.get('callee') or '').startswith('llvm.memset') and root(i['ops'][0]) == db and i['ops'][1]['k'] == 'c' and i['ops'][1]['v'] == 0:
                    stop = True
                    break
                if i['op'] == 'call' and i.get('callee') is None and any(o['k'] == 'i' and F.addr_of(o) == (db, 0) for o in i['ops']):
                    bad = i
                    break
            if stop or bad:
                continue
            for sb_ in F.succ[b]:
                if sb_ not in seen:
                    seen.add(sb_)
                    st.append((sb_, -1))
        if bad is None:
            chk.ok(R, inst, F.where(c))
        else:
            chk.violation(R, inst, F.where(c), 'the key block reaches the key installation at line %s without a zero fill after the copy: bytes of the previous block '
                          'pad a short last seed block' % bad.get('line'), key=R)


def run(tier):
    chk = report.Check('C13', tier,
                       'Constant tables and class descriptors of the hash functions compared with values generated from the standards '
                       '(RFC 1321, FIPS 180-4: IVs, round constants from sines / square and cube roots of primes, MD5 message schedule), '
                       'digest OIDs built from their arcs and the id->OID mapping, and every br_hash_class descriptor word (id, output size, '
                       'state size, block size, padding flags) and context_size that HMAC, the multihash, HMAC_DRBG and the constant-time HMAC '
                       'read. NOT decided: the compression functions, streaming/padding logic, HMAC/PRF/HKDF computation.',
                       trusted=['reference generators in sa/tab.py (derived from the standards, self-checked)', 'clang 14 constant folding'])
    R = 'hash-constants'
    u = build.load_unit('src/hash/md5.c')
    cmp_table(chk, R, u, 'br_md5_IV', tab.MD5_IV, 'RFC 1321 IV', 'src/hash/md5.c')
    cmp_table(chk, R, u, 'K', tab.md5_K(), 'floor(2^32 |sin(i+1)|)', 'src/hash/md5.c')
    cmp_table(chk, R, u, 'MP_flash', tab.md5_msg_perm(), 'RFC 1321 message word order of rounds 2-4', 'src/hash/md5.c')
    u = build.load_unit('src/hash/sha1.c')
    cmp_table(chk, R, u, 'br_sha1_IV', tab.SHA1_IV, 'FIPS 180-4 SHA-1 IV', 'src/hash/sha1.c')
    f = next((x for x in u['functions'] if x['name'] == 'br_sha1_round' and not x['decl']), None)
    if f is None:
        raise AnalysisBroken('br_sha1_round not found')
    consts = set()
    for b in f['blocks']:
        for i in b['insts']:
            for o in i['ops']:
                if o['k'] == 'c' and o.get('w') == 32 and o['v'] is not None:
                    consts.add(o['v'] & 0xFFFFFFFF)
    for k in tab.SHA1_K:
        inst = 'sha1.c:br_sha1_round uses K=0x%08X' % k
        if k in consts:
            chk.ok(R, inst, 'src/hash/sha1.c', 'immediate found')
        else:
            chk.violation(R, inst, 'src/hash/sha1.c', 'SHA-1 round constant 0x%08X (floor(2^30 sqrt(k))) does not occur in br_sha1_round' % k,
                          key='%s sha1 K %08X' % (R, k))
    big = set(c for c in consts if c > 0x10000000 and c not in (0xFFFFFFFF,))
    extra = big - set(tab.SHA1_K)
    if extra:
        chk.violation(R, 'sha1.c:br_sha1_round has no other large immediates', 'src/hash/sha1.c',
                      'unexpected constants %s' % sorted(hex(x) for x in extra), key='%s sha1 extra' % R)
    else:
        chk.ok(R, 'sha1.c:br_sha1_round has no other large immediates', 'src/hash/sha1.c')
    u = build.load_unit('src/hash/sha2small.c')
    cmp_table(chk, R, u, 'br_sha224_IV', tab.sha224_IV(), 'FIPS 180-4 SHA-224 IV', 'src/hash/sha2small.c')
    cmp_table(chk, R, u, 'br_sha256_IV', tab.sha256_IV(), 'frac(sqrt(p_i)), first 8 primes', 'src/hash/sha2small.c')
    cmp_table(chk, R, u, 'K', tab.sha256_K(), 'frac(cbrt(p_i)), first 64 primes', 'src/hash/sha2small.c')
    u = build.load_unit('src/hash/sha2big.c')
    cmp_table(chk, R, u, 'IV384', tab.sha384_IV(), 'frac(sqrt(p_i)), primes 9..16', 'src/hash/sha2big.c')
    cmp_table(chk, R, u, 'IV512', tab.sha512_IV(), 'frac(sqrt(p_i)), first 8 primes', 'src/hash/sha2big.c')
    cmp_table(chk, R, u, 'K', tab.sha512_K(), 'frac(cbrt(p_i)), first 80 primes', 'src/hash/sha2big.c')

    # ---- digest OIDs
    R = 'digest-oid'
    u = build.load_unit('src/hash/dig_oid.c')
    names = {1: 'md5_OID', 2: 'sha1_OID', 3: 'sha224_OID', 4: 'sha256_OID', 5: 'sha384_OID', 6: 'sha512_OID'}
    for hid, arcs in tab.DIGEST_OIDS.items():
        body = tab.oid_der(arcs)
        cmp_table(chk, R, u, names[hid], body, 'DER content of OID %s' % '.'.join(map(str, arcs)), 'src/hash/dig_oid.c')
    f = next((x for x in u['functions'] if x['name'] == 'br_digest_OID' and not x['decl']), None)
    if f is None:
        raise AnalysisBroken('br_digest_OID not found')
    F = irf.Func(u, f)
    sw = [i for i in F.insts.values() if i['op'] == 'switch']
    if len(sw) != 1:
        raise AnalysisBroken('br_digest_OID: expected one switch')
    ops = sw[0]['ops']
    mapping = {}
    for k in range(2, len(ops), 2):
        cid, bb = ops[k]['v'], ops[k + 1]['v']
        # follow to the ret phi
        blk = next(b for b in F.blocks if b['id'] == bb)
        succ = F.succ[bb]
        g = None
        for s in succ:
            sb = next(b for b in F.blocks if b['id'] == s)
            for i in sb['insts']:
                if i['op'] == 'phi' and i['ty'].endswith('*'):
                    for o, inb in zip(i['ops'], i['inb']):
                        if inb == bb:
                            while o.get('k') in ('cegep', 'cecast'):
                                o = o['base']
                            g = o.get('v')
        ln = None
        for i in blk['insts']:
            if i['op'] == 'store' and i['ops'][0]['k'] == 'c':
                ln = i['ops'][0]['v']
        mapping[cid] = (g, ln)
    for hid in tab.DIGEST_OIDS:
        want = names[hid]
        body = tab.oid_der(tab.DIGEST_OIDS[hid])
        got = mapping.get(hid)
        inst = 'br_digest_OID(%d) -> %s, len %d' % (hid, want, len(body))
        if got == (want, len(body)):
            chk.ok(R, inst, 'src/hash/dig_oid.c')
        else:
            chk.violation(R, inst, 'src/hash/dig_oid.c', 'maps to %s' % (got,), key='%s map %d' % (R, hid))

    # ---- class descriptors
    R = 'hash-class-desc'
    mac = ['BR_HASHDESC_ID_OFF', 'BR_HASHDESC_OUT_OFF', 'BR_HASHDESC_STATE_OFF', 'BR_HASHDESC_LBLEN_OFF',
           'BR_HASHDESC_MD_PADDING', 'BR_HASHDESC_MD_PADDING_128', 'BR_HASHDESC_MD_PADDING_BE',
           'BR_HASHDESC_ID_MASK', 'BR_HASHDESC_OUT_MASK', 'BR_HASHDESC_STATE_MASK', 'BR_HASHDESC_LBLEN_MASK']
    ids = ['br_%s_ID' % h for h in HASHES]
    sizes = ['sizeof(%s)' % v[6] for v in HASHES.values()]
    cv = build.const_values(mac + ids + sizes)
    for h, (src, hid, out, state, lb, flags, ctxt) in HASHES.items():
        u = build.load_unit(src)
        fl = tab.global_fields(u, 'br_%s_vtable' % h)
        if fl is None:
            raise AnalysisBroken('br_%s_vtable not found' % h)
        ctxsz = next(v for o, s, v in fl if o == 0)
        desc = next(v for o, s, v in fl if o == 8)
        want = (hid << cv['BR_HASHDESC_ID_OFF']) | (out << cv['BR_HASHDESC_OUT_OFF']) | (state << cv['BR_HASHDESC_STATE_OFF']) | (lb << cv['BR_HASHDESC_LBLEN_OFF'])
        for fg, m in (('MD', 'BR_HASHDESC_MD_PADDING'), ('128', 'BR_HASHDESC_MD_PADDING_128'), ('BE', 'BR_HASHDESC_MD_PADDING_BE')):
            if fg in flags:
                want |= cv[m]
        inst = 'br_%s_vtable.desc == id %d, out %d, state %d, block 2^%d, flags %s' % (h, hid, out, state, lb, '|'.join(flags) or 'none')
        if desc == want:
            chk.ok(R, inst, src, 'desc=0x%08X' % desc)
        else:
            chk.violation(R, inst, src, 'desc is 0x%08X, expected 0x%08X' % (desc, want), key='%s %s desc' % (R, h))
        inst = 'br_%s_vtable.context_size == sizeof(%s)' % (h, ctxt)
        if ctxsz == cv['sizeof(%s)' % ctxt]:
            chk.ok(R, inst, src, '%d bytes' % ctxsz)
        else:
            chk.violation(R, inst, src, '%d vs %d' % (ctxsz, cv['sizeof(%s)' % ctxt]), key='%s %s ctxsize' % (R, h))
        inst = 'br_%s_ID == %d (API constant used in TLS signature_algorithms / multihash slots)' % (h, hid)
        if cv['br_%s_ID' % h] == hid:
            chk.ok(R, inst, 'inc/bearssl_hash.h')
        else:
            chk.violation(R, inst, 'inc/bearssl_hash.h', 'is %d' % cv['br_%s_ID' % h], key='%s %s id' % (R, h))
        # function slots point at this hash's own functions
        fam = 'br_%s_' % h
        alt = {'sha224': ('br_sha224_',), 'sha256': ('br_sha224_', 'br_sha256_'), 'sha384': ('br_sha384_',), 'sha512': ('br_sha384_', 'br_sha512_')}.get(h, (fam,))
        slots = [(o, v) for o, s, v in fl if o >= 16]
        okk = len(slots) == 5 and all(isinstance(v, str) and v.startswith(alt) for o, v in slots)
        inst = 'br_%s_vtable function slots belong to %s' % (h, '/'.join(alt))
        if okk:
            chk.ok(R, inst, src, ', '.join(v for o, v in slots))
        else:
            chk.violation(R, inst, src, 'slots: %s' % slots, key='%s %s slots' % (R, h))
    prf_sites(chk)
    tls10_prf_shape(chk)
    prf_output_cleared(chk)
    hmac_drbg_empty_seed(chk)
    hmac_ct_window(chk)
    hmac_key_rules(chk)
    md_padding(chk)
    md_update(chk)
    drbg_rules(chk)
    aesctr_drbg_chunking(chk)
    shake_rules(chk)
    shake_lane_complement(chk)
    hkdf_expand(chk)
    state_save_restore(chk)
    aesctr_drbg_seed_padding(chk)
    chk.floor('tables', sum(1 for o in chk.obls if o['rule'] == 'hash-constants'), 15)
    from .. import lints
    lints.round_down_mask_keeps_high_word(chk, ['src/hash/', 'src/mac/', 'src/kdf/', 'src/rand/'])
    lints.length_is_boolean(chk, ['src/hash/', 'src/mac/', 'src/kdf/', 'src/rand/'])
    lints.tail_copy_from_running_pointer(chk, ('src/hash/', 'src/mac/', 'src/kdf/', 'src/rand/'))
    from .. import lints as _lints_ir
    _lints_ir.ignored_result_regression(chk, ['src/hash/', 'src/mac/', 'src/kdf/', 'src/rand/'])
    return chk.finish()
