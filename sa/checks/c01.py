"""C01 — both sides agree on session parameters: statically decidable clauses (DESIGN §4 C01)."""
import re
from .. import build, report, oblig, irf, fold, t0, t0ai, tab
from ..oblig import Ob, Call, Var, FieldLoad, RET, E
from ..build import AnalysisBroken

# IANA TLS cipher suite registry (the 45 suites this library implements): id -> name.  Everything else is derived from the name.
IANA = {
    0x000A: 'TLS_RSA_WITH_3DES_EDE_CBC_SHA', 0x002F: 'TLS_RSA_WITH_AES_128_CBC_SHA', 0x0035: 'TLS_RSA_WITH_AES_256_CBC_SHA',
    0x003C: 'TLS_RSA_WITH_AES_128_CBC_SHA256', 0x003D: 'TLS_RSA_WITH_AES_256_CBC_SHA256',
    0x009C: 'TLS_RSA_WITH_AES_128_GCM_SHA256', 0x009D: 'TLS_RSA_WITH_AES_256_GCM_SHA384',
    0xC003: 'TLS_ECDH_ECDSA_WITH_3DES_EDE_CBC_SHA', 0xC004: 'TLS_ECDH_ECDSA_WITH_AES_128_CBC_SHA', 0xC005: 'TLS_ECDH_ECDSA_WITH_AES_256_CBC_SHA',
    0xC008: 'TLS_ECDHE_ECDSA_WITH_3DES_EDE_CBC_SHA', 0xC009: 'TLS_ECDHE_ECDSA_WITH_AES_128_CBC_SHA', 0xC00A: 'TLS_ECDHE_ECDSA_WITH_AES_256_CBC_SHA',
    0xC00D: 'TLS_ECDH_RSA_WITH_3DES_EDE_CBC_SHA', 0xC00E: 'TLS_ECDH_RSA_WITH_AES_128_CBC_SHA', 0xC00F: 'TLS_ECDH_RSA_WITH_AES_256_CBC_SHA',
    0xC012: 'TLS_ECDHE_RSA_WITH_3DES_EDE_CBC_SHA', 0xC013: 'TLS_ECDHE_RSA_WITH_AES_128_CBC_SHA', 0xC014: 'TLS_ECDHE_RSA_WITH_AES_256_CBC_SHA',
    0xC023: 'TLS_ECDHE_ECDSA_WITH_AES_128_CBC_SHA256', 0xC024: 'TLS_ECDHE_ECDSA_WITH_AES_256_CBC_SHA384',
    0xC025: 'TLS_ECDH_ECDSA_WITH_AES_128_CBC_SHA256', 0xC026: 'TLS_ECDH_ECDSA_WITH_AES_256_CBC_SHA384',
    0xC027: 'TLS_ECDHE_RSA_WITH_AES_128_CBC_SHA256', 0xC028: 'TLS_ECDHE_RSA_WITH_AES_256_CBC_SHA384',
    0xC029: 'TLS_ECDH_RSA_WITH_AES_128_CBC_SHA256', 0xC02A: 'TLS_ECDH_RSA_WITH_AES_256_CBC_SHA384',
    0xC02B: 'TLS_ECDHE_ECDSA_WITH_AES_128_GCM_SHA256', 0xC02C: 'TLS_ECDHE_ECDSA_WITH_AES_256_GCM_SHA384',
    0xC02D: 'TLS_ECDH_ECDSA_WITH_AES_128_GCM_SHA256', 0xC02E: 'TLS_ECDH_ECDSA_WITH_AES_256_GCM_SHA384',
    0xC02F: 'TLS_ECDHE_RSA_WITH_AES_128_GCM_SHA256', 0xC030: 'TLS_ECDHE_RSA_WITH_AES_256_GCM_SHA384',
    0xC031: 'TLS_ECDH_RSA_WITH_AES_128_GCM_SHA256', 0xC032: 'TLS_ECDH_RSA_WITH_AES_256_GCM_SHA384',
    0xC09C: 'TLS_RSA_WITH_AES_128_CCM', 0xC09D: 'TLS_RSA_WITH_AES_256_CCM', 0xC0A0: 'TLS_RSA_WITH_AES_128_CCM_8', 0xC0A1: 'TLS_RSA_WITH_AES_256_CCM_8',
    0xC0AC: 'TLS_ECDHE_ECDSA_WITH_AES_128_CCM', 0xC0AD: 'TLS_ECDHE_ECDSA_WITH_AES_256_CCM',
    0xC0AE: 'TLS_ECDHE_ECDSA_WITH_AES_128_CCM_8', 0xC0AF: 'TLS_ECDHE_ECDSA_WITH_AES_256_CCM_8',
    0xCCA8: 'TLS_ECDHE_RSA_WITH_CHACHA20_POLY1305_SHA256', 0xCCA9: 'TLS_ECDHE_ECDSA_WITH_CHACHA20_POLY1305_SHA256',
}


def params(name):
    """(kx, enc, key_len, mode, tag_len, mac hash id, prf hash id) from the registry name; hash ids are the TLS HashAlgorithm values
    (sha1 2, sha256 4, sha384 5) that this library also uses as br_*_ID"""
    m = re.match(r'TLS_(RSA|ECDHE_RSA|ECDHE_ECDSA|ECDH_RSA|ECDH_ECDSA)_WITH_(.*)$', name)
    kx = {'RSA': 0, 'ECDHE_RSA': 1, 'ECDHE_ECDSA': 2, 'ECDH_RSA': 3, 'ECDH_ECDSA': 4}[m.group(1)]
    rest = m.group(2)
    mac = 0
    prf = 4
    if rest.startswith('3DES_EDE_CBC'):
        enc, klen, mode, tag = 0, 24, 'cbc', 0
    elif rest.startswith('AES_128_CBC'):
        enc, klen, mode, tag = 1, 16, 'cbc', 0
    elif rest.startswith('AES_256_CBC'):
        enc, klen, mode, tag = 2, 32, 'cbc', 0
    elif rest.startswith('AES_128_GCM'):
        enc, klen, mode, tag = 3, 16, 'gcm', 16
    elif rest.startswith('AES_256_GCM'):
        enc, klen, mode, tag = 4, 32, 'gcm', 16
    elif rest.startswith('CHACHA20_POLY1305'):
        enc, klen, mode, tag = 5, 32, 'chapol', 16
    elif rest.startswith('AES_128_CCM_8'):
        enc, klen, mode, tag = 8, 16, 'ccm', 8
    elif rest.startswith('AES_256_CCM_8'):
        enc, klen, mode, tag = 9, 32, 'ccm', 8
    elif rest.startswith('AES_128_CCM'):
        enc, klen, mode, tag = 6, 16, 'ccm', 16
    elif rest.startswith('AES_256_CCM'):
        enc, klen, mode, tag = 7, 32, 'ccm', 16
    else:
        raise ValueError(name)
    if mode == 'cbc':
        mac = {'SHA': 2, 'SHA256': 4, 'SHA384': 5}[rest.rsplit('_', 1)[1]]
    if rest.endswith('SHA384'):
        prf = 5
    return dict(kx=kx, enc=enc, klen=klen, mode=mode, tag=tag, mac=mac, prf=prf)


def suite_table(chk):
    R = 'suite-table'
    ref = []
    for sid in sorted(IANA):
        p = params(IANA[sid])
        el = (p['kx'] << 12) | (p['enc'] << 8) | (p['mac'] << 4) | p['prf']
        ref += [sid >> 8, sid & 0xFF, el >> 8, el & 0xFF]
    ref += [0, 0]
    tables = {}
    for key in ('hs_client', 'hs_server'):
        P = t0.Program(key)
        d = P.data
        # locate: the run of 4-byte records (id, elements) with strictly increasing ids, terminated by 0000, that is longest
        best = None
        for st in range(len(d) - 6):
            n = 0
            last = -1
            q = st
            while q + 4 <= len(d):
                sid = (d[q] << 8) | d[q + 1]
                if sid == 0:
                    break
                if sid <= last:
                    n = -1
                    break
                last = sid
                n += 1
                q += 4
            if n > 0 and q + 2 <= len(d) and (best is None or n > best[1]):
                best = (st, n)
        if best is None or best[1] < 20:
            raise AnalysisBroken('%s: cipher suite table not found in the data block' % key)
        got = d[best[0]:best[0] + 4 * best[1] + 2]
        tables[key] = got
        inst = '%s: cipher-suite table == IANA registry (%d suites: kx, cipher, MAC, PRF)' % (key, len(IANA))
        if got == ref:
            chk.ok(R, inst, P.src, '%d records at data offset %d' % (best[1], best[0]))
        else:
            # name the first differing record
            k = next((i for i in range(0, min(len(got), len(ref)), 4) if got[i:i + 4] != ref[i:i + 4]), None)
            det = 'record count %d vs %d' % (best[1], len(IANA)) if k is None else \
                'record %d is %s, the registry gives %s (%s)' % (k // 4, bytes(got[k:k + 4]).hex(), bytes(ref[k:k + 4]).hex(),
                                                                   IANA.get((ref[k] << 8) | ref[k + 1], '?'))
            chk.violation(R, inst, P.src, det, key='%s %s' % (R, key))
    inst = 'client and server carry the same suite table'
    if tables['hs_client'] == tables['hs_server']:
        chk.ok(R, inst, 'src/ssl')
    else:
        chk.violation(R, inst, 'src/ssl', 'tables differ', key='%s same' % R)
    # suites_sha384[] of the key exporter == suites whose PRF is SHA-384
    u = build.load_unit('src/ssl/ssl_keyexport.c')
    got = tab.ints_of_global(u, 'suites_sha384')
    want = sorted(s for s in IANA if params(IANA[s])['prf'] == 5)
    inst = 'ssl_keyexport.c: suites_sha384[] == suites whose TLS-1.2 PRF is SHA-384'
    if got is not None and sorted(got) == want:
        chk.ok(R, inst, 'src/ssl/ssl_keyexport.c', '%d suites' % len(want))
    else:
        chk.violation(R, inst, 'src/ssl/ssl_keyexport.c', 'got %s, want %s' % ([hex(x) for x in (got or [])], [hex(x) for x in want]), key='%s sha384' % R)
    # every suite a profile enables is in the table
    for src in ('src/ssl/ssl_client_full.c', 'src/ssl/ssl_server_full_rsa.c', 'src/ssl/ssl_server_full_ec.c', 'src/ssl/ssl_server_mine2c.c',
                'src/ssl/ssl_server_mine2g.c', 'src/ssl/ssl_server_minf2c.c', 'src/ssl/ssl_server_minf2g.c', 'src/ssl/ssl_server_minr2g.c',
                'src/ssl/ssl_server_minu2g.c', 'src/ssl/ssl_server_minv2g.c'):
        try:
            u = build.load_unit(src)
        except AnalysisBroken:
            continue
        for g in u['globals']:
            if 'suites' in g['name']:
                ids = tab.ints_of_global(u, g['name'])
                unknown = [hex(x) for x in ids if x not in IANA]
                inst = '%s: every suite in %s is implemented' % (src.split('/')[-1], g['name'])
                if not unknown:
                    chk.ok(R, inst, src, '%d suites' % len(ids), nontrivial=False)
                else:
                    chk.violation(R, inst, src, 'unknown suites %s' % unknown, key='%s %s' % (R, src))


def switch_encryption(chk):
    """for every suite, the constants that reach the switch-* natives (key length, MAC hash, PRF hash, tag length) are the registry's"""
    R = 'suite-to-record-parameters'
    for key in ('hs_client', 'hs_server'):
        P = t0.Program(key)
        L = P.layouts
        off = L.field(P.ctxname, 'eng.session.cipher_suite')[0]
        sw_words = None
        for nm in ('switch-cbc-in', 'switch-aesgcm-out', 'switch-chapol-in', 'switch-aesccm-out'):
            ws = set(P.words_calling_native(nm))
            sw_words = ws if sw_words is None else (sw_words & ws)
        if not sw_words or len(sw_words) != 1:
            raise AnalysisBroken('%s: switch-encryption word not identified' % key)
        W = next(iter(sw_words))
        nbad = 0
        for sid in sorted(IANA):
            p = params(IANA[sid])
            I = t0ai.Interp(P, field_ranges={off: (sid, sid)})
            I.unroll_concrete = True
            st = t0ai.St()
            need = -I.word_dip(W)
            st.stack = [I.fresh(st, 'in%d' % k) for k in range(need)]
            I.run_word(W, st, ())
            evs = [e for e in I.events if e.name.startswith('switch-')]
            names = set(e.name for e in evs)
            mode = {'cbc': 'cbc', 'gcm': 'aesgcm', 'ccm': 'aesccm', 'chapol': 'chapol'}[p['mode']]
            want_names = {'switch-%s-in' % mode, 'switch-%s-out' % mode}
            okk = names == want_names
            det = 'natives %s' % sorted(names)
            for e in evs:
                a = [(e.st.rng(x)[0] if e.st.rng(x)[0] == e.st.rng(x)[1] else None) for x in e.args]
                if p['mode'] == 'cbc':      # is_client prf mac aes klen
                    exp = (p['prf'], p['mac'], 0 if p['enc'] == 0 else 1, p['klen'])
                    got = (a[1], a[2], None if a[3] is None else int(a[3] != 0), a[4])
                elif p['mode'] == 'gcm':    # is_client prf klen
                    exp = (p['prf'], p['klen'])
                    got = (a[1], a[2])
                elif p['mode'] == 'ccm':    # is_client prf klen tag
                    exp = (p['prf'], p['klen'], p['tag'])
                    got = (a[1], a[2], a[3])
                else:                       # is_client prf
                    exp = (p['prf'],)
                    got = (a[1],)
                if got != exp:
                    okk = False
                    det = '%s gets %s, the registry implies %s' % (e.name, got, exp)
            inst = '%s: suite %04X %s -> %s' % (key, sid, IANA[sid], p['mode'])
            if okk and evs:
                chk.ok(R, inst, P.src, det)
            else:
                nbad += 1
                chk.violation(R, inst, P.src, det if evs else 'no switch-* native is reached for this suite', key='%s %s %04X' % (R, key, sid))


def key_block_layout(chk):
    """RFC 5246 6.3: key_block = client_write_MAC | server_write_MAC | client_write_key | server_write_key | client_write_IV | server_write_IV"""
    R = 'key-block-layout'
    s = 'src/ssl/ssl_engine.c'
    u = build.load_unit(s)
    U = irf.Units({'u': u})
    for mode, fixed_iv in (('cbc', None), ('gcm', 4), ('ccm', 4), ('chapol', 12)):
        for direction in ('in', 'out'):
            fn = 'br_ssl_engine_switch_%s_%s' % (mode, direction)
            F = U.func(fn)
            if F is None:
                raise AnalysisBroken('%s not found' % fn)
            names = {}
            for b in F.blocks:
                for i in b['insts']:
                    if i['op'] == 'dbgvalue' and i['ops'][0]['k'] in ('i', 'a'):
                        kk = ('i', i['ops'][0]['v']) if i['ops'][0]['k'] == 'i' else ('a', i['ops'][0]['v'])
                        names.setdefault(kk, i['var'])

            def aff(o, depth=0):
                """affine form {leaf name: coef} + const of an integer SSA value"""
                if o['k'] == 'c':
                    return {1: o['v']}
                if o['k'] == 'a':
                    return {names.get(('a', o['v']), 'arg%d' % o['v']): 1}
                if o['k'] != 'i' or depth > 10:
                    return {'?': 1}
                i = F.insts[o['v']]
                if i['op'] in ('zext', 'sext', 'trunc'):
                    return aff(i['ops'][0], depth + 1)
                if i['op'] in ('add', 'sub'):
                    a, b = aff(i['ops'][0], depth + 1), aff(i['ops'][1], depth + 1)
                    sg = 1 if i['op'] == 'add' else -1
                    r = dict(a)
                    for k2, v in b.items():
                        r[k2] = r.get(k2, 0) + sg * v
                    return {k2: v for k2, v in r.items() if v}
                if i['op'] == 'shl' and i['ops'][1]['k'] == 'c':
                    return {k2: v << i['ops'][1]['v'] for k2, v in aff(i['ops'][0], depth + 1).items()}
                if i['op'] == 'mul' and i['ops'][1]['k'] == 'c':
                    return {k2: v * i['ops'][1]['v'] for k2, v in aff(i['ops'][0], depth + 1).items()}
                return {names.get(('i', o['v']), 'v%d' % o['v']): 1}

            # branch on is_client
            br = None
            for b in F.blocks:
                t = b['insts'][-1]
                if t['op'] == 'br' and len(t['ops']) == 3 and t['ops'][0]['k'] == 'i':
                    c = F.insts[t['ops'][0]['v']]
                    if c['op'] == 'icmp' and c['pred'] == 'ne' and c['ops'][0] == {'k': 'a', 'v': 1}:
                        br = (t['ops'][2]['v'], t['ops'][1]['v'])      # (true = client, false = server)
            if br is None:
                raise AnalysisBroken('%s: branch on is_client not found' % fn)
            kb = [i for i in F.insts.values() if i['op'] == 'alloca' and i['size'] in (192, 72, 88)]
            if len(kb) != 1:
                raise AnalysisBroken('%s: key block buffer not found' % fn)

            def offsets(o, depth=0):
                """{'client': affine, 'server': affine} of a pointer into kb selected by is_client (None if not such a pointer)"""
                if o['k'] != 'i' or depth > 6:
                    return None
                i = F.insts[o['v']]
                if i['op'] == 'phi':
                    res = {}
                    for x, inb in zip(i['ops'], i['inb']):
                        if x['k'] == 'null':
                            continue
                        side = 'client' if F.dominates_block(br[0], inb) else ('server' if F.dominates_block(br[1], inb) else None)
                        if side is None:
                            sub = offsets(x, depth + 1)
                            if sub:
                                res.update(sub)
                            continue
                        base, off = F.addr_of(x)
                        idx = None
                        if x['k'] == 'i' and F.insts[x['v']]['op'] == 'getelementptr':
                            g = F.insts[x['v']]
                            if F.addr_of(g['ops'][0])[0] == {'k': 'i', 'v': kb[0]['id']}:
                                a = {1: g['off']} if g['off'] else {}
                                for vo, sc in g.get('var') or []:
                                    for k2, v in aff(vo).items():
                                        a[k2] = a.get(k2, 0) + v * sc
                                idx = {k2: v for k2, v in a.items() if v}
                        res[side] = idx
                    return res or None
                return None
            init = [c for c in F.calls() if c.get('callee') is None]
            if len(init) != 1:
                raise AnalysisBroken('%s: expected one indirect init call' % fn)
            ptrs = [offsets(a) for a in init[0]['ops']]
            ptrs = [p_ for p_ in ptrs if p_ and set(p_) == {'client', 'server'}]
            # the one remaining leaf (the MAC output size read from the hash class descriptor) is the MAC key length
            other = set()
            for p_ in ptrs:
                for d in p_.values():
                    other |= set(k2 for k2 in (d or {}) if k2 not in ('cipher_key_len', 'iv_len', 1))
            ren = {next(iter(other)): 'mac_key_len'} if len(other) == 1 else {}
            rn = lambda d: None if d is None else {ren.get(k2, k2): v for k2, v in d.items()}
            ptrs = [{sd: rn(d) for sd, d in p_.items()} for p_ in ptrs]
            # expected offsets of the keys this endpoint must use: writer of its own direction, reader of the peer's
            M, K, Iv = 'mac_key_len', 'cipher_key_len', 'iv_len'

            def lay(side_writes):      # offsets (mac, key, iv) of the *side_writes* write keys
                if mode == 'cbc':
                    if side_writes == 'client':
                        return [{}, {M: 2}, {M: 2, K: 2}]
                    return [{M: 1}, {M: 2, K: 1}, {M: 2, K: 2, Iv: 1}]
                if mode == 'chapol':
                    return [{}, {1: 64}] if side_writes == 'client' else [{1: 32}, {1: 76}]
                if side_writes == 'client':
                    return [{}, {K: 2}]
                return [{K: 1}, {K: 2, 1: fixed_iv}]
            exp_client = lay('client' if direction == 'out' else 'server')     # when is_client: send with client keys, receive with server keys
            exp_server = lay('server' if direction == 'out' else 'client')
            got_client = sorted([p_['client'] for p_ in ptrs], key=lambda d: sorted(map(str, d.items())))
            got_server = sorted([p_['server'] for p_ in ptrs], key=lambda d: sorted(map(str, d.items())))
            srt = lambda l: sorted(l, key=lambda d: sorted(map(str, d.items())))
            inst = '%s: key / MAC / IV offsets follow RFC 5246 6.3 for both roles' % fn
            if got_client == srt(exp_client) and got_server == srt(exp_server):
                chk.ok(R, inst, F.where(), 'client %s server %s' % (got_client, got_server))
            else:
                chk.violation(R, inst, F.where(), 'as client the offsets are %s (expected %s); as server %s (expected %s)'
                              % (got_client, srt(exp_client), got_server, srt(exp_server)), key='%s %s' % (R, fn))
            # half length handed to the PRF expansion
            ck = F.calls('compute_key_block')
            if len(ck) == 1:
                hl = rn(aff(ck[0]['ops'][2]))
                want = {M: 1, K: 1, Iv: 1} if mode == 'cbc' else ({1: 44} if mode == 'chapol' else {K: 1, 1: fixed_iv})
                inst = '%s: key block half length = %s' % (fn, want)
                if hl == want:
                    chk.ok(R, inst, F.where(ck[0]))
                else:
                    chk.violation(R, inst, F.where(ck[0]), 'half length is %s' % hl, key='%s %s half' % (R, fn))
            else:
                raise AnalysisBroken('%s: compute_key_block call not found' % fn)


def premaster_version(chk):
    """RFC 5246 7.4.7.1: the RSA premaster carries the version the client offered (its maximum), which the server compares with
    the ClientHello value (client_max_version): writer and reader must use the same quantity"""
    R = 'premaster-version-agreement'
    for src, fn, struct, field in (('src/ssl/ssl_hs_client.c', 'make_pms_rsa', 'br_ssl_client_context', 'eng.version_max'),
                                   ('src/ssl/ssl_hs_server.c', 'do_rsa_decrypt', 'br_ssl_server_context', 'client_max_version')):
        u = build.load_unit(src)
        L = irf.Layouts(u)
        off = L.field(struct, field)[0]
        F = irf.Units({'u': u}).func(fn)
        if F is None:
            raise AnalysisBroken('%s not found' % fn)
        okk = False
        for e in F.calls('br_enc16be'):
            v = F.strip_casts(e['ops'][1])
            if v['k'] == 'i' and F.insts[v['v']]['op'] == 'load' and F.addr_of(F.insts[v['v']]['ops'][0]) == ({'k': 'a', 'v': 0}, off):
                okk = True
        inst = '%s: premaster version bytes := %s' % (fn, field)
        if okk:
            chk.ok(R, inst, F.where())
        else:
            chk.violation(R, inst, F.where(), 'the premaster version is not taken from %s: client and server disagree when the negotiated version is lower than the offered one' % field,
                          key='%s %s' % (R, fn))


def handshake_state_reset(chk):
    """A context can be reset and reused: every field that the handshake bytecode both reads and writes at a constant offset
    (handshake-mutable state) must start each connection from a defined value -- (a) written by the handshake before every read,
    on all paths from the entry word, or (b) stored on every non-failing path of the C reset chain
    (br_ssl_{client,server}_reset -> br_ssl_engine_set_buffer(NULL) -> set_buffers_bidi, br_ssl_engine_hs_reset), or (c) session
    parameters that deliberately survive for resumption.  Otherwise what the previous connection negotiated leaks into the next."""
    from .. import t0rules
    from ..oblig import ICall
    R = 'handshake-state-reinitialised'
    s = 'src/ssl/ssl_engine.c'
    PERSIST = {
        'eng.session.session_id_len': 'resumption parameter: cleared by br_ssl_client_reset unless resuming, overwritten by the server for every ClientHello',
        'eng.session.version': 'resumption parameter (compared with the ServerHello when resuming)',
        'eng.session.cipher_suite': 'resumption parameter (compared with the ServerHello when resuming)',
    }
    # (b) C reset chain: fields stored on every path that does not fail, under "no new buffer, buffers already set"
    eng = irf.Layouts(build.load_unit(s))
    U = oblig.funit(s)

    def c_reset_writes(off, size):
        def pred(F, i):
            if i['op'] == 'call' and i.get('callee') == 'br_ssl_engine_fail':
                return True
            if i['op'] != 'store':
                return False
            b, o = F.addr_of(i['ops'][1])
            return b == {'k': 'a', 'v': 0} and o is not None and o <= off < o + max(i.get('size', 1), 1)
        res = []
        # set_buffers_bidi(rc, NULL, 0, NULL, 0) with rc->ibuf already set
        o_ibuf = eng.field('br_ssl_engine_context', 'ibuf')[0]
        hy = [dict(kind='assume', n=U.func('br_ssl_engine_set_buffers_bidi').f['params'][1]['n'], ty='i8*', pred='eq', value='null', param=True)]
        fl = U.field_loads('br_ssl_engine_set_buffers_bidi', 0, o_ibuf)
        hy += [dict(kind='pin', n=x['n'], value='inttoptr (i64 4096 to i8*)') for x in fl]
        Fo = U.optimise('br_ssl_engine_set_buffers_bidi', hy, ('br_ssl_engine_fail', 'make_ready_in', 'make_ready_out'))
        res.append(fold.expect_on_all_paths_from_entry(Fo, pred, 'a store to the field')[0])
        Fh = U.func('br_ssl_engine_hs_reset')
        res.append(fold.expect_on_all_paths_from_entry(Fh, pred, 'a store to the field')[0])
        for src2, fn in (('src/ssl/ssl_client.c', 'br_ssl_client_reset'), ('src/ssl/ssl_server.c', 'br_ssl_server_reset')):
            F2 = oblig.funit(src2).func(fn)
            # only judged on the success return (ret 1 paths are after hs_reset); a plain dominance test is enough here
            rets = [b['insts'][-1] for b in F2.blocks if b['insts'][-1]['op'] == 'ret']
            sts = [i for i in F2.insts.values() if pred(F2, i) and i['op'] == 'store']
            hs = F2.calls('br_ssl_engine_hs_reset')
            res.append(bool(sts) and bool(hs) and all(any(F2.dominates(x['id'], h['id']) for x in sts) for h in hs))
        return res
    n = 0
    n2 = 0
    for key, resetfn in (('hs_client', 3), ('hs_server', 4)):
        P = t0.Program(key)
        L = P.layouts
        I = t0ai.Interp(P).run_entry()
        rd, wr = {}, {}
        for e in I.events:
            if e.name in ('get8', 'get16', 'get32') and e.args and e.args[-1].isconst():
                rd.setdefault(e.args[-1].c, set()).add((e.word, e.pc))
            if e.name in ('set8', 'set16', 'set32') and e.args[-1].isconst():
                wr.setdefault(e.args[-1].c, set()).add((e.word, e.pc))
        for off in sorted(set(rd) & set(wr)):
            fa = L.field_at(P.ctxname, off)
            name = fa[2] if fa else 'offset %d' % off
            n += 1
            inst = '%s: %s starts every connection from a defined value' % (key, name)
            if name in PERSIST:
                chk.ok(R, inst, P.src, 'deliberately persistent: ' + PERSIST[name], nontrivial=False)
                continue
            mc, _ = t0rules.must_call(P, -1, sorted(rd[off]), gensites=wr[off])
            if all(mc.get(x) for x in rd[off]):
                chk.ok(R, inst, P.src, 'written by the handshake before each of its %d read site(s)' % len(rd[off]))
                continue
            if not name.startswith('eng.'):
                chk.violation(R, inst, P.src, 'read before written, and not an engine field the common reset chain could initialise', key='%s %s %s' % (R, key, name))
                continue
            w = c_reset_writes(off, fa[1])
            # set_buffers_bidi(NULL), hs_reset, client_reset, server_reset
            okk = w[0] or w[1] or w[2 if key == 'hs_client' else 3]
            if okk:
                which = [nm for nm, x in zip(('set_buffers_bidi(NULL)', 'hs_reset', 'client_reset', 'server_reset'), w) if x]
                chk.ok(R, inst, P.src, 'stored on every non-failing path of %s' % ', '.join(which))
            else:
                chk.violation(R, inst, P.src, 'the handshake reads this field before writing it (W%d@%d) and neither br_ssl_engine_set_buffers_bidi (buffers reused), '
                              'br_ssl_engine_hs_reset nor br_ssl_%s_reset stores it: a reused context starts the next handshake with the value the previous '
                              'connection negotiated' % (sorted(rd[off])[0] + (key[3:],)), key='%s %s %s' % (R, key, name))
        # engine fields the bytecode only writes, but the engine's C code reads (record routing state): same requirement
        uc = build.load_unit(s)
        UC = irf.Units({'u': uc})
        cread = {}
        for fn_, F_ in UC.funcs.items():
            ps_ = F_.f['params']
            if not ps_ or 'br_ssl_engine_context' not in ps_[0]['ty']:
                continue
            for i_ in F_.insts.values():
                if i_['op'] == 'load':
                    b_, o_ = F_.addr_of(i_['ops'][0])
                    if b_ == {'k': 'a', 'v': 0} and o_ is not None:
                        cread.setdefault(o_, set()).add(fn_)
        for off in sorted((set(wr) - set(rd)) & set(cread)):
            fa = L.field_at(P.ctxname, off)
            name = fa[2] if fa else 'offset %d' % off
            if not name.startswith('eng.'):
                continue
            n2 += 1
            inst = '%s: %s (set by the handshake, read by %s) starts every connection from a defined value' % (key, name, ', '.join(sorted(cread[off])[:2]))
            w = c_reset_writes(off, fa[1])
            if w[0] or w[1] or w[2 if key == 'hs_client' else 3]:
                which = [nm for nm, x in zip(('set_buffers_bidi(NULL)', 'hs_reset', 'client_reset', 'server_reset'), w) if x]
                chk.ok(R, inst, P.src, 'stored on every non-failing path of %s' % ', '.join(which))
            else:
                chk.violation(R, inst, P.src, 'neither br_ssl_engine_set_buffers_bidi (buffers reused), br_ssl_engine_hs_reset nor br_ssl_%s_reset stores it: a reused '
                              'context starts the next connection with the value left by the previous one' % key[3:], key='%s %s %s c-read' % (R, key, name))
    chk.floor('handshake-mutable fields examined', n, 12)
    chk.floor('handshake-written, engine-read fields examined', n2, 6)


def ske_hash_by_version(chk):
    """Before TLS 1.2 the ServerKeyExchange signature has no algorithm field: ECDSA signs SHA-1 (RFC 4492 5.4), RSA signs
    MD5 || SHA-1 (RFC 4346 7.4.3).  The two stock certificate policies must therefore announce exactly that algorithm to the
    handshake code whenever the negotiated version is 1.0 or 1.1 (the peer cannot know anything else was used).
    Decided by partial evaluation of the choose() callbacks with session.version pinned."""
    R = 'ske-signature-hash-by-version'
    cvv = build.const_values(['br_sha1_ID'])
    n = 0
    for src, fn, want, what in (('src/ssl/ssl_scert_single_ec.c', 'se_choose', 0xFF00 + cvv['br_sha1_ID'], 'ECDSA with SHA-1'),
                               ('src/ssl/ssl_scert_single_rsa.c', 'sr_choose', 0xFF00, 'RSA with MD5+SHA-1')):
        U = oblig.funit(src)
        if fn not in U.funcs:
            raise AnalysisBroken('%s vanished from %s' % (fn, src))
        L = irf.Layouts(U.unit)
        o_ver = L.field('br_ssl_server_context', 'eng.session.version')[0]
        o_algo = L.field('br_ssl_server_choices', 'algo_id')[0]
        loads = U.field_loads(fn, 1, o_ver)
        if not loads:
            raise AnalysisBroken('%s: no load of session.version' % fn)
        for ver in (0x0301, 0x0302):
            hy = [dict(kind='pin', n=x['n'], value=ver) for x in loads]
            Fo = U.optimise(fn, hy, ('br_ssl_choose_hash',))
            okk, det = fold.expect_stores_only(Fo, 2, o_algo, {want}, need=True)
            n += 1
            inst = '%s: TLS %s ServerKeyExchange is signed as %s' % (fn, '1.0' if ver == 0x0301 else '1.1', what)
            if okk:
                chk.ok(R, inst, src, det)
            else:
                chk.violation(R, inst, src, det + ': the signature algorithm announced for this version is not the one the client will verify with', key='%s %s %x' % (R, fn, ver))
    chk.floor('policy/version cases', n, 4)


def key_export_seed(chk):
    """RFC 5705 section 4: exported keying material is PRF(master_secret, label, client_random + server_random [+ uint16 context
    length + context]); "a zero-length context value is not the same as no context".  Decided by partial evaluation of
    br_ssl_key_export() for context = NULL / non-NULL with length 0 / non-NULL with length 0x1234: the number of seed chunks, the
    image of the chunk array and of the length prefix, the secret and its length."""
    from .. import oblig as _o, fold as _f, irf as _irf
    R = 'key-export-seed'
    src = 'src/ssl/ssl_keyexport.c'
    fn = 'br_ssl_key_export'
    U = _o.funit(src)
    if fn not in U.funcs:
        raise AnalysisBroken('%s vanished' % fn)
    F = U.func(fn)
    ps = F.f['params']
    if len(ps) != 6:
        raise AnalysisBroken('%s: signature changed' % fn)
    L = _irf.Layouts(build.load_unit(src))

    def off(f):
        r = L.field('br_ssl_engine_context', f)
        if r is None:
            raise AnalysisBroken('br_ssl_engine_context.%s vanished' % f)
        return r
    cr, sr = off('client_random'), off('server_random')
    ses = off('session')
    ms = L.field('br_ssl_session_parameters', 'master_secret')
    cases = [('no context', [dict(kind='assume', n=ps[4]['n'], ty=ps[4]['ty'], pred='eq', value='null', param=True)], 2, None),
             ('empty context (non-NULL, length 0)', [dict(kind='assume', n=ps[4]['n'], ty=ps[4]['ty'], pred='ne', value='null', param=True),
                                                    dict(kind='assume', n=ps[5]['n'], ty=ps[5]['ty'], pred='eq', value=0, param=True)], 4, 0),
             ('context of 0x1234 bytes', [dict(kind='assume', n=ps[4]['n'], ty=ps[4]['ty'], pred='ne', value='null', param=True),
                                          dict(kind='assume', n=ps[5]['n'], ty=ps[5]['ty'], pred='eq', value=0x1234, param=True)], 4, 0x1234)]
    n = 0
    for label, hy, wnum, clen in cases:
        Fo = U.optimise(fn, hy, ())
        reach = sorted(_f._reach_insts(Fo), key=lambda c: c['id'])
        ic = [c for c in reach if c['op'] == 'call' and c.get('callee') is None and len(c['ops']) == 7]
        inst = '%s: %s => PRF seed has %d chunks%s' % (fn, label, wnum, '' if clen is None else ', the third is the big-endian uint16 %#x' % clen)
        n += 1
        if len(ic) != 1:
            chk.violation(R, inst, src, '%d PRF calls remain under the hypothesis' % len(ic), key='%s %s' % (R, label))
            continue
        c = ic[0]
        bad = []
        if not (c['ops'][5]['k'] == 'c' and c['ops'][5]['v'] == wnum):
            bad.append('seed chunk count is %s' % (c['ops'][5].get('v') if c['ops'][5]['k'] == 'c' else 'not constant'))
        sb, so = Fo.addr_of(c['ops'][2])
        if not (sb == {'k': 'a', 'v': 0} and so == ses[0] + ms[0] and c['ops'][3]['k'] == 'c' and c['ops'][3]['v'] == ms[1]):
            bad.append('secret is not the %d-byte session master secret' % ms[1])
        if c['ops'][4] != {'k': 'a', 'v': 3} or c['ops'][0] != {'k': 'a', 'v': 1} or c['ops'][1] != {'k': 'a', 'v': 2}:
            bad.append('label / output arguments are not forwarded')
        cb, co = Fo.addr_of(c['ops'][6])
        img = {}
        allocas = {}
        for i in reach:
            if i['op'] == 'store':
                b, o = Fo.addr_of(i['ops'][1])
                if b == cb:
                    img[o - co] = i['ops'][0]
                elif b['k'] == 'i' and Fo.insts[b['v']]['op'] == 'alloca':
                    allocas.setdefault(b['v'], {})[o] = i['ops'][0]

        def is_field(o, f):
            if o['k'] != 'i':
                return False
            b, k = Fo.addr_of(o)
            return b == {'k': 'a', 'v': 0} and k == f[0]

        def cst(o, v):
            return o is not None and o['k'] == 'c' and o['v'] == v
        if not (is_field(img.get(0, {'k': 'x'}), cr) and cst(img.get(8), cr[1])):
            bad.append('chunk 0 is not the %d-byte client random' % cr[1])
        if not (is_field(img.get(16, {'k': 'x'}), sr) and cst(img.get(24), sr[1])):
            bad.append('chunk 1 is not the %d-byte server random' % sr[1])
        if clen is not None:
            t = img.get(32)
            tb = Fo.addr_of(t)[0] if t is not None and t['k'] == 'i' else None
            timg = allocas.get(tb['v']) if tb and tb['k'] == 'i' else None
            if not (timg and cst(img.get(40), 2) and cst(timg.get(0), clen >> 8) and cst(timg.get(1), clen & 0xFF)):
                bad.append('chunk 2 is not the 2-byte big-endian context length (image %s)' % (timg,))
            if not (img.get(48) == {'k': 'a', 'v': 4} and cst(img.get(56), clen)):
                bad.append('chunk 3 is not (context, context_len)')
        if bad:
            chk.violation(R, inst, src, '; '.join(bad), key='%s %s' % (R, label))
        else:
            chk.ok(R, inst, src)
    chk.floor('key export cases', n, 3)


def explicit_nonce_from_record(chk):
    """RFC 5288 section 3 / RFC 6655: the receiver of an AES-GCM or AES-CCM record builds the nonce from its implicit salt and the 8-byte
    explicit part *carried by the record* (the sender may choose it freely, it need not be the sequence number - other
    implementations start from a random value).  Structural rule: in the decrypt function the 8 nonce bytes at offset 4 come from the
    first 8 bytes of the record (the pointer handed to the CTR helper, or the source of the copy into the nonce buffer), never from
    the receiver's own state."""
    R = 'explicit-nonce-from-record'
    n = 0
    for src, fn in (('src/ssl/ssl_rec_gcm.c', 'gcm_decrypt'), ('src/ssl/ssl_rec_ccm.c', 'ccm_decrypt')):
        u = build.load_unit(src)
        F = next((irf.Func(u, f) for f in u['functions'] if f['name'] == fn and f.get('blocks')), None)
        if F is None:
            raise AnalysisBroken('%s vanished from %s' % (fn, src))
        # parameter `data` is the 4th (cc, record_type, version, data, data_len)
        DATA = {'k': 'a', 'v': 3}
        srcs = []
        for c in F.calls():
            cal = c.get('callee') or ''
            if cal == 'do_ctr':
                srcs.append((c, F.addr_of(c['ops'][1])))
            elif cal.startswith('llvm.memcpy') and c['ops'][2]['k'] == 'c' and c['ops'][2]['v'] == 8:
                db, do = F.addr_of(c['ops'][0])
                if db['k'] == 'i' and F.insts[db['v']]['op'] == 'alloca' and do == 4:
                    srcs.append((c, F.addr_of(c['ops'][1])))
        n += 1
        inst = '%s: the explicit nonce is read from the first 8 bytes of the received record' % fn
        if not srcs:
            chk.violation(R, inst, F.where(), 'no nonce source identified (neither a do_ctr call nor an 8-byte copy to offset 4 of a local nonce)', key='%s %s none' % (R, fn))
        elif all(a == (DATA, 0) for _, a in srcs):
            chk.ok(R, inst, F.where(srcs[0][0]))
        else:
            c, a = next((c, a) for c, a in srcs if a != (DATA, 0))
            chk.violation(R, inst, F.where(c), 'the nonce bytes come from %s: records from a peer whose explicit nonce is not its sequence number fail authentication'
                          % ('a local buffer' if a[0]['k'] == 'i' else 'another object'), key='%s %s' % (R, fn))
    chk.floor('AEAD record decrypt functions', n, 2)


def transcript_follows_wire(chk):
    """The Finished verify_data (and the CertificateVerify / extended-master-secret hashes) are computed over the handshake messages as
    they go over the wire.  The four natives that move handshake bytes between the engine's handshake window (hbuf_in / hbuf_out) and
    the context (read-chunk-native, read8-native, write-blob-chunk, write8-native) are the only places where the running hash is fed:
    in each, the bytes hashed must be the bytes consumed -- the hashed length is the very amount by which the window pointer advances
    and the window length shrinks, the hashed pointer is the window pointer itself (or the one-byte local that holds the byte taken
    from / put into the window); and every advance of a window is preceded by such an update in the same native.  A hash fed with the
    remaining blob length instead of the chunk length agrees with the wire only while no message straddles a record boundary."""
    R = 'transcript-follows-wire'
    n = 0
    for src, fn in (('src/ssl/ssl_hs_client.c', 'br_ssl_hs_client_run'), ('src/ssl/ssl_hs_server.c', 'br_ssl_hs_server_run')):
        u = build.load_unit(src)
        L = irf.Layouts(u)
        F = next((irf.Func(u, f) for f in u['functions'] if f['name'] == fn and f.get('blocks')), None)
        if F is None:
            raise AnalysisBroken('%s vanished from %s' % (fn, src))
        cpu = L.field('br_ssl_engine_context', 'cpu')[0]
        off = {k: L.field('br_ssl_engine_context', k)[0] - cpu for k in ('mhash', 'hbuf_in', 'hlen_in', 'hbuf_out', 'hlen_out', 'record_type_in', 'record_type_out')}
        CTX = {'k': 'a', 'v': 0}
        sw = [b['insts'][-1] for b in F.blocks if b['insts'][-1]['op'] == 'switch']
        if not sw:
            raise AnalysisBroken('%s: no dispatch switch' % fn)
        D = F.block_of[max(sw, key=lambda i: len(i['ops']))['id']]

        def fld(o):
            b, k = F.addr_of(o)
            if b == CTX:
                return next((nm for nm, v in off.items() if v == k), None)
            return None

        def region(b0, forward=True):
            seen, st = {b0}, [b0]
            while st:
                b = st.pop()
                for x in (F.succ[b] if forward else F.pred[b]):
                    if x != D and x not in seen:
                        seen.add(x)
                        st.append(x)
            return seen

        def same(a, b):
            a, b = F.strip_casts(a), F.strip_casts(b)
            if a['k'] == 'c' and b['k'] == 'c':
                return a['v'] == b['v']
            return a['k'] == b['k'] == 'i' and a['v'] == b['v']

        def advance(st):
            """(direction, amount operand) of a store that advances hbuf_X or shrinks hlen_X; amount None if not of that shape"""
            f = fld(st['ops'][1])
            v = st['ops'][0]
            if v['k'] != 'i':
                return f, None
            j = F.insts[v['v']]
            if j['op'] == 'getelementptr' and f.startswith('hbuf'):
                base = F.strip_casts(j['ops'][0])
                if base['k'] == 'i' and F.insts[base['v']]['op'] == 'load' and fld(F.insts[base['v']]['ops'][0]) == f:
                    if j.get('var') and len(j['var']) == 1 and j['var'][0][1] == 1 and not j.get('off'):
                        return f, j['var'][0][0]
                    if not j.get('var'):
                        return f, {'k': 'c', 'v': j.get('off')}
            if j['op'] in ('sub', 'add') and f.startswith('hlen'):
                a, b = j['ops']
                a = F.strip_casts(a)
                if a['k'] == 'i' and F.insts[a['v']]['op'] == 'load' and fld(F.insts[a['v']]['ops'][0]) == f:
                    if j['op'] == 'sub':
                        return f, b
                    if b['k'] == 'c':
                        return f, {'k': 'c', 'v': -b['v']}
            return f, None
        upd = [c for c in F.calls('br_multihash_update') if fld(c['ops'][0]) == 'mhash']
        stores = [i for i in F.insts.values() if i['op'] == 'store' and fld(i['ops'][1]) in ('hbuf_in', 'hlen_in', 'hbuf_out', 'hlen_out')]
        for c in upd:
            n += 1
            inst = '%s:%s: the running handshake hash is fed exactly the bytes this native moves through the window' % (fn, c.get('line'))
            reg = region(F.block_of[c['id']]) | region(F.block_of[c['id']], forward=False)
            here = [s_ for s_ in stores if F.block_of[s_['id']] in reg]
            adv = [(s_,) + advance(s_) for s_ in here]
            dirs = set(f[-2:] if f.endswith('in') else 'out' for _, f, _ in adv)
            bad = None
            if len(adv) != 2 or len(dirs) != 1 or set(f[:4] for _, f, _ in adv) != {'hbuf', 'hlen'}:
                bad = 'the native does not advance exactly one window pointer and its length after the update (%s)' % sorted(f for _, f, _ in adv)
            else:
                d = 'in' if next(iter(dirs)) == 'in' else 'out'
                for s_, f, amt in adv:
                    if amt is None or not same(amt, c['ops'][2]):
                        bad = '%s moves by another amount than the %s bytes hashed' % (f, 'constant' if c['ops'][2]['k'] == 'c' else 'variable number of')
                        break
                if not bad:
                    pb, po = F.addr_of(c['ops'][1])
                    pv = F.strip_casts(c['ops'][1])
                    if pv['k'] == 'i' and F.insts[pv['v']]['op'] == 'load' and fld(F.insts[pv['v']]['ops'][0]) == 'hbuf_' + d:
                        pass
                    elif pb['k'] == 'i' and F.insts[pb['v']]['op'] == 'alloca' and po == 0 and c['ops'][2]['k'] == 'c' and c['ops'][2]['v'] == 1:
                        # the one-byte local: it must be the byte read from / written to the window
                        x = pb['v']
                        wr = [i for i in F.insts.values() if i['op'] == 'store' and F.addr_of(i['ops'][1]) == (pb, 0)]
                        okb = False
                        if d == 'in':
                            for w in wr:
                                v = F.strip_casts(w['ops'][0])
                                if v['k'] == 'i' and F.insts[v['v']]['op'] == 'load':
                                    a = F.strip_casts(F.insts[v['v']]['ops'][0])
                                    if a['k'] == 'i' and F.insts[a['v']]['op'] == 'load' and fld(F.insts[a['v']]['ops'][0]) == 'hbuf_in':
                                        okb = True
                        else:
                            for s2 in F.insts.values():
                                if s2['op'] != 'store' or F.block_of[s2['id']] not in reg:
                                    continue
                                a = F.strip_casts(s2['ops'][1])
                                if a['k'] == 'i' and F.insts[a['v']]['op'] == 'load' and fld(F.insts[a['v']]['ops'][0]) == 'hbuf_out':
                                    v = F.strip_casts(s2['ops'][0])
                                    if (v['k'] == 'i' and F.insts[v['v']]['op'] == 'load' and F.addr_of(F.insts[v['v']]['ops'][0]) == (pb, 0)) or \
                                            any(same(w['ops'][0], s2['ops'][0]) for w in wr):
                                        okb = True
                        if not okb:
                            bad = 'the byte hashed is not the byte %s the window' % ('read from' if d == 'in' else 'stored into')
                    else:
                        # or the other side of the copy that moves these very bytes through the window
                        okc = False
                        for m in F.calls():
                            if not (m.get('callee') or '').startswith(('llvm.memcpy', 'llvm.memmove', 'memcpy')) or F.block_of[m['id']] not in reg:
                                continue
                            sides = [F.strip_casts(m['ops'][0]), F.strip_casts(m['ops'][1])]
                            isw = [x['k'] == 'i' and F.insts[x['v']]['op'] == 'load' and fld(F.insts[x['v']]['ops'][0]) == 'hbuf_' + d for x in sides]
                            if any(isw) and same(m['ops'][2], c['ops'][2]) and any(same(x, c['ops'][1]) for x, w in zip(sides, isw) if not w):
                                okc = True
                        if not okc:
                            bad = 'the pointer hashed is neither the hbuf_%s window pointer nor the other side of the copy through it' % d
                if not bad:
                    # only handshake records are hashed: the update is on the taken side of `record_type_<dir> == BR_SSL_HANDSHAKE`
                    cb = F.block_of[c['id']]
                    okg = False
                    for pb_ in F.pred[cb]:
                        t = next(b for b in F.blocks if b['id'] == pb_)['insts'][-1]
                        if t['op'] != 'br' or len(t['ops']) != 3 or t['ops'][0]['k'] != 'i':
                            continue
                        q = F.insts[t['ops'][0]['v']]
                        if q['op'] == 'icmp' and q.get('pred') == 'eq' and q['ops'][1]['k'] == 'c' and q['ops'][1]['v'] == 22:
                            lv = F.strip_casts(q['ops'][0])
                            if lv['k'] == 'i' and F.insts[lv['v']]['op'] == 'load' and fld(F.insts[lv['v']]['ops'][0]) == 'record_type_' + d \
                                    and t['ops'][2].get('v') == cb and t['ops'][1].get('v') != cb and len(F.pred[cb]) == 1:
                                okg = True
                    if not okg:
                        bad = 'the update is not guarded by record_type_%s == BR_SSL_HANDSHAKE (ChangeCipherSpec and alert bytes are not part of the transcript)' % d
            if bad:
                chk.violation(R, inst, F.where(c), bad + ': the transcript hash diverges from the bytes sent whenever the two differ (a message '
                              'continued in the next record), and the Finished check fails', key='%s %s %s' % (R, fn, bad[:24]))
            else:
                chk.ok(R, inst, F.where(c))
        # converse: every advance of a window is preceded, in its native, by an update of the running hash
        for s_ in stores:
            f, amt = advance(s_)
            if not f.startswith('hbuf') or amt is None:
                continue
            n += 1
            inst = '%s:%s: advancing %s is accompanied by an update of the running handshake hash' % (fn, s_.get('line'), f)
            reg = region(F.block_of[s_['id']], forward=False) | region(F.block_of[s_['id']])
            if any(F.block_of[c['id']] in reg for c in upd):
                chk.ok(R, inst, F.where(s_))
            else:
                chk.violation(R, inst, F.where(s_), 'handshake bytes leave or enter the window without being hashed', key='%s %s adv %s' % (R, fn, f))
    chk.floor('transcript natives', n, 16)


def max_fragment_fields_agree(chk):
    """The engine keeps the record payload limit twice: max_frag_len (what it sends and accepts) and log_max_frag_len (what the Maximum
    Fragment Length extension advertises / checks, RFC 6066 section 4).  br_ssl_engine_set_buffers_bidi derives both from the buffer size:
    max_frag_len must be 1 << X for the very X stored in log_max_frag_len - if the two are computed from different values (the
    8192 -> 4096 rounding applied to one of them only), a peer that honours the advertised 4096 receives 8192-byte records and
    fails with record overflow."""
    R = 'max-fragment-fields-agree'
    src = 'src/ssl/ssl_engine.c'
    u = build.load_unit(src)
    L = irf.Layouts(u)
    F = next((irf.Func(u, f) for f in u['functions'] if f['name'] == 'br_ssl_engine_set_buffers_bidi' and f.get('blocks')), None)
    if F is None:
        raise AnalysisBroken('br_ssl_engine_set_buffers_bidi vanished')
    om, ol = L.field('br_ssl_engine_context', 'max_frag_len')[0], L.field('br_ssl_engine_context', 'log_max_frag_len')[0]
    RC = {'k': 'a', 'v': 0}
    sm = [i for i in F.insts.values() if i['op'] == 'store' and F.addr_of(i['ops'][1]) == (RC, om)]
    sl = [i for i in F.insts.values() if i['op'] == 'store' and F.addr_of(i['ops'][1]) == (RC, ol)]
    if len(sm) != 1 or len(sl) != 1:
        raise AnalysisBroken('set_buffers_bidi: %d / %d stores to max_frag_len / log_max_frag_len' % (len(sm), len(sl)))
    inst = 'br_ssl_engine_set_buffers_bidi: max_frag_len = 1 << (the value stored in log_max_frag_len)'
    v = F.strip_casts(sm[0]['ops'][0])
    sh = F.insts[v['v']] if v['k'] == 'i' else None
    if sh is None or sh['op'] != 'shl' or sh['ops'][0].get('v') != 1:
        chk.violation(R, inst, F.where(sm[0]), 'max_frag_len is not stored as 1 << X', key=R)
    elif F.strip_casts(sh['ops'][1]) == F.strip_casts(sl[0]['ops'][0]):
        chk.ok(R, inst, F.where(sm[0]))
    else:
        chk.violation(R, inst, F.where(sl[0]), 'the shift amount and the stored logarithm are different values: the advertised / checked maximum fragment length is not '
                      'the one the record layer uses', key=R)


def ec_work_buffers(chk):
    """Every supported curve must be usable in the key exchange (P-521: 66-byte coordinates and scalars, 133-byte points).  The handshake
    code copies the shared X coordinate, the ephemeral scalar and the peer's point through fixed local arrays; an array smaller than
    the largest curve either truncates the secret (the two ends then derive different keys and the Finished check fails) or is
    clamped away.  Rule: the local arrays of the ECDH routines are at least (BR_MAX_EC_SIZE + 7) / 8 bytes, resp. twice that plus
    one for points; sizes from the debug-info declarations of the current tree."""
    R = 'ecdh-buffers-hold-largest-curve'
    cv = build.const_values(['(BR_MAX_EC_SIZE + 7) >> 3'])
    xl = cv['(BR_MAX_EC_SIZE + 7) >> 3']
    WANT = [('src/ssl/ssl_hs_server.c', 'ecdh_common', 'rpms', xl, 'random replacement of the shared X coordinate'),
            ('src/ssl/ssl_hs_client.c', 'make_pms_ecdh', 'key', xl, 'ephemeral scalar'),
            ('src/ssl/ssl_hs_client.c', 'make_pms_ecdh', 'point', 2 * xl + 1, 'peer / own public point')]
    n = 0
    for src, fn, var, need, what in WANT:
        u = build.load_unit(src)
        F = next((irf.Func(u, f) for f in u['functions'] if f['name'] == fn and f.get('blocks')), None)
        if F is None:
            raise AnalysisBroken('%s vanished from %s' % (fn, src))
        al = [F.insts[d['v']] for d in F.f.get('declares', []) if d['var'] == var and d['v'] in F.insts]
        n += 1
        inst = '%s: local %s[] (%s) holds at least %d bytes' % (fn, var, what, need)
        if not al:
            chk.violation(R, inst, F.where(), 'no local array named %s' % var, key='%s %s %s' % (R, fn, var))
        elif al[0].get('size', 0) >= need:
            chk.ok(R, inst, F.where(al[0]), '%d bytes' % al[0]['size'])
        else:
            chk.violation(R, inst, F.where(al[0]), 'it has %d bytes: with secp521r1 the value does not fit and the handshake cannot complete (or the secret is truncated)'
                          % al[0].get('size', 0), key='%s %s %s' % (R, fn, var))
    chk.floor('ECDH work buffers', n, 3)


def run(tier):
    chk = report.Check('C01', tier,
                       'Static clauses of "both sides agree": the cipher-suite table of both handshake interpreters equals the IANA registry '
                       '(45 suites, key exchange / cipher / MAC / PRF derived from the registered names) and is identical on both sides; '
                       'suites_sha384[] matches; for every suite the constants reaching the switch-* natives (mode, key length, MAC hash, PRF '
                       'hash, CCM tag length) are the registry\'s (concrete unrolling of the table scan in the T0 interpreter model); the eight '
                       'br_ssl_engine_switch_* functions place MAC key, cipher key and IV at the RFC 5246 6.3 offsets for both roles, reader and '
                       'writer tables agreeing, with the right key-block length; the transition table of the record engine\'s I/O machine '
                       '(sa/engio.py: empty records return to the ready state, consumed windows are recycled, full payload windows are flushed, '
                       'sent records open a new one, make_ready_* establish the documented register values, max_frag_len clamps the window); '
                       'application-data gates are decided under C06. NOT decided: '
                       'byte-exact delivery under all chunkings (the register arithmetic between transitions), interoperability of values.',
                       trusted=['IANA table embedded in sa/checks/c01.py', 'sa/t0ai.py', 'debug-info variable names of the switch functions'])
    suite_table(chk)
    switch_encryption(chk)
    key_block_layout(chk)
    premaster_version(chk)
    handshake_state_reset(chk)
    ske_hash_by_version(chk)
    key_export_seed(chk)
    explicit_nonce_from_record(chk)
    ec_work_buffers(chk)
    transcript_follows_wire(chk)
    max_fragment_fields_agree(chk)
    from .c19 import io_wrapper_acks_transport_count
    io_wrapper_acks_transport_count(chk)      # 'all transport chunkings': short writes of the transport callback
    from .c02 import cbc_padding_length_range
    cbc_padding_length_range(chk)
    from .c02 import length_gates_accept
    length_gates_accept(chk)      # 'all payload lengths around fragment boundaries': a full 2^14 fragment is admitted by every mode
    from .. import engio, oblig as _ob
    _ob.run_obligations(chk, engio.progress_obligations())
    engio.ready_state(chk)
    chk.floor('rule instances', len(chk.obls), 100)
    return chk.finish()
