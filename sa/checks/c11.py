"""C11 — EC: rejection obligations in every implementation + curve constants against SEC 2 / RFC 7748 (DESIGN §4 C11)."""
import re
from .. import build, report, oblig, tab, irf
from ..oblig import Ob, Call, ICall, Var, RET, ALL, NOCALL
from .c13 import cmp_table
from ..build import AnalysisBroken


def constants(chk):
    R = 'curve-constants'
    tab.check_curve_refs()
    for name, c in tab.CURVES.items():
        bits = {'secp256r1': 'P256', 'secp384r1': 'P384', 'secp521r1': 'P521'}[name]
        src = 'src/ec/ec_%s.c' % name
        u = build.load_unit(src)
        cmp_table(chk, R, u, bits + '_N', tab.be_bytes(c['n'], c['len']), 'SEC 2 order n', src)
        cmp_table(chk, R, u, bits + '_G', [4] + tab.be_bytes(c['gx'], c['len']) + tab.be_bytes(c['gy'], c['len']), 'SEC 2 generator (uncompressed)', src)
        fl = tab.global_fields(u, 'br_' + name)
        want = [(0, c['id']), (8, bits + '_N'), (16, c['len']), (24, bits + '_G'), (32, 2 * c['len'] + 1)]
        got = [(o, v) for o, s, v in fl]
        inst = 'br_%s = {id %d, order, %d, generator, %d}' % (name, c['id'], c['len'], 2 * c['len'] + 1)
        if got == want:
            chk.ok(R, inst, src)
        else:
            chk.violation(R, inst, src, 'definition is %s' % got, key='%s def %s' % (R, name))
        p = c['p']
        pl = p.bit_length()
        for w, enc, wb in (('i15', tab.enc_i15, 15), ('i31', tab.enc_i31, 31)):
            src = 'src/ec/ec_prime_%s.c' % w
            u = build.load_unit(src)
            k = (pl + wb - 1) // wb
            Rm = 1 << (wb * k)
            cmp_table(chk, R, u, bits + '_P', enc(p), 'field prime (%s words)' % w, src)
            cmp_table(chk, R, u, bits + '_R2', enc(Rm * Rm % p, pl), 'R^2 mod p, R=2^%d' % (wb * k), src)
            cmp_table(chk, R, u, bits + '_B', enc(c['b'] * Rm % p, pl), 'b*R mod p', src)
    # P-256 specialised implementations that carry their own copy of G and n
    c = tab.CURVES['secp256r1']
    for impl in ('m31', 'm62', 'm64'):
        src = 'src/ec/ec_p256_%s.c' % impl
        u = build.load_unit(src)
        if tab.ints_of_global(u, 'P256_G') is None:
            continue
        cmp_table(chk, R, u, 'P256_N', tab.be_bytes(c['n'], 32), 'order n', src)
        cmp_table(chk, R, u, 'P256_G', [4] + tab.be_bytes(c['gx'], 32) + tab.be_bytes(c['gy'], 32), 'generator', src)
    # Curve25519
    c = tab.C25519
    gen = [9] + [0] * 31
    order = [0x7F] + [0xFF] * 31        # BearSSL convention: "order" bounds the clamped scalar range (RFC 7748 scalars < 2^255)
    for f in ('ec_curve25519', 'ec_c25519_i15', 'ec_c25519_i31', 'ec_c25519_m15', 'ec_c25519_m31', 'ec_c25519_m62', 'ec_c25519_m64'):
        src = 'src/ec/%s.c' % f
        u = build.load_unit(src)
        if tab.ints_of_global(u, 'GEN') is None:
            continue
        cmp_table(chk, R, u, 'GEN', gen, 'RFC 7748 base point u=9 (little-endian)', src)
        cmp_table(chk, R, u, 'ORDER', order, 'scalar bound 2^255-1 (big-endian)', src)
    p = c['p']
    for w, enc, wb in (('i15', tab.enc_i15, 15), ('i31', tab.enc_i31, 31)):
        src = 'src/ec/ec_c25519_%s.c' % w
        u = build.load_unit(src)
        k = (255 + wb - 1) // wb
        Rm = 1 << (wb * k)
        cmp_table(chk, R, u, 'C255_P', enc(p), '2^255-19', src)
        cmp_table(chk, R, u, 'C255_R2', enc(Rm * Rm % p, 255), 'R^2 mod p', src)
        cmp_table(chk, R, u, 'C255_A24', enc(c['a24'] * Rm % p, 255), '(A-2)/4 = 121665 in Montgomery form', src)


def _u1_zero_test(w):
    """selector of the zero test of u1 = e/s in the verifier: the br_iXX_iszero call that lies between the Montgomery multiplications
    and the point computation (the r / s tests come before, the final comparison after)"""
    def pred(F, i):
        o = F.order[i['id']]
        mm = [c for c in F.calls('br_%s_montymul' % w)]
        ic = [c for c in F.calls() if c.get('callee') is None]
        return bool(mm) and bool(ic) and min(F.order[c['id']] for c in mm) < o < max(F.order[c['id']] for c in ic)
    return Call('br_%s_iszero' % w, pred=pred)


def obligations():
    obs = []
    for w in ('i15', 'i31'):
        s = 'src/ec/ec_prime_%s.c' % w
        R = 'ec-prime-api'
        obs += [
            Ob(s, 'point_decode', Call('br_%s_decode_mod' % w), ('pin', 0), RET(0), ('pin', 1), 'coordinate not below p must be rejected', rule=R, min_sites=2),
            Ob(s, 'point_decode', Call('run_code'), ('pin', 1), RET(0), ('pin', 0), 'point not on the curve must be rejected', rule=R),
            Ob(s, 'api_mul', Call('point_decode'), ('pin', 0), RET(0), ('pin', 1), 'invalid point', rule=R),
            Ob(s, 'api_muladd', Call('point_decode'), ('pin', 0), RET(0), ('pin', 1), 'invalid point (either operand)', rule=R, min_sites=2),
        ]
        s = 'src/ec/ecdsa_%s_vrfy_raw.c' % w
        f = 'br_ecdsa_%s_vrfy_raw' % w
        R = 'ecdsa-verify'
        # the zero test of u1 = e/s (third zero test; see zero_hash_verification) splits the point computation into two paths
        zt = len(_u1_zero_test(w).sites(oblig.funit(s), f)) == 1
        obs += [
            Ob(s, f, Call('br_%s_decode_mod' % w), ('pin', 0), RET(0), ('pin', 1), 'r or s not below n must be rejected', rule=R, min_sites=2),
            Ob(s, f, Call('br_%s_iszero' % w, nth=0), ('pin', 1), RET(0), ('pin', 0), 's = 0 must be rejected', rule=R),
            Ob(s, f, ICall('muladd', ftype=r'^i32 \(i8\*, i8\*, i64, i8\*, i64, i8\*, i64, i32\)'), ('pin', 0), RET(0), ('pin', 1),
               'failed point computation (invalid key / infinity) must be rejected', rule=R,
               extra_hyps=[(_u1_zero_test(w), ('pin', 0))] if zt else []),
        ]
        if zt:
            obs.append(Ob(s, f, ICall('mul', ftype=r'^i32 \(i8\*, i64, i8\*, i64, i32\)'), ('pin', 0), RET(0), ('pin', 1),
                          'failed point computation on the zero-hash path (invalid key) must be rejected', rule=R,
                          extra_hyps=[(_u1_zero_test(w), ('pin', 1))]))
        s = 'src/ec/ecdsa_%s_vrfy_asn1.c' % w
        f = 'br_ecdsa_%s_vrfy_asn1' % w
        fl = build.const_values(['((FIELD_LEN << 2) + 24) >> 1'], includes=('ec/ecdsa_%s_vrfy_asn1.c' % w,))['((FIELD_LEN << 2) + 24) >> 1']
        obs += [
            Ob(s, f, Var('sig_len', 'param'), ('assume', 'ugt', fl), ALL(RET(0), NOCALL('br_ecdsa_asn1_to_raw')), ('assume', 'ult', 16),
               'oversized ASN.1 signature must be rejected before the copy', rule=R),
        ]
    return obs


def asn1_sig_obligations():
    """br_ecdsa_asn1_to_raw: SEQUENCE { INTEGER r, INTEGER s } with exact length agreement (the converter is documented as lenient on
    minimality only): wrong tags, a SEQUENCE length that is not exactly the rest of the input (short and long form), INTEGER lengths
    of 128 or more, an s that does not end exactly at the end of the input, all make it return 0.  Shared with C04 (certificate
    signatures go through this converter: a changed length byte must not be accepted)."""
    from ..oblig import ByteLoad
    s = 'src/ec/ecdsa_atr.c'
    f = 'br_ecdsa_asn1_to_raw'
    R = 'ecdsa-asn1-lengths-exact'
    SL = Var('sig_len', 'param')
    B = lambda n, nm, **k: ByteLoad(0, n, nm, **k)
    obs = [
        Ob(s, f, SL, ('assume', 'ult', 8), RET(0), ('assume', 'ugt', 100), 'fewer than 8 bytes', rule=R),
        Ob(s, f, B(0, 'SEQUENCE tag'), ('pin', 0x31), RET(0), ('pin', 0x30), 'first byte is not the SEQUENCE tag', rule=R),
        Ob(s, f, B(1, 'SEQUENCE length byte'), ('pin', 0x82), RET(0), ('pin', 0x20), 'length of length above 1', rule=R),
        Ob(s, f, B(2, 'long-form SEQUENCE length', widened=True), ('pinexpr', 'sub', SL, 4), RET(0), ('pinexpr', 'sub', SL, 3),
           'long form (30 81 xx): declared length one less than the remaining bytes', rule=R, extra_hyps=[(B(1, 'SEQUENCE length byte'), ('pin', 0x81))]),
        Ob(s, f, B(2, 'long-form SEQUENCE length', widened=True), ('pinexpr', 'sub', SL, 2), RET(0), None,
           'long form (30 81 xx): declared length one more than the remaining bytes', rule=R, extra_hyps=[(B(1, 'SEQUENCE length byte'), ('pin', 0x81))]),
        Ob(s, f, B(1, 'short-form SEQUENCE length', widened=True), ('pinexpr', 'sub', SL, 3), RET(0), ('pinexpr', 'sub', SL, 2),
           'short form: declared length one less than the remaining bytes', rule=R, extra_hyps=[(SL, ('assume', 'ult', 0x80))]),
        Ob(s, f, B(1, 'short-form SEQUENCE length', widened=True), ('pinexpr', 'sub', SL, 1), RET(0), None,
           'short form: declared length one more than the remaining bytes', rule=R, extra_hyps=[(SL, ('assume', 'ult', 0x80))]),
        Ob(s, f, B(3, 'INTEGER tag of r'), ('pin', 3), RET(0), ('pin', 2), 'r is not an INTEGER', rule=R),
        Ob(s, f, B(4, 'length of r'), ('pin', 0x80), RET(0), ('pin', 0x20), 'length of r is 128 or more', rule=R),
        Ob(s, f, B(5, 'INTEGER tag of s'), ('pin', 3), RET(0), ('pin', 2), 's is not an INTEGER', rule=R),
        Ob(s, f, B(6, 'length of s'), ('pin', 0x80), RET(0), ('pin', 0x20), 'length of s is 128 or more', rule=R),
        # 30 20 02 10 <16 bytes> 02 LL ... with sig_len = 0x22: s starts at offset 22, so LL must be 12
        Ob(s, f, B(6, 'length of s'), ('pin', 11), RET(0), ('pin', 12), 's ends before the end of the input', rule=R,
           extra_hyps=[(SL, ('assume', 'eq', 0x22)), (B(1, 'SEQUENCE length byte'), ('pin', 0x20)), (B(4, 'length of r'), ('pin', 0x10))]),
        Ob(s, f, B(6, 'length of s'), ('pin', 13), RET(0), None, 's extends beyond the end of the input', rule=R,
           extra_hyps=[(SL, ('assume', 'eq', 0x22)), (B(1, 'SEQUENCE length byte'), ('pin', 0x20)), (B(4, 'length of r'), ('pin', 0x10))]),
        Ob(s, f, B(4, 'length of r'), ('pin', 0x1D), RET(0), ('pin', 0x10), 'r leaves no room for the header of s', rule=R,
           extra_hyps=[(SL, ('assume', 'eq', 0x22)), (B(1, 'SEQUENCE length byte'), ('pin', 0x20))]),
    ]
    return obs


def asn1_integer_sign(chk):
    """X.690 8.3: an INTEGER is two's complement; r and s are positive, so a value whose first significant byte has bit 7 set needs a
    leading 0x00 byte, and zero is encoded as one byte.  Decided by partial evaluation of asn1_int_length() (raw -> ASN.1 converter)
    for a one-byte value b: length 2 for b >= 0x80, else 1."""
    from ..oblig import ByteLoad
    from .. import fold
    R = 'ecdsa-asn1-integer-sign'
    src, fn = 'src/ec/ecdsa_rta.c', 'asn1_int_length'
    U = oblig.funit(src)
    if fn not in U.funcs:
        raise AnalysisBroken('%s vanished from %s' % (fn, src))
    F = U.func(fn)
    ps = F.f['params']
    lds = []
    for k in range(4):
        st = ByteLoad(0, k).sites(U, fn)
        if st:
            lds.append(st[0][1])
    if not lds:
        raise AnalysisBroken('%s: no load of the value bytes' % fn)
    for b in (0x00, 0x01, 0x7F, 0x80, 0x81, 0xFF):
        hy = [dict(kind='assume', n=ps[1]['n'], ty=ps[1]['ty'], pred='eq', value=1, param=True)] + \
             [dict(kind='assume', n=ld['n'], ty='i8', pred='eq', value=b if b < 128 else b - 256) for ld in lds]
        Fo = U.optimise(fn, hy, ())
        want = 2 if b >= 0x80 else 1
        okk, det = fold.expect_ret_const(Fo, want)
        inst = '%s: the one-byte value %#04x is encoded over %d byte(s)' % (fn, b, want)
        if okk:
            chk.ok(R, inst, src)
        else:
            chk.violation(R, inst, src, det + (': the INTEGER would be negative' if want == 2 else ': non-minimal encoding'), key='%s %d' % (R, b))


def zero_hash_verification(chk):
    """ECDSA verification computes u1*G + u2*Q with u1 = e/s, u2 = r/s.  e - the truncated, reduced hash value - can be 0 (an empty
    hash, hash_len == 0, is in the property's range; so is a hash equal to n), and muladd() documents that a zero multiplier is an
    error: the verifier must then take the single multiplication u2*Q, or valid signatures are rejected.  FOLD: with the zero test of
    u1 read as true no muladd call is left after it and a mul call is; read as false the muladd call is there."""
    import re
    from .. import fold
    R = 'ecdsa-zero-hash-verifies'
    MULADD = r'^i32 \(i8\*, i8\*, i64, i8\*, i64, i8\*, i64, i32\)'
    MUL = r'^i32 \(i8\*, i64, i8\*, i64, i32\)'

    def icalls(F, ft):
        return [i for i in fold._site_insts(F) if i['op'] == 'call' and i.get('callee') is None and re.search(ft, i.get('fty', ''))]

    def single(F):
        a, b = icalls(F, MULADD), icalls(F, MUL)
        return (not a and len(b) >= 1), '%d muladd / %d mul call(s) after the test' % (len(a), len(b))
    single.desc = 'only the single multiplication u2*Q is reachable'
    obs = []
    for w in ('i15', 'i31'):
        s = 'src/ec/ecdsa_%s_vrfy_raw.c' % w
        f = 'br_ecdsa_%s_vrfy_raw' % w
        obs.append(Ob(s, f, _u1_zero_test(w), ('pin', 1), single, ('pin', 0),
                      'u1 = e/s is zero (hash value 0 modulo n): muladd() must not be given a zero multiplier', rule=R))
    oblig.run_obligations(chk, obs)


def decode_mod_covers_source(chk):
    """br_iXX_decode_mod(x, src, len, m) decodes an unsigned big-endian integer *and* decides whether it is below m: r, s, coordinates
    and RSA values "not below the modulus" are rejected through it.  The comparison must look at every source byte - a value that is
    larger than m only in bytes beyond the modulus length must still be refused.  Decided by partial evaluation with m[0] and len
    pinned: the byte loop runs max(len, modulus bytes) + 4 times (the loop exit compares with that constant)."""
    from .. import fold
    R = 'decode-mod-covers-source'
    n = 0
    for w, sh, wb in ((31, 5, 4), (15, 4, 2)):
        src, fn = 'src/int/i%d_decmod.c' % w, 'br_i%d_decode_mod' % w
        U = oblig.funit(src)
        if fn not in U.funcs:
            raise AnalysisBroken('%s vanished' % fn)
        F = U.func(fn)
        ps = F.f['params']
        lds = [i for i in F.insts.values() if i['op'] == 'load' and F.addr_of(i['ops'][0]) == ({'k': 'a', 'v': 3}, 0)]
        lds += [i for i in F.calls() if (i.get('callee') or '').startswith('pgm_read') and F.addr_of(i['ops'][0]) == ({'k': 'a', 'v': 3}, 0)]
        if not lds:
            raise AnalysisBroken('%s: the modulus header m[0] is not read' % fn)
        for ln, m0 in ((100, 256), (10, 256), (33, 256), (66, 528), (67, 528), (200, 528)):
            mlen = (m0 + w) >> sh
            want = max(ln, mlen * wb) + 4
            hy = [dict(kind='pin', n=ps[2]['n'], value=ln, param=True)] + [dict(kind='pin', n=l['n'], value=m0) for l in lds]
            Fo = U.optimise(fn, hy, ())
            cs = set(o['v'] for i in fold._reach_insts(Fo) if i['op'] == 'icmp' and i['pred'] in ('eq', 'ne', 'ult', 'ugt', 'uge', 'ule')
                     for o in i['ops'] if o['k'] == 'c' and o['v'] is not None)
            n += 1
            inst = '%s: %d source bytes against a %d-word modulus => %d loop turns (all source bytes compared)' % (fn, ln, mlen, want)
            if want in cs:
                chk.ok(R, inst, src)
            else:
                chk.violation(R, inst, src, 'no loop bound %d remains (bounds present: %s): source bytes beyond the modulus length escape the range test'
                              % (want, sorted(c for c in cs if c > 8)), key='%s %d %d %d' % (R, w, ln, m0))
    chk.floor('decode_mod cases', n, 12)


def final_reduction_select(chk):
    """Final reduction modulo p of the specialised field implementations: a candidate (value - p, or value + 19 for 2^255 - 19) is
    computed into a local array, and copied back over the value in constant time if it is the reduced one.  Whether it is can only
    be read off the *candidate* (its carry / top bits): a selector computed from the original value leaves results in [p, 2^k) in
    place (the X25519 output p instead of 0 for low-order points, for instance).  Rule over every br_ccopy(ctl, d, t, ...) in src/ec
    whose destination is the function's parameter and whose source is a local array: the backward slice of ctl reads that array."""
    from .. import wmw
    R = 'final-reduction-selects-on-candidate'
    P = wmw.program()
    n = 0
    for (un, fn), F in sorted(P.static.items()):
        if not F.file().replace(build.REPO + '/', '').startswith('src/ec/'):
            continue
        for c in F.calls('br_ccopy'):
            sb, _ = F.addr_of(c['ops'][2])
            db, _ = F.addr_of(c['ops'][1])
            if not (sb['k'] == 'i' and F.insts[sb['v']]['op'] == 'alloca' and db['k'] == 'a'):
                continue
            n += 1
            seen, st, reads_src, reads_dst = set(), [c['ops'][0]], False, False
            while st:
                o = st.pop()
                if o['k'] != 'i' or o['v'] in seen:
                    continue
                seen.add(o['v'])
                i = F.insts[o['v']]
                if i['op'] == 'load':
                    b, _ = F.addr_of(i['ops'][0])
                    if b == sb:
                        reads_src = True
                    elif b == db:
                        reads_dst = True
                    continue
                if i['op'] in ('alloca',):
                    continue
                st.extend(q for q in i['ops'] if q['k'] == 'i')
            # values the candidate is made of: backward slices of everything stored into the local array
            made, st = set(), []
            for z in F.insts.values():
                if z['op'] == 'store' and F.addr_of(z['ops'][1])[0] == sb and z['ops'][0]['k'] == 'i':
                    st.append(z['ops'][0])
            while st:
                o = st.pop()
                if o['k'] != 'i' or o['v'] in made:
                    continue
                i = F.insts[o['v']]
                if i['op'] in ('load', 'alloca'):
                    continue
                made.add(o['v'])
                st.extend(q for q in i['ops'] if q['k'] == 'i')
            shares = any(F.insts[v]['op'] not in ('phi', 'load') for v in (seen & made))
            inst = '%s: the conditional copy-back of the reduced candidate (line %s) is selected on the candidate itself' % (fn, c.get('line'))
            if reads_src or shares:
                chk.ok(R, inst, F.where(c))
            else:
                chk.violation(R, inst, F.where(c), 'the selector is computed %s: values between the modulus and the next power of two are not reduced'
                              % ('from the original value only' if reads_dst else 'without reading the candidate'), key='%s %s' % (R, fn))
    chk.floor('final reductions with conditional copy-back', n, 4)


def formula_tables_agree(chk):
    """The generic prime-curve implementations interpret small programs (code_double, code_add, code_affine, code_check) that encode the
    Jacobian point formulas; ec_prime_i15 and ec_prime_i31 carry their own copies.  They are word-size variants of one algorithm: the
    tables must be identical, element for element (a changed operand or opcode in one copy makes that implementation compute another
    function than its sibling)."""
    R = 'ec-prime-formula-tables-agree'
    a, b = build.load_unit('src/ec/ec_prime_i15.c'), build.load_unit('src/ec/ec_prime_i31.c')
    ga, gb = set(g['name'] for g in a['globals']), set(g['name'] for g in b['globals'])
    names = sorted(n for n in ga & gb if n.startswith('code_'))
    if len(names) < 4:
        raise AnalysisBroken('formula tables not found in both ec_prime files (%s)' % names)
    for n in names:
        x, y = tab.ints_of_global(a, n), tab.ints_of_global(b, n)
        inst = 'ec_prime_i15 / ec_prime_i31: %s identical (%d instructions)' % (n, len(x or []))
        if x == y and x:
            chk.ok(R, inst, 'src/ec/ec_prime_i15.c')
        else:
            k = next((j for j in range(min(len(x), len(y))) if x[j] != y[j]), min(len(x), len(y)))
            chk.violation(R, inst, 'src/ec/ec_prime_i15.c', 'instruction %d differs: %#06x (i15) vs %#06x (i31)' % (k, x[k] if k < len(x) else -1, y[k] if k < len(y) else -1),
                          key='%s %s' % (R, n))


def keygen_candidates_independent(chk):
    """br_ec_keygen draws candidates until one lies in [1, n-1].  The test of a candidate (borrow of candidate - n, OR of its bytes) must be
    computed from that candidate alone: any integer state carried from one draw to the next (an accumulator initialised once, before the
    loop) lets a rejected candidate influence the verdict on the following one - an all-zero key or a key equal to the order is then
    returned after certain two-draw sequences.  Structural rule: no non-constant integer value flows around the back edge of the
    candidate loop (no loop-carried phi at a block that dominates the draw and is fed from a block the draw dominates)."""
    R = 'keygen-candidates-independent'
    src, fn = 'src/ec/ec_keygen.c', 'br_ec_keygen'
    u = build.load_unit(src)
    F = next((irf.Func(u, f) for f in u['functions'] if f['name'] == fn and f.get('blocks')), None)
    if F is None:
        raise AnalysisBroken('%s vanished' % fn)
    gens = [c for c in F.calls() if c.get('callee') is None and len(c['ops']) == 3]
    if len(gens) != 1:
        raise AnalysisBroken('%s: the PRNG draw is not identified (%d candidates)' % (fn, len(gens)))
    gb = F.block_of[gens[0]['id']]
    carried = []
    for i in F.insts.values():
        if i['op'] != 'phi' or not i['ty'].startswith('i') or i['ty'].endswith('*'):
            continue
        b = F.block_of[i['id']]
        if not F.dominates_block(b, gb):
            continue
        # incoming blocks: the irdump keeps them in i['inb'] when present; otherwise use predecessors order
        preds = i.get('inb') or F.pred[b]
        for o, pb in zip(i['ops'], preds):
            if F.dominates_block(gb, pb) and not (o['k'] == 'c'):
                carried.append(i)
    inst = '%s: the range test of a candidate uses no state of the previous candidate' % fn
    if not carried:
        chk.ok(R, inst, F.where(gens[0]))
    else:
        names = sorted(set(next((d['var'] for b_ in F.blocks for d in b_['insts'] if d['op'] == 'dbgvalue' and d['ops'][0] == {'k': 'i', 'v': c['id']}), '?') for c in carried))
        chk.violation(R, inst, F.where(carried[0]), 'variable(s) %s are carried from one draw to the next: a rejected candidate leaks into the next verdict (key 0 or key n can be returned)'
                      % ', '.join(names), key=R)


def rs_nonzero(chk):
    """FIPS 186-4 6.4.2 step 1: r and s must both lie in [1, n-1].  decode_mod enforces < n; each decoded value must
    additionally be zero-tested, and a positive test must force rejection."""
    R = 'ecdsa-rs-nonzero'
    for w in ('i15', 'i31'):
        src = 'src/ec/ecdsa_%s_vrfy_raw.c' % w
        fn = 'br_ecdsa_%s_vrfy_raw' % w
        U = oblig.funit(src)
        F = U.func(fn)
        dec = F.calls('br_%s_decode_mod' % w)
        if len(dec) != 2:
            raise AnalysisBroken('%s: expected 2 decode_mod calls (r, s), found %d' % (fn, len(dec)))
        zs = F.calls('br_%s_iszero' % w)
        for name, d in zip(('r', 's'), dec):
            base = F.addr_of(d['ops'][0])[0]
            tests = [z for z in zs if F.addr_of(z['ops'][0])[0] == base and F.dominates(d['id'], z['id'])]
            # the final comparison iszero(t1) is on another buffer; a test of this buffer right after decoding is what is required
            inst = '%s: %s == 0 is tested and rejected' % (fn, name)
            if not tests:
                chk.violation(R, inst, F.where(d), 'the decoded %s is never tested for zero: a signature with %s = 0 is not rejected by a range check '
                              '(replay: replays/ecdsa_r_zero.c)' % (name, name), key='%s %s %s' % (R, fn, name))
                continue
            k = zs.index(tests[0])
            oblig.run_obligations(chk, [Ob(src, fn, Call('br_%s_iszero' % w, nth=k), ('pin', 1), RET(0), ('pin', 0), '%s = 0 must be rejected' % name, rule=R)])


def muladd_zero_test(chk):
    """x*A + y*B "including when the two terms are equal, opposite or sum to infinity": the P-256 implementations detect the special
    cases by testing Z == 0 after the final addition.  Field elements are only partially reduced (Z may be p instead of 0), so the
    limbs that are OR-ed into the test must have gone through the final-reduction function after the last point operation on P."""
    R = 'muladd-zero-test-canonical'
    REDUCE = ('reduce_final_f256', 'f256_final_reduce')
    n = 0
    for impl in ('m15', 'm31', 'm62', 'm64'):
        src = 'src/ec/ec_p256_%s.c' % impl
        try:
            u = build.load_unit(src)
        except AnalysisBroken:
            continue
        U = irf.Units({'u': u})
        F = U.func('api_muladd')
        if F is None:
            raise AnalysisBroken('%s: api_muladd vanished' % src)
        # loads feeding EQ(z, 0)
        tests = [c for c in F.calls('EQ') if c['ops'][1]['k'] == 'c' and c['ops'][1]['v'] == 0]
        found = False
        for c in tests:
            seen, st, loads = set(), [c['ops'][0]], []
            while st:
                o = st.pop()
                if o['k'] != 'i' or o['v'] in seen:
                    continue
                seen.add(o['v'])
                i = F.insts[o['v']]
                if i['op'] == 'load':
                    loads.append(i)
                elif i['op'] in ('or', 'phi', 'trunc', 'zext', 'lshr'):
                    st.extend(i['ops'])
            regs = set()
            for l in loads:
                p = F.strip_casts(l['ops'][0])
                off = 0
                if p['k'] == 'i' and F.insts[p['v']]['op'] == 'getelementptr' and F.insts[p['v']].get('var'):
                    g = F.insts[p['v']]
                    b, o0 = F.addr_of(g['ops'][0])
                    off = (o0 or 0) + (g.get('off') or 0)
                else:
                    b, off = F.addr_of(l['ops'][0])
                if b['k'] == 'i' and F.insts[b['v']]['op'] == 'alloca':
                    regs.add((b['v'], off))
            if not regs:
                continue
            base = next(iter(regs))[0]
            if any(r[0] != base for r in regs):
                continue
            zoff = min(r[1] for r in regs)
            found = True
            n += 1
            inst = 'ec_p256_%s api_muladd: Z is fully reduced before the Z == 0 test' % impl
            red = [k for k in F.calls() if k.get('callee') in REDUCE and F.addr_of(k['ops'][0]) == ({'k': 'i', 'v': base}, zoff)]
            first_load = min(loads, key=lambda l: F.order[l['id']])
            red = [k for k in red if all(F.dominates(k['id'], l['id']) for l in loads)]
            # every other call that takes a pointer into P and dominates the test must come before the reduction
            others = [k for k in F.calls() if k.get('callee') not in REDUCE and k.get('callee') not in ('EQ', 'NEQ')
                      and any(F.addr_of(a)[0] == {'k': 'i', 'v': base} for a in k['ops'] if a['k'] == 'i')
                      and F.dominates(k['id'], first_load['id'])]
            okk = bool(red) and all(any(F.dominates(k['id'], r['id']) for r in red) for k in others)
            if okk:
                chk.ok(R, inst, F.where(c), '%s(P.z) after %d point operation(s) on P' % (red[0]['callee'], len(others)))
            else:
                chk.violation(R, inst, F.where(c), 'the limbs of P.z are tested for zero without a final reduction after the last operation on P: a Z equal to '
                              'the field prime (equal or opposite terms) is not recognised, and a wrong point / success is returned', key='%s %s' % (R, impl))
        if not found:
            raise AnalysisBroken('%s: the Z == 0 test of api_muladd was not recognised' % src)
    chk.floor('P-256 muladd implementations', n, 4)


def rfc6979_inputs(chk):
    """RFC 6979 3.2: the nonce generator is keyed with int2octets(x) || bits2octets(h1), where bits2octets reduces the truncated
    hash modulo the group order.  In both signers the value m that is encoded into the DRBG seed must already have been reduced
    (conditional subtraction of n), and the same m is used for s; i15 and i31 must agree."""
    R = 'rfc6979-seed-reduced'
    n = 0
    for w in ('i15', 'i31'):
        src = 'src/ec/ecdsa_%s_sign_raw.c' % w
        fn = 'br_ecdsa_%s_sign_raw' % w
        u = build.load_unit(src)
        F = irf.Units({'u': u}).func(fn)
        if F is None:
            raise AnalysisBroken('%s vanished' % fn)
        m_al = [d['v'] for d in F.f.get('declares', []) if d['var'] == 'm']
        if len(m_al) != 1:
            raise AnalysisBroken('%s: local m not found' % fn)
        mb = {'k': 'i', 'v': m_al[0]}
        init = F.calls('br_hmac_drbg_init')
        enc = [c for c in F.calls('br_%s_encode' % w) if F.addr_of(c['ops'][2])[0] == mb and init and F.dominates(c['id'], init[0]['id'])]
        subs = [c for c in F.calls('br_%s_sub' % w) if F.addr_of(c['ops'][0])[0] == mb and c['ops'][2]['k'] != 'c']
        b2i = [c for c in F.calls('br_ecdsa_%s_bits2int' % w) if F.addr_of(c['ops'][0])[0] == mb]
        n += 1
        inst = '%s: the hash value encoded into the RFC 6979 seed is reduced modulo n first' % fn
        if len(init) != 1 or len(enc) != 1 or not b2i:
            chk.violation(R, inst, F.where(), 'shape changed: %d drbg_init, %d encodings of m before it, %d bits2int' % (len(init), len(enc), len(b2i)), key='%s %s shape' % (R, w))
            continue
        okk = any(F.dominates(b['id'], s_['id']) and F.dominates(s_['id'], enc[0]['id']) for s_ in subs for b in b2i)
        if okk:
            chk.ok(R, inst, F.where(enc[0]), 'bits2int -> conditional subtraction of n -> encode -> br_hmac_drbg_init')
        else:
            chk.violation(R, inst, F.where(enc[0]), 'no reduction of m (br_%s_sub(m, n, ctl)) lies between bits2int and the encoding of m into the DRBG seed: for a truncated '
                          'hash >= n the nonce differs from the RFC 6979 value (and from the other implementation)' % w, key='%s %s' % (R, w))
    chk.floor('RFC 6979 signers', n, 2)


def c25519_scalar_right_aligned(chk, rule='c25519-scalar-right-aligned'):
    """X25519 api_mul of all six implementations: the caller's scalar kb[0..kblen) is big-endian and may be shorter than 32 bytes; it is
    copied to the END of the 32-byte work buffer k (address k + sizeof k - kblen) and the bytes before it are zeroed (memset of
    sizeof k - kblen at k).  Left-aligning it multiplies by kb * 256^(32-kblen) instead."""
    from .. import wmw
    P = wmw.program()
    n = 0

    def aff(F, o, depth=0):
        """(base alloca id | None, const, coef of param 3)"""
        if depth > 8:
            return None
        if o['k'] == 'c':
            return (None, o['v'] if o['v'] < 2 ** 63 else o['v'] - 2 ** 64, 0)
        if o['k'] == 'a':
            return (None, 0, 1) if o['v'] == 3 else None
        i = F.insts[o['v']]
        if i['op'] in ('bitcast', 'zext', 'sext', 'trunc'):
            return aff(F, i['ops'][0], depth + 1)
        if i['op'] == 'alloca':
            return (i['id'], 0, 0)
        if i['op'] in ('add', 'sub'):
            x, y = aff(F, i['ops'][0], depth + 1), aff(F, i['ops'][1], depth + 1)
            if x is None or y is None or y[0] is not None:
                return None
            sg = 1 if i['op'] == 'add' else -1
            return (x[0], x[1] + sg * y[1], x[2] + sg * y[2])
        if i['op'] == 'getelementptr':
            b = aff(F, i['ops'][0], depth + 1)
            if b is None:
                return None
            c, k = b[1] + (i.get('off') or 0), b[2]
            for v, sc in (i.get('var') or []):
                x = aff(F, v, depth + 1)
                if x is None or x[0] is not None:
                    return None
                c, k = c + sc * x[1], k + sc * x[2]
            return (b[0], c, k)
        return None
    for (un, fn), F in sorted(P.static.items()):
        f = F.file().replace(build.REPO + '/', '')
        if fn != 'api_mul' or not f.startswith('src/ec/ec_c25519_'):
            continue
        n += 1
        cp = [c for c in F.calls() if (c.get('callee') or '').startswith(('llvm.memcpy', 'memcpy')) and F.strip_casts(c['ops'][1]) == {'k': 'a', 'v': 2}]
        inst = '%s api_mul: scalar copied to k + sizeof k - kblen, leading bytes zeroed' % f
        if len(cp) != 1:
            raise AnalysisBroken('%s: %d copies from kb in api_mul' % (f, len(cp)))
        d = aff(F, cp[0]['ops'][0])
        if d is None or d[0] is None:
            raise AnalysisBroken('%s: destination of the scalar copy is not an affine offset into a local buffer' % f)
        A = F.insts[d[0]]
        m = re.match(r'\[(\d+) x i8\]', A.get('aty') or '')
        if not m:
            raise AnalysisBroken('%s: scalar buffer is not a byte array' % f)
        N = int(m.group(1))
        ms = [c for c in F.calls() if (c.get('callee') or '').startswith(('llvm.memset', 'memset')) and (aff(F, c['ops'][0]) or (None,))[0] == d[0]]
        zs = [(aff(F, c['ops'][0]), aff(F, c['ops'][2])) for c in ms]
        if (d[1], d[2]) != (N, -1):
            chk.violation(rule, inst, F.where(cp[0]), 'the scalar is copied to k + %d %+d*kblen, not to k + %d - kblen: a scalar shorter than %d bytes is not right-aligned' % (d[1], d[2], N, N), key='%s %s' % (rule, f))
        elif not any(z[0][1:] == (0, 0) and z[1] is not None and z[1][1:] == (N, -1) for z in zs):
            chk.violation(rule, inst, F.where(cp[0]), 'the %d - kblen leading bytes of k are not zeroed by a memset at k' % N, key='%s %s' % (rule, f))
        else:
            chk.ok(rule, inst, F.where(cp[0]), 'copy to k + %d - kblen; memset(k, 0, %d - kblen)' % (N, N))
    if n < 6:
        raise AnalysisBroken('%s: %d X25519 api_mul functions found, expected 6' % (rule, n))


def run(tier):
    chk = report.Check('C11', tier,
                       'Static: (1) curve constants of every implementation (field primes, Montgomery constants R^2 and b*R in the i15/i31 word '
                       'encodings, generators, orders, curve definition structs, Curve25519 p / A24 / base point) equal values generated from '
                       'SEC 2 / FIPS 186-4 / RFC 7748; (2) rejection obligations: invalid coordinates, off-curve points, failed decodings, r/s out '
                       'of range, s = 0, failed point arithmetic force the failure return, in prime_i15 and prime_i31 and both ECDSA verifiers; '
                       'accumulator updates of the verdict are conjuncts; the four P-256 api_muladd test Z == 0 on a fully reduced Z. the RFC 6979 seed is built from the reduced hash value in both signers. NOT decided: the group law, scalar multiplication, RFC 6979 values.',
                       trusted=['reference constants in sa/tab.py (self-checked: generators satisfy the curve equation)', 'clang/opt 14'])
    constants(chk)
    oblig.run_obligations(chk, obligations())
    oblig.run_obligations(chk, asn1_sig_obligations())
    asn1_integer_sign(chk)
    zero_hash_verification(chk)
    decode_mod_covers_source(chk)
    final_reduction_select(chk)
    formula_tables_agree(chk)
    keygen_candidates_independent(chk)
    rs_nonzero(chk)
    muladd_zero_test(chk)
    rfc6979_inputs(chk)
    c25519_scalar_right_aligned(chk)
    conj = []
    for w in ('i15', 'i31'):
        conj.append(('src/ec/ec_prime_%s.c' % w, 'point_decode', 'r', 'and', 3, 'decode results, format byte and curve equation are conjuncts'))
        conj.append(('src/ec/ec_prime_%s.c' % w, 'api_muladd', 'r', 'and', 2, 'second decode and the infinity test are conjuncts'))
        conj.append(('src/ec/ecdsa_%s_vrfy_raw.c' % w, 'br_ecdsa_%s_vrfy_raw' % w, 'res', 'and', 2, 'range borrow and final equality are conjuncts'))
    # P-256 specialised implementations: the decoding verdict has, besides the format byte (initial value), one conjunct per
    # coordinate range test (X < p, Y < p: an encoding with a coordinate >= p is not a valid point encoding, X9.62 / SEC 1 2.3.4)
    # and one for the curve equation -- the same set in all four (sibling agreement)
    for impl, fn, var, op, need in (('m15', 'p256_decode', 'bad', 'or', 3), ('m31', 'p256_decode', 'bad', 'or', 3),
                                    ('m62', 'point_decode', 'r', 'and', 3), ('m64', 'point_decode', 'r', 'and', 3)):
        try:
            build.load_unit('src/ec/ec_p256_%s.c' % impl)
        except AnalysisBroken:
            continue
        if fn in oblig.funit('src/ec/ec_p256_%s.c' % impl).funcs:
            conj.append(('src/ec/ec_p256_%s.c' % impl, fn, var, op, need,
                         'range tests of X and Y against the field prime and the curve equation must each be a conjunct of the decoding verdict'))
    oblig.run_conjuncts(chk, conj, 'ec-conjunct')
    chk.floor('constants', sum(1 for o in chk.obls if o['rule'] == 'curve-constants'), 40)
    from .. import lints
    lints.length_is_boolean(chk, ['src/ec/'])
    from .. import lints as _l
    _l.limb_split_consistent(chk, ['src/ec/'])
    _l.word_codec_maps(chk, ['src/ec/'], floor=3)
    _l.word_split_conserves_bits(chk, ['src/ec/'], floor=6)
    _l.or_scan_covers_array(chk, ['src/ec/'], floor=1)
    from .. import siblings as _sib
    _sib.check(chk, ['src/ec/'], floor=8)
    from .. import siblings as _sib
    _sib.check_group(chk, 'm15/m31', floor=6)
    _sib.check_group(chk, 'm62/m64', floor=10)
    from .. import lints as _lints_ir
    _lints_ir.ignored_result_regression(chk, ['src/ec/', 'src/int/'])
    return chk.finish()
