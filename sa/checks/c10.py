"""C10 — RSA strictness: rejection obligations in every implementation + sibling agreement (DESIGN §4 C10)."""
from .. import build, report, oblig, irf
from ..oblig import Ob, Call, ICall, Var, Accum, RET, ALL, NOCALL

IMPLS = {
    # impl: (int family, ninv, modpow in private/public (None: void), decode_mod)
    'i15': dict(w='i15', ninv='br_i15_ninv15', modpow='br_i15_modpow_opt', dmod='br_i15_decode_mod'),
    'i31': dict(w='i31', ninv='br_i31_ninv31', modpow='br_i31_modpow_opt', dmod='br_i31_decode_mod'),
    'i32': dict(w='i32', ninv='br_i32_ninv32', modpow=None, dmod='br_i32_decode_mod'),
    'i62': dict(w='i31', ninv='br_i31_ninv31', modpow='br_i62_modpow_opt', dmod='br_i31_decode_mod'),
}


def obligations(cv):
    obs = []
    maxb = cv['BR_MAX_RSA_SIZE >> 3']
    maxf = cv['BR_MAX_RSA_FACTOR >> 3']
    for I, d in IMPLS.items():
        pub = 'src/rsa/rsa_%s_pub.c' % I
        f = 'br_rsa_%s_public' % I
        R = 'rsa-public'
        obs += [
            Ob(pub, f, Call(d['dmod']), ('pin', 0), RET(0), ('pin', 1), 'a value not below the modulus must be rejected', rule=R),
            Ob(pub, f, Call(d['ninv']), ('mask', -2), RET(0), ('mask', -1), 'an even modulus must be rejected', rule=R),
            Ob(pub, f, Var('nlen', 'loopexit'), ('assume', 'ugt', maxb), RET(0), ('assume', 'ugt', 64), 'oversized modulus must be rejected (stack buffer)', rule=R),
            Ob(pub, f, Var('nlen', 'loopexit'), ('assume', 'eq', 0), RET(0), ('assume', 'eq', 128), 'zero modulus must be rejected', rule=R),
            Ob(pub, f, Var('nlen', 'loopexit'), ('assume', 'ne', Var('xlen', 'param')), RET(0), ('assume', 'eq', Var('xlen', 'param')),
               'input length must equal the modulus length', rule=R),
        ]
        prv = 'src/rsa/rsa_%s_priv.c' % I
        g = 'br_rsa_%s_private' % I
        R = 'rsa-private'
        obs += [
            Ob(prv, g, Call(d['ninv']), ('mask', -2), RET(0), ('mask', -1), 'even factor must be rejected', rule=R, min_sites=2),
            Ob(prv, g, Var('r', 'loopexit'), ('pin', 0), RET(0), ('pin', 1), 'the x < n range carry must be a conjunct of the result', rule=R),
        ]
        if d['modpow']:
            obs.append(Ob(prv, g, Call(d['modpow']), ('pin', 0), RET(0), ('pin', 1), 'modpow failure (tmp too small) must be reported', rule=R, min_sites=2))
            tl = cv['TLEN@' + I]
            obs.append(Ob(prv, g, Var('fwlen', 'last'), ('assume', 'ugt', tl // 6), RET(0), ('assume', 'ult', 8),
                          'factors too large for the stack buffer must be rejected', rule=R))
        else:
            obs.append(Ob(prv, g, Var('plen', 'loopexit'), ('assume', 'ugt', maxf), RET(0), ('assume', 'ult', 64), 'oversized p', rule=R))
            obs.append(Ob(prv, g, Var('qlen', 'loopexit'), ('assume', 'ugt', maxf), RET(0), ('assume', 'ult', 64), 'oversized q', rule=R))
        R = 'rsa-wrappers'
        for kind, unpad in (('pkcs1_vrfy', 'br_rsa_pkcs1_sig_unpad'), ('pss_vrfy', 'br_rsa_pss_sig_unpad')):
            s = 'src/rsa/rsa_%s_%s.c' % (I, kind)
            h = 'br_rsa_%s_%s' % (I, kind)
            obs += [
                Ob(s, h, Call(f), ('pin', 0), ALL(RET(0), NOCALL(unpad)), ('pin', 1), 'failed public operation must be reported', rule=R),
                Ob(s, h, Call(unpad), ('pin', 0), RET(0), ('pin', 1), 'padding verdict is the result', rule=R),
                Ob(s, h, Var('xlen', 'param'), ('assume', 'ugt', maxb), ALL(RET(0), NOCALL(f)), ('assume', 'ult', 64), 'signature longer than the buffer', rule=R),
            ]
        s = 'src/rsa/rsa_%s_oaep_decrypt.c' % I
        h = 'br_rsa_%s_oaep_decrypt' % I
        obs += [
            Ob(s, h, Call(g), ('pin', 0), RET(0), ('pin', 1), 'failed private operation must be reported', rule=R),
            Ob(s, h, Call('br_rsa_oaep_unpad'), ('pin', 0), RET(0), ('pin', 1), 'OAEP verdict is a conjunct of the result', rule=R),
        ]
    # ---- shared padding code
    R = 'rsa-padding'
    s = 'src/rsa/rsa_pkcs1_sig_unpad.c'
    obs += [
        Ob(s, 'br_rsa_pkcs1_sig_unpad', Call('memcmp'), ('pin', 1), RET(0), ('pin', 0), 'template mismatch must be rejected', rule=R, min_sites=2),
        Ob(s, 'br_rsa_pkcs1_sig_unpad', Call('memcmp'), ('pin', -1), RET(0), None, 'template mismatch must be rejected', rule=R, min_sites=2),
        Ob(s, 'br_rsa_pkcs1_sig_unpad', Var('sig_len', 'param'), ('assume', 'ult', 11), RET(0), ('assume', 'ugt', 64), 'short signature', rule=R),
    ]
    s = 'src/rsa/rsa_ssl_decrypt.c'
    obs += [
        Ob(s, 'br_rsa_ssl_decrypt', ICall('core', ftype=r'^i32 \(i8\*, %struct\.br_rsa_private_key\*\)'), ('pin', 0), RET(0), ('pin', 1), 'failed private operation', rule=R),
        Ob(s, 'br_rsa_ssl_decrypt', Call('EQ'), ('pin', 0), RET(0), ('pin', 1), 'each PKCS#1 type-2 structure byte is a conjunct', rule=R, min_sites=3),
        Ob(s, 'br_rsa_ssl_decrypt', Var('len', 'param'), ('assume', 'ult', 59), RET(0), ('assume', 'ugt', 64), 'short ciphertext', rule=R),
    ]
    s = 'src/rsa/rsa_oaep_unpad.c'
    obs += [
        Ob(s, 'br_rsa_oaep_unpad', Call('GT'), ('pin', 1), RET(0), ('pin', 0), 'lHash-length zero run is a conjunct', rule=R),
    ]
    # ---- key derivation
    R = 'rsa-keyderive'
    for I in ('i15', 'i31'):
        w = I
        s = 'src/rsa/rsa_%s_pubexp.c' % I
        obs += [
            Ob(s, 'get_pubexp', Call('br_%s_moddiv' % w), ('pin', 0), RET(0), ('pin', 1), 'non-invertible dp', rule=R),
            Ob(s, 'br_rsa_%s_compute_pubexp' % I, Call('EQ'), ('pin', 0), RET(0), ('pin', 1), 'ep != eq must yield 0', rule=R),
            Ob(s, 'br_rsa_%s_compute_pubexp' % I, Call('get_pubexp'), ('pin', 0), RET(0), None, 'failure of both halves', rule=R, min_sites=2, together=True),
        ]
        s = 'src/rsa/rsa_%s_keygen%s.c' % (I, '' if I == 'i15' else '_inner')
        obs += [
            Ob(s, 'invert_pubexp', Call('br_%s_moddiv' % w), ('pin', 0), RET(0), ('pin', 1), 'e not invertible mod (p-1)/2', rule=R),
        ]
    return obs


def signature_wrapper_obligations():
    """the RSA signature verifiers used for certificate signatures: a failed public operation, a failed unpadding and an over-long
    signature must each make the verifier return 0 (shared with C04: "each certificate is signed by the next one's key")"""
    names = ['BR_MAX_RSA_SIZE >> 3', 'BR_MAX_RSA_FACTOR >> 3']
    cv = build.const_values(names)
    for I in ('i15', 'i31', 'i62'):
        cv['TLEN@' + I] = build.const_values(['TLEN'], includes=('rsa/rsa_%s_priv.c' % I,))['TLEN']
    return [o for o in obligations(cv) if o.rule == 'rsa-wrappers' and 'pkcs1_vrfy' in o.src]


def keygen_forced_bits(chk):
    """Key generation draws each prime with its two top bits and two bottom bits forced to 1 (so that the product of two k-bit primes
    has exactly 2k bits, and candidates are odd and 3 mod 4).  Decided by partial evaluation of mkprime() with the encoded bit length
    fixed in each class (top word full / one bit / several bits): the constants OR-ed into the candidate must set exactly those bits."""
    from .. import oblig, fold, irf as _irf
    R = 'keygen-forced-bits'
    n = 0
    for src, wb, sh in (('src/rsa/rsa_i15_keygen.c', 15, 4), ('src/rsa/rsa_i31_keygen_inner.c', 31, 5)):
        U = oblig.funit(src)
        if 'mkprime' not in U.funcs:
            raise AnalysisBroken('%s: mkprime vanished' % src)
        F = U.func('mkprime')
        pe = F.f['params'][2]
        wbytes = 2 if wb == 15 else 4
        for words, extra in ((4, 0), (4, 1), (4, 2), (4, 7), (4, wb - 1), (9, 1)):
            esize = (words << sh) + extra
            nb = words * wb + extra
            want = {}
            for bit in (nb - 1, nb - 2, 0, 1):
                w = 1 + bit // wb
                want[w * wbytes] = want.get(w * wbytes, 0) | (1 << (bit % wb))
            hy = [dict(kind='assume', n=pe['n'], ty=pe['ty'], pred='eq', value=esize, param=True)]
            Fo = U.optimise('mkprime', hy, ('mkrand', 'miller_rabin', 'br_i15_modpow_opt', 'br_i31_modpow_opt'))
            got = {}
            for i in Fo.insts.values():
                if i['op'] != 'store':
                    continue
                b, o = Fo.addr_of(i['ops'][1])
                if b != {'k': 'a', 'v': 1} or o is None:
                    continue
                v = i['ops'][0]
                if v['k'] == 'i' and Fo.insts[v['v']]['op'] == 'or':
                    c = [q for q in Fo.insts[v['v']]['ops'] if q['k'] == 'c']
                    if c:
                        got[o] = got.get(o, 0) | (c[0]['v'] & ((1 << (8 * wbytes)) - 1))
            n += 1
            inst = '%s mkprime: a %d-bit candidate (encoded length %d) gets bits %d, %d, 1, 0 forced' % (src.split('/')[-1], nb, esize, nb - 1, nb - 2)
            if got == want:
                chk.ok(R, inst, src)
            else:
                chk.violation(R, inst, src, 'constants OR-ed into the candidate (byte offset: mask) are %s, expected %s: primes of this size class may be one bit '
                              'short, so the modulus may not have the requested length' % ({k: hex(v) for k, v in sorted(got.items())},
                                                                                         {k: hex(v) for k, v in sorted(want.items())}),
                              key='%s %s %d' % (R, src, esize))
    chk.floor('keygen size classes', n, 12)


def zero_stripping_direction(chk):
    """Key elements are unsigned big-endian byte strings that may carry leading zero bytes ("leading zero bytes in any field"): every
    routine that normalises such a length must drop bytes from the *front* (most significant end).  Sibling agreement over src/rsa:
    each zero-skipping loop is classified by the address it tests -- an advancing pointer / increasing index (front) or base[len - 1]
    (back); stripping the back changes the value and leaves the leading zeros in place."""
    from .. import wmw
    R = 'rsa-zero-stripping-from-the-front'
    P = wmw.program()
    n = 0
    for (un, fn), F in sorted(P.static.items()):
        if not F.file().replace(build.REPO + '/', '').startswith('src/rsa/'):
            continue
        inloop = F.loops_blocks()
        for i in F.insts.values():
            if i['op'] != 'icmp' or i['pred'] not in ('eq', 'ne') or F.block_of[i['id']] not in inloop:
                continue
            a, b = i['ops']
            if not (b['k'] == 'c' and b['v'] == 0):
                continue
            x = a
            while x['k'] == 'i' and F.insts[x['v']]['op'] in ('zext', 'sext', 'trunc'):
                x = F.insts[x['v']]['ops'][0]
            if x['k'] != 'i':
                continue
            ld = F.insts[x['v']]
            if ld['op'] == 'call' and (ld.get('callee') or '').startswith('pgm_read_byte'):
                addr = ld['ops'][0]
            elif ld['op'] == 'load' and ld['ty'] == 'i8':
                addr = ld['ops'][0]
            else:
                continue
            # the block must be a loop-continuation test: its result feeds a conditional branch of a loop block
            addr = F.strip_casts(addr)
            kind = None
            if addr['k'] == 'i' and F.insts[addr['v']]['op'] == 'phi':
                kind = 'front'            # advancing pointer
            elif addr['k'] == 'i' and F.insts[addr['v']]['op'] == 'getelementptr' and F.insts[addr['v']].get('var'):
                idx = F.strip_casts(F.insts[addr['v']]['var'][0][0])
                if idx['k'] == 'i' and F.insts[idx['v']]['op'] in ('add', 'sub'):
                    io = F.insts[idx['v']]
                    c = [q for q in io['ops'] if q['k'] == 'c']
                    if c and ((io['op'] == 'sub' and c[0]['v'] == 1) or (io['op'] == 'add' and c[0]['v'] in (-1, 0xFFFFFFFFFFFFFFFF))):
                        kind = 'back'
                elif idx['k'] == 'i' and F.insts[idx['v']]['op'] == 'phi':
                    kind = 'front'
            if kind is None:
                continue
            # only loops whose body just adjusts pointer / length (normalisation loops): the loop has no call except pgm_read_byte
            n += 1
            inst = '%s: zero-skipping loop at line %s drops bytes from the front' % (fn, i.get('line'))
            if kind == 'front':
                chk.ok(R, inst, F.where(i))
            else:
                chk.violation(R, inst, F.where(i), 'the loop tests base[len - 1] (the least significant byte): a key whose element carries leading zero bytes keeps them, '
                              'and the computed length disagrees with the other RSA routines (which strip the front)', key='%s %s' % (R, fn))
    chk.floor('zero-skipping loops classified', n, 15)


def pkcs1_v15_template(chk):
    """RFC 8017 9.2 (EMSA-PKCS1-v1_5), as br_rsa_pkcs1_sig_unpad checks it: 00 01, at least eight FF, 00, DigestInfo, hash - and nothing
    else.  Structural clauses: (a) the fixed prefix compared at offset 0 is exactly 00 01 FF x 8; (b) the loop that skips further FF
    starts right after that prefix; (c) every test on what remains after the padding (sig_len - u, in the no-OID branch of TLS 1.0 /
    1.1 signatures and in the two DigestInfo variants) is an *equality*: an inequality lets garbage sit between the padding and the
    hash, which with e = 3 is Bleichenbacher's signature forgery; (d) the minimum length gate (11) is decided by the obligations
    above."""
    from .. import tab
    R = 'pkcs1-v15-template'
    src = 'src/rsa/rsa_pkcs1_sig_unpad.c'
    u = build.load_unit(src)
    F = next((irf.Func(u, f) for f in u['functions'] if f['name'] == 'br_rsa_pkcs1_sig_unpad' and f.get('blocks')), None)
    if F is None:
        raise AnalysisBroken('br_rsa_pkcs1_sig_unpad vanished')
    SIG, SIGLEN = {'k': 'a', 'v': 0}, {'k': 'a', 'v': 1}
    # (a) the prefix
    mc = [c for c in F.calls('memcmp') if F.addr_of(c['ops'][0]) == (SIG, 0) or F.addr_of(c['ops'][1]) == (SIG, 0)]
    inst = 'br_rsa_pkcs1_sig_unpad: the signature starts with 00 01 and eight FF (compared as one constant block)'
    if len(mc) != 1:
        chk.violation(R, inst, F.where(), '%d comparisons of the start of the signature found' % len(mc), key=R + ' prefix')
    else:
        other = mc[0]['ops'][1] if F.addr_of(mc[0]['ops'][0]) == (SIG, 0) else mc[0]['ops'][0]
        g = F.strip_casts(other)
        gname = g.get('v') if g['k'] == 'g' else None
        if gname is None:
            b, o = F.addr_of(other)
            gname = b.get('v') if b['k'] == 'g' and o == 0 else None
        vals = tab.ints_of_global(u, gname) if gname else None
        n = mc[0]['ops'][2].get('v') if mc[0]['ops'][2]['k'] == 'c' else None
        ref = [0, 1] + [255] * 8
        if vals is not None and vals[:n or 0] == ref and n == 10:
            chk.ok(R, inst, F.where(mc[0]))
        else:
            chk.violation(R, inst, F.where(mc[0]), 'the block compared is %s (%s bytes): %s' % (vals, n,
                          'fewer than eight FF are required - RFC 8017 demands at least eight' if vals and vals[:2] == [0, 1] and all(v == 255 for v in vals[2:]) else 'not the EMSA prefix'),
                          key=R + ' prefix')
        # (b) the FF loop starts at the end of the prefix
        inst = 'br_rsa_pkcs1_sig_unpad: the scan over further FF bytes starts right after the fixed prefix'
        def indexes_sig(pid):
            for x in F.insts.values():
                if x['op'] == 'getelementptr' and F.strip_casts(x['ops'][0]) == SIG and any(F.strip_casts(v) == {'k': 'i', 'v': pid} for v, sc in (x.get('var') or [])):
                    return True
            return False
        phis = [i for i in F.insts.values() if i['op'] == 'phi' and any(o['k'] == 'c' for o in i['ops']) and indexes_sig(i['id'])]
        starts = sorted(set(o['v'] for i in phis for o in i['ops'] if o['k'] == 'c'))
        if starts == [n]:
            chk.ok(R, inst, F.where(phis[0]))
        elif not phis:
            raise AnalysisBroken('br_rsa_pkcs1_sig_unpad: the index of the FF scan was not found')
        else:
            chk.violation(R, inst, F.where(phis[0]), 'the scan starts at %s, the prefix is %s bytes' % (starts, n), key=R + ' scan')
    # (c) equalities on the remaining length

    def from_remaining(o, depth=0):
        o = F.strip_casts(o)
        if o['k'] != 'i' or depth > 4:
            return False
        i = F.insts[o['v']]
        if i['op'] == 'sub':
            if F.strip_casts(i['ops'][0]) == SIGLEN and F.strip_casts(i['ops'][1])['k'] == 'i':
                return True
            return from_remaining(i['ops'][0], depth + 1)
        return False
    cm = [i for i in F.insts.values() if i['op'] == 'icmp' and (from_remaining(i['ops'][0]) or from_remaining(i['ops'][1]))]
    inst = 'br_rsa_pkcs1_sig_unpad: every test of the length remaining after the FF padding is an equality (%d tests)' % len(cm)
    if len(cm) < 3:
        chk.violation(R, inst, F.where(), 'only %d tests of sig_len - u found (no-OID branch, DigestInfo with and without NULL parameters expected)' % len(cm), key=R + ' remaining')
    else:
        bad = [i for i in cm if i['pred'] not in ('eq', 'ne')]
        if bad:
            chk.violation(R, inst, F.where(bad[0]), 'the comparison is `%s`: bytes may sit between the padding and the hash (with e = 3 a forged signature can be '
                          'built by cube root)' % bad[0]['pred'], key=R + ' remaining')
        else:
            chk.ok(R, inst, F.where(cm[0]))


def full_word_carry_keeps_pending(chk):
    """The i32 integers use all 32 bits of a word, so the carry / borrow out of a word cannot be read from a spare bit: it is
    `(naw < aw)` - or, when the incoming carry is set, also `(naw == aw)` (the operand word was all-ones / all-zeros and the carry
    passes through).  Rule for br_i32_add and br_i32_sub: the value carried to the next iteration is an OR of a comparison of the new
    word with the old one and of `cc & EQ(new, old)`.  Without the second term a modulus with an all-ones word gives wrong results."""
    from .. import wmw
    R = 'full-word-carry-keeps-pending'
    P = wmw.program()
    n = 0
    for fn in ('br_i32_add', 'br_i32_sub'):
        Fs = [F for (un, g), F in P.static.items() if g == fn]
        if not Fs:
            raise AnalysisBroken('%s vanished' % fn)
        F = Fs[0]
        inloop = F.loops_blocks()
        phis = [i for i in F.insts.values() if i['op'] == 'phi' and F.block_of[i['id']] in inloop and any(o['k'] == 'c' and o['v'] == 0 for o in i['ops'])
                and i['ty'] == 'i32']
        ok_, seen = False, 0
        for ph in phis:
            for o in ph['ops']:
                o = F.strip_casts(o)
                if o['k'] != 'i' or F.insts[o['v']]['op'] != 'or':
                    continue
                seen += 1
                terms = [F.strip_casts(x) for x in F.insts[o['v']]['ops']]
                has_and = False
                for t in terms:
                    if t['k'] == 'i' and F.insts[t['v']]['op'] == 'and':
                        aops = [F.strip_casts(x) for x in F.insts[t['v']]['ops']]
                        if any(x == {'k': 'i', 'v': ph['id']} for x in aops) and any(x['k'] == 'i' and F.insts[x['v']].get('callee') == 'EQ' for x in aops):
                            has_and = True
                has_cmp = any(t['k'] == 'i' and F.insts[t['v']].get('callee') in ('GT', 'LT') for t in terms)
                if has_and and has_cmp:
                    ok_ = True
        n += 1
        inst = '%s: next carry = (cc & EQ(new, old)) | (new <> old)' % fn
        if ok_:
            chk.ok(R, inst, F.where())
        else:
            chk.violation(R, inst, F.where(), 'the loop-carried carry is not of that form (%d OR-combinations reach the carry variable): a pending carry is lost when the '
                          'operand word leaves the result word unchanged (0xFFFFFFFF in a subtrahend)' % seen, key='%s %s' % (R, fn))
    chk.floor('full-word carry chains', n, 2)


def pubexp_width_gate(chk):
    """br_rsa_iXX_compute_pubexp returns the public exponent only when it fits 32 bits (0 otherwise).  The gate compares the *encoded* bit
    length returned by br_iXX_bit_length ((word index << s) + bits in the top word) with a constant: that constant must be
    enc(32) + 1 for the word size of the implementation (s is read from the bit_length function itself), and the value is assembled
    from the words covering bits 0..31 (shifts k*w for k*w < 32)."""
    from .. import wmw
    R = 'rsa-pubexp-32-bit-gate'
    P = wmw.program()
    n = 0
    for impl, w in (('i31', 31), ('i15', 15)):
        bl = [F for (un, fn), F in P.static.items() if fn == 'br_%s_bit_length' % impl]
        gp = [F for (un, fn), F in P.static.items() if fn == 'get_pubexp' and F.file().endswith('rsa_%s_pubexp.c' % impl)]
        if not bl or not gp:
            raise AnalysisBroken('br_%s_bit_length / get_pubexp (%s) vanished' % (impl, impl))
        B, G = bl[0], gp[0]
        sh = [i['ops'][1]['v'] for i in B.insts.values() if i['op'] == 'shl' and i['ops'][1]['k'] == 'c']
        if len(sh) != 1:
            raise AnalysisBroken('br_%s_bit_length: expected one constant shift (word index scaling), found %s' % (impl, sh))
        want = ((32 // w) << sh[0]) + 32 % w + 1
        def is_bl(o):
            o = G.strip_casts(o)
            return o['k'] == 'i' and G.insts[o['v']]['op'] == 'call' and G.insts[o['v']].get('callee') == 'br_%s_bit_length' % impl
        gates = []      # (inst, relation of bit_length to the constant, constant operand); LT/LE are macros over GT/GE with swapped operands
        for i in G.insts.values():
            if i['op'] == 'call' and i.get('callee') in ('LT', 'LE', 'GT', 'GE') and len(i['ops']) >= 2:
                rel = {'LT': '<', 'LE': '<=', 'GT': '>', 'GE': '>='}[i['callee']]
                if is_bl(i['ops'][0]):
                    gates.append((i, rel, i['ops'][1]))
                elif is_bl(i['ops'][1]):
                    gates.append((i, {'<': '>', '<=': '>=', '>': '<', '>=': '<='}[rel], i['ops'][0]))
        n += 1
        inst = 'get_pubexp (%s): exponent kept iff encoded bit length < enc(32)+1 = %d' % (impl, want)
        if not gates:
            chk.violation(R, inst, G.where(), 'no comparison of br_%s_bit_length() gates the result' % impl, key='%s %s' % (R, impl))
        else:
            g, rel, k = gates[0]
            lim = None if k['k'] != 'c' else (k['v'] if rel == '<' else k['v'] + 1 if rel == '<=' else None)
            if lim == want:
                chk.ok(R, inst, G.where(g))
            else:
                chk.violation(R, inst, G.where(g), 'the gate is bit_length %s %s: exponents of %s bits are %s' % (
                    rel, k.get('v'), 'exactly 32' if (lim or 0) < want else 'more than 32', 'rejected' if (lim or 0) < want else 'truncated and returned'),
                    key='%s %s' % (R, impl))
        # word assembly
        shifts = sorted(set(i['ops'][1]['v'] for i in G.insts.values() if i['op'] == 'shl' and i['ops'][1]['k'] == 'c'
                            and G.strip_casts(i['ops'][0])['k'] == 'i' and G.insts[G.strip_casts(i['ops'][0])['v']]['op'] == 'load'))
        wantsh = [k * w for k in range(1, 4) if k * w < 32]
        n += 1
        inst = 'get_pubexp (%s): the value is assembled from words at bit offsets 0, %s' % (impl, ', '.join(map(str, wantsh)))
        if shifts == wantsh:
            chk.ok(R, inst, G.where())
        else:
            chk.violation(R, inst, G.where(), 'word shifts are %s' % shifts, key='%s %s words' % (R, impl))
    chk.floor('pubexp gate instances', n, 4)


def pubexp_fully_converted(chk):
    """Key generation inverts the public exponent modulo (p-1)/2: invert_pubexp writes the 32-bit `e` into a zeroed big integer, word by
    word.  Every one of the 32 bits of e must land at its own weight: word k (k >= 1) bit j holds bit (k-1)*w + j.  A dropped top
    word leaves exponents below 2^w untouched (65537, 3: everything the tests use) and computes the private exponents of the others
    from a truncated e."""
    from .. import wmw
    R = 'rsa-keygen-pubexp-conversion'
    P = wmw.program()
    n = 0
    for impl, w, f in (('i31', 31, 'rsa_i31_keygen_inner.c'), ('i15', 15, 'rsa_i15_keygen.c')):
        Fs = [F for (un, fn), F in P.static.items() if fn == 'invert_pubexp' and F.file().endswith(f)]
        if not Fs:
            raise AnalysisBroken('invert_pubexp (%s) vanished' % impl)
        F = Fs[0]
        E = {'k': 'a', 'v': 2}
        esz = 4 if w == 31 else 2

        def piece(o, depth=0):
            """-> (shift, mask) when o is (e >> shift) & mask, through casts"""
            if o == E:
                return 0, 0xFFFFFFFF
            if o['k'] != 'i' or depth > 5:
                return None
            i = F.insts[o['v']]
            if i['op'] in ('zext', 'trunc'):
                r = piece(i['ops'][0], depth + 1)
                if r and i['op'] == 'trunc':
                    bits = int(i['ty'][1:])
                    r = (r[0], r[1] & ((1 << bits) - 1))
                return r
            if i['op'] == 'and' and i['ops'][1]['k'] == 'c':
                r = piece(i['ops'][0], depth + 1)
                return (r[0], r[1] & i['ops'][1]['v']) if r else None
            if i['op'] == 'lshr' and i['ops'][1]['k'] == 'c':
                r = piece(i['ops'][0], depth + 1)
                return (r[0] + i['ops'][1]['v'], r[1] >> i['ops'][1]['v']) if r else None
            return None
        cover = {}
        sites = []
        for i in F.insts.values():
            if i['op'] != 'store':
                continue
            pc = piece(i['ops'][0])
            if pc is None:
                continue
            b, off = F.addr_of(i['ops'][1])
            if off is None or off % esz:
                continue
            k = off // esz
            sites.append(i)
            for j in range(32):
                if (pc[1] >> j) & 1 and pc[0] + j < 32:
                    cover.setdefault(pc[0] + j, []).append((k, j))
        n += 1
        inst = 'invert_pubexp (%s): each of the 32 bits of e is stored once, bit b in word 1 + b/%d at position b%%%d' % (impl, w, w)
        if not sites:
            raise AnalysisBroken('invert_pubexp (%s): no store of a piece of e found' % impl)
        missing = [b for b in range(32) if b not in cover]
        wrong = [b for b, l in cover.items() if len(l) != 1 or l[0] != (1 + b // w, b % w)]
        if missing or wrong:
            chk.violation(R, inst, F.where(sites[-1]), '%s: the inverse is computed for another exponent than the one published whenever e >= 2^%d' % (
                'bits %s of e are not stored' % _ranges(missing) if missing else 'bits %s of e are stored at the wrong place' % _ranges(wrong),
                min(missing + wrong)), key='%s %s' % (R, impl))
        else:
            chk.ok(R, inst, F.where(sites[0]))
    chk.floor('pubexp conversions', n, 2)


def _ranges(l):
    l = sorted(l)
    out, k = [], 0
    while k < len(l):
        j = k
        while j + 1 < len(l) and l[j + 1] == l[j] + 1:
            j += 1
        out.append('%d' % l[k] if j == k else '%d..%d' % (l[k], l[j]))
        k = j + 1
    return ', '.join(out)


def modpow_temporaries(chk):
    """br_iXX_modpow(x, e, elen, m, m0i, t1, t2) needs two temporaries of the size of the modulus (its words plus the header word)
    that do not overlap.  At every call site the two pointers are compared in symbolic form: distinct local arrays, a constant
    spacing inside one work area, or - when the second is carved after the first with a computed length - a spacing equal to
    (words of m + 1) * word size, where the word count is derived from the header of the *same* modulus the call receives.
    Sites whose spacing is an index product decided elsewhere (the EC bytecode registers) are listed as not judged."""
    import re
    from .. import wmw, sym
    R = 'modpow-temporaries-disjoint'
    P = wmw.program()
    n = judged = 0
    for (un, fn), F in sorted(P.static.items()):
        for c in F.calls():
            m_ = re.match(r'br_i(15|31|32)_modpow$', c.get('callee') or '')
            if not m_ or len(c['ops']) < 7:
                continue
            w = int(m_.group(1))
            wsz, sh = (2, 4) if w == 15 else (4, 5)
            S = sym.Sym(F)
            t1, t2, mm = S.sym(c['ops'][5]), S.sym(c['ops'][6]), S.sym(c['ops'][3])
            n += 1
            inst = '%s: temporaries of the %s call at line %s do not overlap' % (fn, c['callee'], c.get('line'))
            d = dict(t2[1])
            for k, v in t1[1]:
                d[k] = d.get(k, 0) - v
            d = {k: v for k, v in d.items() if v}
            cst = t2[2] - t1[2]
            atoms1 = [k for k, v in t1[1]]
            atoms2 = [k for k, v in t2[1]]
            if len(atoms1) == 1 and len(atoms2) == 1 and atoms1 != atoms2 and all(a[0] == 'v' and F.insts[a[1]]['op'] == 'alloca' for a in atoms1 + atoms2):
                judged += 1
                chk.ok(R, inst, F.where(c), 'distinct local arrays')
                continue
            if not d:
                judged += 1
                if cst == 0:
                    chk.violation(R, inst, F.where(c), 'both temporaries are the same pointer', key='%s %s %s' % (R, fn, c.get('line')))
                else:
                    chk.ok(R, inst, F.where(c), 'constant spacing of %d bytes inside one work area' % abs(cst))
                continue
            # symbolic spacing: must be wsz * lshr(load(m) + (w == 15 ? 15 : 31), sh) + wsz  (+ a non-negative constant)
            want_atom = None
            if len(d) == 1:
                (a, coef), = d.items()
                if a[0] == 'op' and a[1] == 'lshr' and coef == wsz:
                    inner, shc = a[2], a[3]
                    if shc == ('aff', (), sh) and inner[0] == 'aff' and inner[2] == (1 << sh) - 1 and len(inner[1]) == 1 and inner[1][0][1] == 1:
                        ld = inner[1][0][0]
                        # the loaded header must be word 0 of the modulus argument
                        mb, mo = F.addr_of(c['ops'][3])
                        if ld[0] == 'load' and ld[1] == repr(sorted(mb.items())) and ld[2] == mo:
                            want_atom = a
            if want_atom is not None and cst >= wsz:
                judged += 1
                chk.ok(R, inst, F.where(c), 'spacing = %d * ((m[0] + %d) >> %d) + %d bytes' % (wsz, (1 << sh) - 1, sh, cst))
            elif all(k[0] == 'op' and k[1] in ('and', 'mul') for k in d) or any('and' in repr(k) for k in d):
                chk.ok(R, inst, F.where(c), 'register indices of the EC bytecode: not judged here', nontrivial=False)
            else:
                judged += 1
                chk.violation(R, inst, F.where(c), 'the distance between the temporaries is %s bytes, which is not (words of the modulus + 1) * %d: for some modulus '
                              'sizes the header of the second overlaps the top word of the first' % (sym.show(('aff', tuple(sorted(d.items(), key=repr)), cst)), wsz),
                              key='%s %s %s' % (R, fn, c.get('line')))
    chk.floor('modpow call sites', n, 10)
    chk.floor('modpow call sites judged', judged, 8)


def client_keyx_padding(chk):
    from .. import irf
    """TLS RSA key exchange, client side (RFC 5246 7.4.7.1, PKCS#1 v1.5 type 2): EM = 00 02 PS 00 PMS with PS made of *non-zero* random
    bytes.  make_pms_rsa() fills PS from the DRBG and then re-draws zero bytes in a loop: that loop must visit every byte of PS, i.e.
    run from offset 2 up to the offset of the 00 separator (a zero byte left in PS makes a conforming server reject the message, for
    about 1 handshake in 128 per uncovered byte).  Decided on symbolic forms over the modulus length nlen: separator at nlen - 49,
    PS = [2, 2 + fill length), loop bound."""
    from .. import sym
    R = 'keyx-padding-nonzero-covers-ps'
    src, fn = 'src/ssl/ssl_hs_client.c', 'make_pms_rsa'
    u = build.load_unit(src)
    F = next((irf.Func(u, f) for f in u['functions'] if f['name'] == fn and f.get('blocks')), None)
    if F is None:
        raise AnalysisBroken('%s vanished' % fn)
    S = sym.Sym(F, leaf_vars=('nlen',))
    pad = irf.Layouts(u).field('br_ssl_client_context', 'eng.pad')
    if pad is None:
        raise AnalysisBroken('eng.pad vanished')
    P = pad[0]

    def rel(t):
        """(coefficient of nlen, coefficient of u, constant) of an address / value relative to ctx + P, or None"""
        if t[0] != 'aff':
            return None
        d = dict(t[1])
        cn = d.pop(('var', 'nlen'), 0)
        cu = d.pop(('var', 'u'), 0)
        base = d.pop(('var', 'ctx'), 0) + d.pop(('arg', 0), 0)
        if d:
            return None
        return cn, cu, t[2] - (P if base else 0), base
    sep = fill = bound = None
    for i in F.insts.values():
        if i['op'] == 'store' and i['ops'][0]['k'] == 'c' and i['ops'][0]['v'] == 0 and i.get('size', 1) == 1:
            r = rel(S.sym(i['ops'][1]))
            if r and r[0] == 1 and r[3]:
                sep = (r[2], i)
        elif i['op'] == 'call' and i.get('callee') == 'br_hmac_drbg_generate':
            a, ln = rel(S.sym(i['ops'][1])), rel(S.sym(i['ops'][2]))
            if a and ln and a[:3] == (0, 0, 2) and a[3] and ln[0] == 1:
                fill = (ln[2], i)
        elif i['op'] == 'icmp' and i['pred'] == 'ult':
            a, b = S.sym(i['ops'][0]), rel(S.sym(i['ops'][1]))
            if a == S.atom(('var', 'u')) and b and b[0] == 1 and not b[3]:
                bound = (b[2], i)
    inst = '%s: the zero-byte re-draw loop runs over the whole padding string PS (offsets 2 .. separator)' % fn
    if sep is None or fill is None or bound is None:
        chk.violation(R, inst, F.where(), 'separator store / PS fill / loop bound not identified (%s, %s, %s)' % (sep is not None, fill is not None, bound is not None),
                      key='%s shape' % R)
        return
    det = 'separator at nlen%+d, PS filled over [2, nlen%+d), loop bound nlen%+d' % (sep[0], 2 + fill[0], bound[0])
    if 2 + fill[0] == sep[0] == bound[0]:
        chk.ok(R, inst, F.where(bound[1]), det)
    else:
        chk.violation(R, inst, F.where(bound[1]), det + ': %s' % ('the last %d byte(s) of PS keep whatever the DRBG produced, including 0x00' % (sep[0] - bound[0])
                      if bound[0] < sep[0] else 'the three extents disagree'), key=R)


def muladd_quotient_estimate(chk):
    """br_iXX_muladd_small() (one step of the long division behind decode_reduce / modpow / RSA) estimates the next quotient word from
    the top words a0, b0 of value and modulus.  When a0 == b0 the true quotient word is all-ones *in the word size of the
    representation* - 15, 31 or 32 bits - and the estimate must be that mask (Knuth D3; a smaller estimate is corrected by at most the
    single add-back the code has, so a 31-bit mask in the 32-bit code leaves the result wrong).  Rule: the constant selected by
    MUX(EQ(.., ..), C, ..) in each of the three implementations is 2^w - 1."""
    R = 'muladd-quotient-estimate-mask'
    n = 0
    for w, src in ((15, 'src/int/i15_muladd.c'), (31, 'src/int/i31_muladd.c'), (32, 'src/int/i32_muladd.c')):
        fn = 'br_i%d_muladd_small' % w
        u = build.load_unit(src)
        F = next((irf.Func(u, f) for f in u['functions'] if f['name'] == fn and f.get('blocks')), None)
        if F is None:
            raise AnalysisBroken('%s vanished' % fn)
        cands = []
        for c in F.calls('MUX'):
            ctl = c['ops'][0]
            if ctl['k'] == 'i' and F.insts[ctl['v']]['op'] == 'call' and F.insts[ctl['v']].get('callee') == 'EQ' and c['ops'][1]['k'] == 'c' and c['ops'][1]['v'] not in (0, None):
                cands.append(c)
        n += 1
        inst = '%s: quotient estimate for equal top words is 2^%d - 1' % (fn, w)
        if not cands:
            chk.violation(R, inst, src, 'no MUX(EQ(..), constant, ..) selection found', key='%s %d none' % (R, w))
            continue
        v = cands[0]['ops'][1]['v'] & 0xFFFFFFFF
        if v == (1 << w) - 1:
            chk.ok(R, inst, F.where(cands[0]))
        else:
            chk.violation(R, inst, F.where(cands[0]), 'the estimate is %#x: values whose top word equals the top word of the modulus are reduced wrongly' % v,
                          key='%s %d' % (R, w))
    chk.floor('muladd_small implementations', n, 3)


def run(tier):
    chk = report.Check('C10', tier,
                       'Static rejection obligations for the RSA functions of all four implementations (i15, i31, i32, i62), the shared '
                       'padding code and the key-derivation helpers: each listed validity result / length condition, when it signals failure, '
                       'forces the documented failure return on every path. Decided by constant/range propagation of LLVM (opt -O2) on the '
                       'function\'s IR under the added hypothesis, with a negative control per obligation. Sibling agreement: the same table is '
                       'instantiated for every implementation; a site missing in one of them is reported. NOT decided: that public and private '
                       'are inverses, interoperability of produced values, canonical DigestInfo content beyond the template comparison being '
                       'enforced, key generation primality (decided for key generation: the two top and two bottom bits of every prime candidate are forced, per size class).',
                       assumptions=['clang/opt 14 semantics (incl. UB) are trusted', 'host configuration (BR_64) decides which i62 code exists'],
                       trusted=['clang 14', 'opt-14 default<O2>', 'sa/fold.py rewriting'])
    names = ['BR_MAX_RSA_SIZE >> 3', 'BR_MAX_RSA_FACTOR >> 3']
    cv = build.const_values(names)
    for I in ('i15', 'i31', 'i62'):
        cv['TLEN@' + I] = build.const_values(['TLEN'], includes=('rsa/rsa_%s_priv.c' % I,))['TLEN']
    obs = obligations(cv)
    oblig.run_obligations(chk, obs)
    conj = [
        ('src/rsa/rsa_pss_sig_unpad.c', 'br_rsa_pss_sig_unpad', 'r', 'or', 7,
         'each PSS structure element (top bits, 0xBC trailer, zero padding, 0x01 separator, hash comparison) must be a conjunct of the verdict'),
        ('src/rsa/rsa_ssl_decrypt.c', 'br_rsa_ssl_decrypt', 'x', 'and', 4,
         'each PKCS#1 type-2 structure element (00, 02, non-zero padding, 00 separator) must be a conjunct of the verdict'),
    ]
    for I in IMPLS:
        conj.append(('src/rsa/rsa_%s_priv.c' % I, 'br_rsa_%s_private' % I, 'r', 'and', 3 if IMPLS[I]['modpow'] else 1,
                     'range carry and modpow results must be conjuncts of the result'))
        conj.append(('src/rsa/rsa_%s_pub.c' % I, 'br_rsa_%s_public' % I, 'r', 'and', 2, 'parity and range must be conjuncts of the result'))
        conj.append(('src/rsa/rsa_%s_oaep_decrypt.c' % I, 'br_rsa_%s_oaep_decrypt' % I, 'r', 'and', 1, 'unpad verdict'))
    oblig.run_conjuncts(chk, conj, 'rsa-conjunct')
    keygen_forced_bits(chk)
    zero_stripping_direction(chk)
    pubexp_width_gate(chk)
    pkcs1_v15_template(chk)
    full_word_carry_keeps_pending(chk)
    pubexp_fully_converted(chk)
    modpow_temporaries(chk)
    client_keyx_padding(chk)
    muladd_quotient_estimate(chk)
    from .c11 import decode_mod_covers_source
    decode_mod_covers_source(chk)
    chk.floor("C10 obligations", len(chk.obls), 90)
    from .. import lints
    lints.length_is_boolean(chk, ['src/rsa/'])
    from .. import lints as _l
    _l.limb_split_consistent(chk, ['src/rsa/'])
    from .. import siblings as _sib
    _sib.check(chk, ['src/rsa/'], floor=10)
    from .. import siblings as _sib
    _sib.check_group(chk, 'i31/i32', floor=8)
    from .. import lints as _lints_ir
    _lints_ir.ignored_result_regression(chk, ['src/rsa/', 'src/int/'])
    return chk.finish()
