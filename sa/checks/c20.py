"""C20 — seeded randomness gate and record sequence numbers (DESIGN §4 C20)."""
from .. import build, report, oblig, irf, wmw, fold, tab
from ..oblig import Ob, Call, ICall, Var, FieldLoad, RET, ALL, NOCALL, CALLDOM, E
from ..build import AnalysisBroken

REC = {
    # mode: (unit, context struct, decrypt, encrypt, init functions that must zero seq)
    'cbc': ('src/ssl/ssl_rec_cbc.c', ['br_sslrec_in_cbc_context', 'br_sslrec_out_cbc_context'], 'cbc_decrypt', 'cbc_encrypt', ['in_cbc_init', 'out_cbc_init']),
    'gcm': ('src/ssl/ssl_rec_gcm.c', ['br_sslrec_gcm_context'], 'gcm_decrypt', 'gcm_encrypt', ['gen_gcm_init']),
    'ccm': ('src/ssl/ssl_rec_ccm.c', ['br_sslrec_ccm_context'], 'ccm_decrypt', 'ccm_encrypt', ['gen_ccm_init']),
    'chapol': ('src/ssl/ssl_rec_chapol.c', ['br_sslrec_chapol_context'], 'chapol_decrypt', 'chapol_encrypt', ['gen_chapol_init']),
}


def seq_rules(chk):
    R = 'seq-exactly-once'
    n = 0
    for mode, (src, structs, dec, enc, inits) in REC.items():
        u = build.load_unit(src)
        L = irf.Layouts(u)
        U = irf.Units({'u': u})
        for m in (dec, enc):
            F = U.func(m)
            if F is None:
                raise AnalysisBroken('%s: method %s not found' % (src, m))
            pty = F.f['params'][0]['ty']
            st = wmw.ptr_struct(pty)
            try:
                off = L.field(st, 'seq')[0]
            except Exception:
                raise AnalysisBroken('%s: no seq field in %s' % (m, st))
            n += 1
            inst = '%s.%s: seq += 1 exactly once per record' % (mode, m)
            okk, det, s = wmw.incremented_once(F, 0, off)
            if not okk and s is None and det.startswith('0 stores'):
                # increment delegated to a helper called exactly once (outside loops, dominating every return)
                cands = []
                for c in F.calls():
                    cal = U.func(c.get('callee')) if c.get('callee') else None
                    if cal is None or c['callee'] == m:
                        continue
                    if not c['ops'] or c['ops'][0] != {'k': 'a', 'v': 0}:
                        continue
                    ok2, det2, s2 = wmw.incremented_once(cal, 0, off)
                    if s2 is not None or ok2:
                        cands.append((c, cal, ok2, det2))
                if len(cands) == 1:
                    c, cal, ok2, det2 = cands[0]
                    okk = ok2 and F.block_of[c['id']] not in F.loops_blocks() and \
                        all(F.dominates_block(F.block_of[c['id']], r) for r in F.rets if r in F.reachable())
                    det = 'delegated to %s (%s); call site outside loops and dominating every return: %s' % (cal.name, det2, okk)
                else:
                    det = '%d helper calls increment the sequence number (expected exactly 1)' % len(cands)
            if okk:
                chk.ok(R, inst, F.where(), det)
            else:
                chk.violation(R, inst, F.where(s) if s else F.where(), det, key='%s %s' % (R, m))
        for ini in inits:
            F = U.func(ini)
            if F is None:
                raise AnalysisBroken('%s: init %s not found' % (src, ini))
            st = wmw.ptr_struct(F.f['params'][0]['ty'])
            off = L.field(st, 'seq')[0]
            z = [i for i in F.insts.values() if i['op'] == 'store' and F.addr_of(i['ops'][1]) == ({'k': 'a', 'v': 0}, off)]
            inst = '%s.%s: seq := 0 at key change' % (mode, ini)
            okk = len(z) == 1 and z[0]['ops'][0]['k'] == 'c' and z[0]['ops'][0]['v'] == 0 and \
                all(F.dominates_block(F.block_of[z[0]['id']], r) for r in F.rets)
            if okk:
                chk.ok('seq-reset', inst, F.where(z[0]))
            else:
                chk.violation('seq-reset', inst, F.where(), 'expected one dominating store of 0, found %d stores' % len(z), key='seq-reset %s' % ini)
    chk.floor('record methods', n, 8)
    # no other writer of any seq field in the program
    offs = []
    for mode, (src, structs, dec, enc, inits) in REC.items():
        L = irf.Layouts(build.load_unit(src))
        for st in structs:
            offs.append((st, L.field(st, 'seq')[0]))
    allowed = set()
    for mode, (src, structs, dec, enc, inits) in REC.items():
        allowed |= {dec, enc} | set(inits) | {'do_tag', 'gen_chapol_process'}
    for F, i, st in wmw.stores_to_field(offs, 8):
        inst = 'writer of %s.seq: %s' % (st, F.name)
        if F.name in allowed:
            chk.ok('seq-writers', inst, F.where(i))
        else:
            chk.violation('seq-writers', inst, F.where(i), 'function outside the record layer writes the sequence number', key='seq-writers %s' % F.name)


def rng_rules(chk):
    s = 'src/ssl/ssl_engine.c'
    u = build.load_unit(s)
    L = irf.Layouts(u)
    off_done = L.field('br_ssl_engine_context', 'rng_init_done')[0]
    off_os = L.field('br_ssl_engine_context', 'rng_os_rand_done')[0]
    R = 'rng-gate'
    no_store2 = E(fold.expect_no_store_to, 'no store of 2 (seeded) to rng_init_done', 0, off_done, 2)
    failcall = CALLDOM('br_ssl_engine_fail', 1, lambda v: v != 0, 'br_ssl_engine_fail(non-zero) dominates every return')
    obs = [
        Ob('src/ssl/ssl_client.c', 'br_ssl_client_reset', Call('br_ssl_engine_init_rand'), ('pin', 0), ALL(RET(0), NOCALL('br_ssl_engine_hs_reset')), ('pin', 1),
           'no handshake may start without seeded randomness', rule=R),
        Ob('src/ssl/ssl_server.c', 'br_ssl_server_reset', Call('br_ssl_engine_init_rand'), ('pin', 0), ALL(RET(0), NOCALL('br_ssl_engine_hs_reset')), ('pin', 1),
           'no handshake may start without seeded randomness', rule=R),
        Ob(s, 'br_ssl_engine_init_rand', Call('rng_init'), ('pin', 0), RET(0), ('pin', 1), 'DRBG could not be initialised', rule=R),
        # the state variable reads "not seeded" whenever it is read, and no system seeder exists => refuse
        Ob(s, 'br_ssl_engine_init_rand', FieldLoad(0, off_done, 'rng_init_done'), ('pin', 1), ALL(RET(0), no_store2), None,
           'unseeded generator and no system seeder: must report failure', rule=R,
           extra_hyps=[(Call('br_prng_seeder_system'), ('pin', 0))], noinline=('br_ssl_engine_fail',)),
        Ob(s, 'br_ssl_engine_init_rand', FieldLoad(0, off_done, 'rng_init_done'), ('pin', 1), ALL(RET(0), no_store2), None,
           'unseeded generator and failing system seeder: must report failure', rule=R,
           extra_hyps=[(ICall('seeder', ftype=r'^i32 \(%struct\.br_prng_class_\*\*\)'), ('pin', 0))], noinline=('br_ssl_engine_fail',)),
        Ob(s, 'br_ssl_engine_init_rand', FieldLoad(0, off_done, 'rng_init_done'), ('pin', 1), ALL(RET(0), no_store2), None,
           'unseeded generator, system seeder already tried: must report failure', rule=R,
           extra_hyps=[(FieldLoad(0, off_os, 'rng_os_rand_done'), ('pin', 1))], noinline=('br_ssl_engine_fail',)),
        Ob(s, 'br_ssl_engine_inject_entropy', Call('rng_init'), ('pin', 0), no_store2, ('pin', 1), 'no seeded mark without a DRBG', rule=R),
    ]
    oblig.run_obligations(chk, obs)
    # who may mark the generator as seeded
    R = 'rng-seeded-writers'
    allowed2 = {'br_ssl_engine_init_rand', 'br_ssl_engine_inject_entropy'}
    allowed01 = {'rng_init'}
    structs = [('br_ssl_engine_context', off_done)]
    for cst in ('br_ssl_client_context', 'br_ssl_server_context'):
        structs.append((cst, off_done))          # eng is the first member of both
    nw = 0
    for F, i, st in wmw.stores_to_field(structs, 1):
        v = i['ops'][0]
        nw += 1
        inst = 'store to rng_init_done in %s' % F.name
        if v['k'] == 'c' and v['v'] == 2 and F.name in allowed2:
            chk.ok(R, inst + ' (value 2)', F.where(i))
        elif v['k'] == 'c' and v['v'] in (0, 1) and F.name in allowed01:
            chk.ok(R, inst + ' (value %d)' % v['v'], F.where(i))
        else:
            chk.violation(R, inst, F.where(i), 'unexpected writer / value %s of the seeded flag' % (v.get('v'),), key='%s %s' % (R, F.name))
    chk.floor('rng_init_done writers', nw, 3)
    # inject_entropy: update precedes the mark
    F = irf.Units({'u': u}).func('br_ssl_engine_inject_entropy')
    st2 = [i for i in F.insts.values() if i['op'] == 'store' and F.addr_of(i['ops'][1]) == ({'k': 'a', 'v': 0}, off_done)]
    upd = F.calls('br_hmac_drbg_update')
    inst = 'inject_entropy: br_hmac_drbg_update dominates the seeded mark'
    if st2 and upd and all(any(F.dominates(c['id'], s_['id']) for c in upd) for s_ in st2):
        chk.ok(R, inst, F.where())
    else:
        chk.violation(R, inst, F.where(), 'the generator is marked seeded without the entropy being mixed in', key='%s inject-order' % R)


def iv_field_writers(chk):
    """Record-layer IV state (CBC chaining value of TLS 1.0 / base of the per-record CBC IV; implicit nonce part of GCM, CCM, ChaCha20):
    it is installed from the key block by the *_init function of its context and after that only read, or -- for CBC -- handed to the
    block cipher run(), which leaves the last ciphertext block there.  Any other write lets record data or constants replace it; in
    CBC the explicit IV block is encrypted under that chaining value, so a write of the IV block itself cancels out and every record
    carries the same IV.  Who-may-write rule over the four record modules."""
    R = 'record-iv-writers'
    n = 0
    nw = 0
    for src in ('src/ssl/ssl_rec_cbc.c', 'src/ssl/ssl_rec_gcm.c', 'src/ssl/ssl_rec_ccm.c', 'src/ssl/ssl_rec_chapol.c'):
        u = build.load_unit(src)
        L = irf.Layouts(u)
        for f in u['functions']:
            if not f.get('blocks') or not f['params']:
                continue
            st = wmw.ptr_struct(f['params'][0]['ty'])
            if not st or 'sslrec' not in st:
                continue
            fl = L.field(st, 'iv')
            if fl is None:
                continue
            F = irf.Func(u, f)
            lo, hi = fl[0], fl[0] + fl[1]
            is_init = F.name.endswith('_init')

            def in_iv(o):
                if o['k'] not in ('i',):
                    return False
                b, off = F.addr_of(o)
                return b == {'k': 'a', 'v': 0} and off is not None and lo <= off < hi
            for i in F.insts.values():
                what = None
                if i['op'] == 'store' and in_iv(i['ops'][1]):
                    what = 'a store'
                elif i['op'] == 'call':
                    c = i.get('callee') or ''
                    if c.startswith(('llvm.memcpy', 'llvm.memset', 'llvm.memmove')):
                        if in_iv(i['ops'][0]):
                            what = c.split('.')[1]
                        elif len(i['ops']) > 1 and in_iv(i['ops'][1]):
                            n += 1
                            chk.ok(R, '%s: reads the IV (copy source)' % F.name, F.where(i))
                            continue
                    elif c.startswith('llvm.'):
                        continue
                    elif any(in_iv(o) for o in i['ops']):
                        if i.get('callee') is None and 'cbc' in st and [k for k, o in enumerate(i['ops']) if in_iv(o)] == [1]:
                            n += 1
                            chk.ok(R, '%s: IV handed to the block cipher run() as chaining value' % F.name, F.where(i))
                            continue
                        what = 'a call to %s() receiving its address' % (i.get('callee') or 'an indirect target')
                if what is None:
                    continue
                n += 1
                nw += 1
                inst = '%s: %s into %s.iv' % (F.name, what, st)
                if is_init:
                    chk.ok(R, inst + ' (installation from key material)', F.where(i))
                else:
                    chk.violation(R, inst, F.where(i), 'only the *_init function of the context may write the IV state; this write replaces the chaining value / '
                                  'implicit nonce during record processing', key='%s %s' % (R, F.name))
    chk.floor('IV field accesses', n, 13)
    chk.floor('IV field writers', nw, 7)


def ephemeral_key_fully_drawn(chk):
    """"Ephemeral EC keys differ across connections": the ECDHE private key is order-length bytes from the engine DRBG (then masked below
    the order).  The length handed to br_hmac_drbg_generate must be the curve order length just obtained from impl->order(curve,
    &olen) - the local that call wrote - not some other quantity (a stale context field, a constant): bytes not drawn keep their old
    value, and with a zeroed context the whole key is a constant.  Structural rule in the server's do_ecdhe_part1 and the client's
    make_pms_ecdh."""
    R = 'ephemeral-key-fully-drawn'
    n = 0
    for src, fn in (('src/ssl/ssl_hs_server.c', 'do_ecdhe_part1'), ('src/ssl/ssl_hs_client.c', 'make_pms_ecdh')):
        u = build.load_unit(src)
        F = next((irf.Func(u, f) for f in u['functions'] if f['name'] == fn and f.get('blocks')), None)
        if F is None:
            raise AnalysisBroken('%s vanished from %s' % (fn, src))
        # the out-parameter of the order() call: an indirect call (i32, i64*) returning i8*
        outs = set()
        for c in F.calls():
            if c.get('callee') is None and len(c['ops']) == 2 and c.get('ty') == 'i8*':
                b, o = F.addr_of(c['ops'][1])
                if b['k'] == 'i' and F.insts[b['v']]['op'] == 'alloca' and o == 0:
                    outs.add(b['v'])
        gens = F.calls('br_hmac_drbg_generate')
        if not outs or not gens:
            raise AnalysisBroken('%s: order() call / DRBG draw not identified' % fn)
        for g in gens:
            n += 1
            ln = g['ops'][2]
            while ln['k'] == 'i' and F.insts[ln['v']]['op'] in ('zext', 'trunc', 'sext'):
                ln = F.insts[ln['v']]['ops'][0]
            okk = False
            if ln['k'] == 'i' and F.insts[ln['v']]['op'] == 'load':
                b, o = F.addr_of(F.insts[ln['v']]['ops'][0])
                okk = b['k'] == 'i' and b['v'] in outs and o == 0
            inst = '%s: the ephemeral private key is drawn over the full order length' % fn
            if okk:
                chk.ok(R, inst, F.where(g))
            else:
                chk.violation(R, inst, F.where(g), 'the length of the DRBG draw is not the order length returned by order(): key bytes keep stale / constant values',
                              key='%s %s' % (R, fn))
    chk.floor('ephemeral key draws', n, 2)


def session_id_fresh(chk):
    """"Across connections with different seeds the session IDs differ": for every full (non-resumed) handshake the server draws a new
    32-byte session ID from the engine DRBG.  In the ClientHello word the resumption flag (result of check-resume) is tested by an
    early return; on the path that continues - the full handshake - every way to the end of the word must pass through
    mkrand(session_id, 32).  Path rule on the server bytecode, with the draw identified by the abstract interpreter (address and
    length constants)."""
    from .. import t0, t0ai
    R = 'server-session-id-fresh'
    P = t0.Program('hs_server')
    o_sid = P.layouts.field(P.ctxname, 'eng.session.session_id')[0]
    I = t0ai.Interp(P).run_entry()
    cr = sorted(set((e.word, e.pc) for e in I.events if e.name == 'check-resume'))
    if len(cr) != 1:
        raise AnalysisBroken('hs_server: check-resume call not identified (%s)' % cr)
    w, pc = cr[0]
    W = P.words[w]
    l = list(W.ins.values())
    k = next(j for j, i in enumerate(l) if i.pc == pc)
    if not (k + 1 < len(l) and l[k + 1].kind == 'putlocal'):
        raise AnalysisBroken('hs_server: the result of check-resume is not stored in a local')
    rl = l[k + 1].arg
    draws = set(e.pc for e in I.events if e.name == 'mkrand' and e.word == w and e.args[0].isconst() and e.args[0].c == o_sid
                and e.args[1].isconst() and e.args[1].c == 32)
    early = [l[j + 1] for j, i in enumerate(l[:-3]) if i.kind == 'getlocal' and i.arg == rl and l[j + 1].kind == 'jumpifnot'
             and l[j + 2].kind == 'const' and l[j + 3].kind == 'ret']
    inst = 'hs_server W%d: a full handshake (resume flag clear) always draws a new session ID' % w
    if not early:
        chk.violation(R, inst, P.src, 'the early return of the resumption path was not found', key='%s shape' % R)
        return
    bad = None
    seen, st = set(), [early[0].arg]
    while st and bad is None:
        q = st.pop()
        if q in seen or q in draws or q not in W.ins:
            continue
        seen.add(q)
        i = W.ins[q]
        if i.kind == 'ret':
            bad = q
            break
        st.extend(W.succs(i))
    if bad is None and draws:
        chk.ok(R, inst, P.src, 'draw at W%d@%s' % (w, sorted(draws)))
    else:
        chk.violation(R, inst, P.src, '%s: the session ID sent in the ServerHello can be the one the client offered, or a stale one'
                      % ('the end of the word is reachable at pc %s without mkrand(session_id, 32)' % bad if draws else 'no mkrand(session_id, 32) in the word'), key=R)


def hello_random_drawn(chk):
    """"Across connections with different seeds the hello randoms differ": each side fills its 32-byte hello random from the engine
    DRBG - all of it, or all but the 4 leading bytes when those carry the time (RFC 5246 7.4.1.2).  From the abstract interpretation:
    a mkrand call whose constant (address, length) covers the random up to its last byte with at least 28 bytes."""
    from .. import t0, t0ai
    R = 'hello-random-drawn'
    for key, fld in (('hs_client', 'eng.client_random'), ('hs_server', 'eng.server_random')):
        P = t0.Program(key)
        o = P.layouts.field(P.ctxname, fld)[0]
        I = t0ai.Interp(P).run_entry()
        draws = sorted(set((e.args[0].c, e.args[1].c) for e in I.events if e.name == 'mkrand' and e.args[0].isconst() and e.args[1].isconst()))
        okk = [d for d in draws if o <= d[0] <= o + 4 and d[0] + d[1] == o + 32]
        inst = '%s: %s is filled from the DRBG (28 or 32 bytes, up to its last byte)' % (key, fld.split('.')[1])
        if okk:
            chk.ok(R, inst, P.src, 'mkrand(%d, %d), field at %d' % (okk[0][0], okk[0][1], o))
        else:
            chk.violation(R, inst, P.src, 'DRBG draws (address, length) in this interpreter: %s; the random field is [%d, %d)' % (draws, o, o + 32), key='%s %s' % (R, key))


def hello_random_fresh_per_handshake(chk):
    """The hello random must be new for *every* handshake a context performs - full, resumed, renegotiated - not only be drawn somewhere:
    a random that is drawn on the full-handshake path only is replayed (or left zero) when a session is resumed, which is exactly when
    it is the sole fresh input of the key derivation.  Rule over the bytecode: on every path from the start of a handshake (an activation
    of a word that the entry word's main loop calls and that reaches the send) to the write-blob of the 32-byte field, the DRBG draw
    covering the field has been executed (helper words that always perform it count)."""
    from .. import t0, t0ai, t0rules
    R = 'hello-random-fresh-per-handshake'
    n = 0
    for key, fld in (('hs_client', 'eng.client_random'), ('hs_server', 'eng.server_random')):
        P = t0.Program(key)
        o = P.layouts.field(P.ctxname, fld)[0]
        I = t0ai.Interp(P).run_entry()
        draws = [(e.word, e.pc) for e in I.events if e.name == 'mkrand' and e.args[0].isconst() and e.args[1].isconst()
                 and o <= e.args[0].c <= o + 4 and e.args[0].c + e.args[1].c == o + 32]
        # write-blob is an interpreted word around the native write-blob-chunk; a send of the random is `addr-X_random 32 write-blob`
        wb = set(P.words_calling_native('write-blob-chunk'))
        sends = []
        for w, W in P.words.items():
            seq = list(W.ins.values())
            for k in range(2, len(seq)):
                i = seq[k]
                if i.kind == 'call' and i.arg in wb and seq[k - 1].kind == 'const' and seq[k - 1].arg == 32:
                    a = seq[k - 2]
                    v = a.arg if a.kind == 'const' else P.const_word_value(a.arg) if a.kind == 'call' else None
                    if v == o:
                        sends.append((w, i.pc))
        if not sends or not draws:
            raise AnalysisBroken('%s: send / draw of %s not found in the interpreter events (%d / %d)' % (key, fld, len(sends), len(draws)))
        # a handshake is one activation of a word called from the entry word's main loop (do-handshake and its kin): the draw must happen
        # between the start of that activation and the send, wherever inside it
        entry = P.entries[0][1]
        sw = set(w for w, _ in sends)
        tops = [i.arg for i in P.words[entry].ins.values() if i.kind == 'call' and i.arg in P.words and (sw & set(P.reachable_words(i.arg)) or i.arg in sw)]
        starts = sorted(set(tops)) or sorted(sw)
        res, _ = t0rules.must_call(P, None, sends, gensites=draws, start_false=starts)
        for site in sends:
            n += 1
            inst = '%s: %s is drawn between the start of the handshake (words %s) and its send in word %d at pc %d' % (key, fld.split('.')[1], starts, site[0], site[1])
            if res.get(site):
                chk.ok(R, inst, P.src)
            else:
                chk.violation(R, inst, P.src, 'some path from the start of a handshake reaches the send without the DRBG draw (draw sites: %s): handshakes taking '
                              'that path - e.g. session resumption - reuse the previous random or send zeros' % sorted(set(draws)), key='%s %s' % (R, key))
    chk.floor('hello random sends', n, 2)


def hardware_seeder_feeds_all(chk):
    """On the ESP8266 (and the Pico) the DRBG seed comes from the hardware generator, 32 bits at a time, into a local array that is then
    injected: every element of the array must be drawn (loop bound = element count) and the injected length must be the size of the
    array in *bytes* - a word count in its place feeds a quarter of what was drawn, and seeds that agree on those bytes give
    identical streams.  sysrng.c is compiled in the two configurations that the host build never sees."""
    R = 'hardware-seeder-feeds-all'
    s = 'src/rand/sysrng.c'
    n = 0
    for config, fn, src_call in (('rnd_esp8266', 'seeder_esp8266', 'phy_get_rand'), ('rnd_pico', 'seeder_pico', '__picoRand')):
        u = build.load_unit(s, 'm2r', config)
        F = next((irf.Func(u, f) for f in u['functions'] if f['name'] == fn and f.get('blocks')), None)
        if F is None:
            raise AnalysisBroken('%s is not compiled in configuration %s' % (fn, config))
        arrs = [i for i in F.insts.values() if i['op'] == 'alloca']
        upd = [c for c in F.calls() if c.get('callee') is None]
        draws = [c for c in F.calls(src_call)]
        if len(upd) != 1 or not draws:
            raise AnalysisBroken('%s [%s]: %d update calls, %d draws' % (fn, config, len(upd), len(draws)))
        c = upd[0]
        args = c['ops']
        b, off = F.addr_of(args[1])
        n += 1
        inst = '%s [%s]: the DRBG is updated with the whole array the hardware words were drawn into' % (fn, config)
        A = F.insts[b['v']] if b['k'] == 'i' and F.insts[b['v']]['op'] == 'alloca' else None
        size = A.get('asize') or A.get('size') if A else None
        if A is None or off != 0:
            chk.violation(R, inst, F.where(c), 'the data pointer is not the start of a local array', key='%s %s ptr' % (R, fn))
            continue
        if size is None:
            import re as _re
            m = _re.match(r'\[(\d+) x i(\d+)\]', A.get('aty') or A.get('ety') or A.get('ty', ''))
            size = int(m.group(1)) * int(m.group(2)) // 8 if m else None
        ln = args[2].get('v') if args[2]['k'] == 'c' else None
        # the fill loop: store of the drawn word at tmp[i], i < bound
        bounds = [i['ops'][1]['v'] for i in F.insts.values() if i['op'] == 'icmp' and i['ops'][1]['k'] == 'c' and i['pred'] in ('ult', 'slt')]
        if size is None:
            raise AnalysisBroken('%s: size of the local array unknown (%s)' % (fn, A))
        if ln != size:
            chk.violation(R, inst, F.where(c), 'the array holds %d bytes, the update length is %s: %s' % (size, ln if ln is not None else 'not a constant',
                          'only the first %s bytes of the hardware output reach the DRBG' % ln if isinstance(ln, int) and ln < size else 'length mismatch'), key='%s %s len' % (R, fn))
        elif bounds != [size // 4]:
            chk.violation(R, inst, F.where(c), 'the fill loop runs to %s, the array has %d words' % (bounds, size // 4), key='%s %s loop' % (R, fn))
        else:
            chk.ok(R, inst, F.where(c), '%d bytes drawn and injected' % size)
    chk.floor('hardware seeders', n, 2)


def seed_all_bytes(chk):
    """"different seeds give different streams": every byte of an injected seed must reach the DRBG.  Decided part: with the seed
    length fixed to K, a single (non-looping) DRBG update whose length folds to a constant below K necessarily drops seed bytes."""
    R = 'seed-fully-absorbed'
    s = 'src/ssl/ssl_engine.c'

    def full(K):
        def f(F):
            calls = [i for i in fold._reach_insts(F) if i['op'] == 'call' and i.get('callee') == 'br_hmac_drbg_update']
            if not calls:
                return False, 'no DRBG update is reached for a %d-byte seed' % K
            inloop = F.loops_blocks()
            tot, var = 0, False
            for c in calls:
                a = c['ops'][2]
                if a['k'] != 'c' or F.block_of[c['id']] in inloop:
                    var = True
                else:
                    tot += a['v']
            if var or tot >= K:
                return True, '%d update call(s); %s' % (len(calls), 'length not constant / in a loop (not judged)' if var else 'total %d bytes' % tot)
            return False, 'the DRBG is updated with %d bytes of a %d-byte seed' % (tot, K)
        f.desc = 'the DRBG update(s) absorb all %d seed bytes' % K
        return f
    obs = []
    for K in (48, 1000):
        obs.append(Ob(s, 'br_ssl_engine_inject_entropy', Var('len', 'param'), ('assume', 'eq', K), full(K), None,
                      'bytes of the injected seed that never reach the generator make different seeds produce the same stream', rule=R,
                      noinline=('br_hmac_drbg_update', 'rng_init'), extra_hyps=[(Call('rng_init'), ('pin', 1))]))
    oblig.run_obligations(chk, obs)


def seq_encoding(chk):
    """The 64-bit record sequence number enters the MAC / AEAD input -- and, for the AEAD modes, the nonce -- whole and big-endian
    (RFC 5246 6.2.3, RFC 5288 3, RFC 6655 3, RFC 7905 2).  Decided by constant propagation: the load of cc->seq is pinned to
    0x0102030405060708 and, after `opt -O2`, the bytes written to the local header / nonce buffers (or to the explicit-nonce slot of
    the record) must be the constants 01..08 at the positions the RFCs give.  A nonce or MAC input that drops or folds bits of the
    sequence number repeats within one key."""
    R = 'sequence-number-encoding'
    K = 0x0102030405060708
    BE = [(K >> (8 * (7 - k))) & 0xFF for k in range(8)]

    def optimised(src, fn, struct):
        U = oblig.funit(src)
        L = irf.Layouts(U.unit)
        off = L.field(struct, 'seq')[0]
        fl = U.field_loads(fn, 0, off)
        if not fl:
            raise AnalysisBroken('%s: no load of %s.seq' % (fn, struct))
        hy = [dict(kind='pin', n=x['n'], value=K) for x in fl]
        return U.optimise(fn, hy, ()), U.func(fn)

    def byte_stores(F, base_pred):
        """{byte offset: constant | ('xor', constant)} for stores whose address is base (selected by base_pred) + constant"""
        out = {}
        for i in F.insts.values():
            if i['op'] != 'store':
                continue
            b, o = F.addr_of(i['ops'][1])
            if o is None or not base_pred(F, b):
                continue
            v = i['ops'][0]
            sz = i.get('size', 1)
            if v['k'] == 'c' and v['v'] is not None:
                val = v['v'] & ((1 << (8 * sz)) - 1)
                for k in range(sz):
                    out[o + k] = (val >> (8 * k)) & 0xFF          # little-endian host
            elif v['k'] == 'i' and F.insts[v['v']]['op'] == 'xor' and sz == 1:
                x = F.insts[v['v']]
                c = [q for q in x['ops'] if q['k'] == 'c']
                if c:
                    out[o] = ('xor', c[0]['v'] & 0xFF)
            elif v['k'] == 'i' and F.insts[v['v']]['op'] == 'call' and (F.insts[v['v']].get('callee') or '').startswith('llvm.bswap') and sz == 8:
                a = F.insts[v['v']]['ops'][0]
                if a['k'] == 'c':
                    for k in range(8):
                        out[o + k] = (a['v'] >> (8 * (7 - k))) & 0xFF
        return out

    def alloca_named(F0, var):
        ids = [d['v'] for d in F0.f.get('declares', []) if d['var'] == var]
        return ids

    def local(var_size):
        return lambda F, b: b['k'] == 'i' and F.insts[b['v']]['op'] == 'alloca' and F.insts[b['v']].get('size') == var_size

    def param(n):
        return lambda F, b: b == {'k': 'a', 'v': n}
    cases = [
        # (source, function, context struct, description, base selector, {offset: expected}, what)
        ('src/ssl/ssl_rec_chapol.c', 'gen_chapol_process', 'br_sslrec_chapol_context', 'AAD header bytes 0..7', local(13), {k: BE[k] for k in range(8)}),
        ('src/ssl/ssl_rec_chapol.c', 'gen_chapol_process', 'br_sslrec_chapol_context', 'nonce = IV xor (0^32 || seq), RFC 7905', local(12),
         {4 + k: ('xor', BE[k]) for k in range(8)}),
        ('src/ssl/ssl_rec_gcm.c', 'do_tag', 'br_sslrec_gcm_context', 'AAD header bytes 0..7', local(13), {k: BE[k] for k in range(8)}),
        ('src/ssl/ssl_rec_gcm.c', 'gcm_encrypt', 'br_sslrec_gcm_context', 'explicit nonce (8 bytes before the ciphertext) = seq', param(3), {k - 8: BE[k] for k in range(8)}),
        ('src/ssl/ssl_rec_ccm.c', 'ccm_decrypt', 'br_sslrec_ccm_context', 'AAD header bytes 0..7', local(13), {k: BE[k] for k in range(8)}),
        ('src/ssl/ssl_rec_ccm.c', 'ccm_encrypt', 'br_sslrec_ccm_context', 'AAD header bytes 0..7', local(13), {k: BE[k] for k in range(8)}),
        ('src/ssl/ssl_rec_ccm.c', 'ccm_encrypt', 'br_sslrec_ccm_context', 'nonce = salt || seq', local(12), {4 + k: BE[k] for k in range(8)}),
        ('src/ssl/ssl_rec_cbc.c', 'cbc_decrypt', 'br_sslrec_in_cbc_context', 'MAC input bytes 0..7', local(64), {k: BE[k] for k in range(8)}),
        ('src/ssl/ssl_rec_cbc.c', 'cbc_encrypt', 'br_sslrec_out_cbc_context', 'MAC input bytes 0..7', local(13), {k: BE[k] for k in range(8)}),
    ]
    n = 0
    for src, fn, st, what, sel, want in cases:
        Fo, F0 = optimised(src, fn, st)
        got = byte_stores(Fo, sel)
        inst = '%s: %s' % (fn, what)
        n += 1
        miss = {o: (got.get(o), w) for o, w in want.items() if got.get(o) != w}
        if not miss:
            chk.ok(R, inst, src, 'seq pinned to 0x%016X: %d byte positions match' % (K, len(want)))
        else:
            chk.violation(R, inst, src, 'with seq = 0x%016X the bytes at offsets %s are %s, expected %s: part of the sequence number does not reach the %s'
                          % (K, sorted(miss), [miss[o][0] for o in sorted(miss)], [miss[o][1] for o in sorted(miss)],
                             'nonce' if 'nonce' in what else 'authenticated data'), key='%s %s %s' % (R, fn, what.split(' ')[0]))
    chk.floor('sequence-number encodings', n, 9)


def seeder_rules(chk, config='host'):
    """every system seeder compiled in this configuration returns 0 when its source fails and updates the DRBG before returning 1;
    run for the host configuration and for the two single-seeder builds (getentropy only, /dev/urandom only): a fallback that exists
    in one build may be the only thing that hides a missing failure return in another"""
    s = 'src/rand/sysrng.c'
    R = 'seeder-fail-closed'
    U = oblig.funit(s, config)
    obs = []
    names = set(U.funcs)
    if 'seeder_urandom' in names:
        obs += [
            Ob(s, 'seeder_urandom', Call('open'), ('pin', -1), ALL(RET(0), E(fold.expect_no_indirect_call, 'DRBG not updated')), ('pin', 3), '/dev/urandom cannot be opened [%s]' % config, rule=R, config=config),
            Ob(s, 'seeder_urandom', Call('read'), ('pin', 0), ALL(RET(0), E(fold.expect_no_indirect_call, 'DRBG not updated')), None, 'short / failed read [%s]' % config, rule=R, config=config),
            Ob(s, 'seeder_urandom', Call('read'), ('pin', -1), ALL(RET(0), E(fold.expect_no_indirect_call, 'DRBG not updated')), None, 'short / failed read [%s]' % config, rule=R, config=config),
        ]
    if 'seeder_getentropy' in names:
        obs += [
            Ob(s, 'seeder_getentropy', Call('getentropy'), ('pin', -1),
               E(fold.expect_no_indirect_call, 'DRBG not updated from a failed getentropy') if 'seeder_urandom' in names else
               ALL(RET(0), E(fold.expect_no_indirect_call, 'DRBG not updated from a failed getentropy')), None,
               'getentropy failure must not seed (falls back to urandom when that seeder is compiled in, reports failure otherwise) [%s]' % config,
               rule=R, noinline=('seeder_urandom',), config=config),
        ]
    if 'seeder_rdrand_with_fallback' in names:
        obs += [
            Ob(s, 'seeder_rdrand_with_fallback', Call('seeder_rdrand'), ('pin', 1), RET(1), None, 'rdrand success', rule=R, noinline=('seeder_rdrand',), config=config),
        ]
    chk.count('seeders_compiled [%s]' % config, len([n for n in names if n.startswith('seeder_')]))
    if not obs:
        raise AnalysisBroken('no system seeder found in sysrng.c for this configuration')
    oblig.run_obligations(chk, obs)
    # update dominates `return 1` in each seeder that calls update
    for fn in sorted(n for n in names if n.startswith('seeder_') and n != 'seeder_rdrand_with_fallback'):
        F = U.func(fn)
        ic = [c for c in F.calls() if c.get('callee') is None]
        if not ic:
            continue
        bad = None
        for b in F.blocks:
            t = b['insts'][-1]
            if t['op'] != 'ret' or not t['ops']:
                continue
            v = t['ops'][0]
            # which incoming paths return non-zero
            srcs = []
            if v['k'] == 'c':
                if v['v'] != 0:
                    srcs.append(b['id'])
            elif v['k'] == 'i' and F.insts[v['v']]['op'] == 'phi':
                for o, inb in zip(F.insts[v['v']]['ops'], F.insts[v['v']]['inb']):
                    if not (o['k'] == 'c' and o['v'] == 0):
                        srcs.append(inb)
            else:
                srcs.append(b['id'])
            for sb in srcs:
                if not any(F.dominates_block(F.block_of[c['id']], sb) for c in ic):
                    last = [x for x in F.blocks if x['id'] == sb][0]['insts'][-1]
                    if last['op'] == 'br' or last['op'] == 'ret':
                        # a tail call to another seeder (fallback) is fine
                        if any(c2.get('callee', '') and c2['callee'].startswith('seeder_') and F.dominates_block(F.block_of[c2['id']], sb) for c2 in F.calls()):
                            continue
                        bad = sb
        inst = '%s: a success return is dominated by the DRBG update [%s]' % (fn, config)
        if bad is None:
            chk.ok('seeder-update-before-success', inst, F.where())
        else:
            chk.violation('seeder-update-before-success', inst, F.where(), 'a non-zero return is reachable without (*ctx)->update', key='seeder-update %s %s' % (fn, config))


def run(tier):
    chk = report.Check('C20', tier,
                       'Static: (1) seed-or-fail gate: a failed br_ssl_engine_init_rand makes client/server reset return 0 without reaching '
                       'hs_reset; init_rand returns 0 and never marks the generator seeded when the state reads unseeded and the system seeder is '
                       'absent, fails, or was already tried; only init_rand (after seeder success) and inject_entropy (after the DRBG update) '
                       'store the seeded mark; system seeders fail closed; an injected seed of 48 / 1000 bytes is absorbed whole by the DRBG update. (2) sequence numbers: in all 8 encrypt/decrypt methods the 64-bit '
                       'sequence number is incremented exactly once per record (single load+1 store, outside loops, dominating every return, '
                       'possibly delegated to one helper), reset to 0 by every init, and written by nobody else. NOT decided: distinctness of '
                       'randoms across connections, reproducibility with equal seeds, nonce values.',
                       trusted=['clang/opt 14', 'debug-info struct layouts', 'sa/wmw.py whole-program store scan (all 295 units)'])
    rng_rules(chk)
    seeder_rules(chk)
    seeder_rules(chk, 'rnd_getentropy_only')
    seeder_rules(chk, 'rnd_urandom_only')
    seed_all_bytes(chk)
    iv_field_writers(chk)
    ephemeral_key_fully_drawn(chk)
    session_id_fresh(chk)
    hello_random_drawn(chk)
    hello_random_fresh_per_handshake(chk)
    hardware_seeder_feeds_all(chk)
    seq_rules(chk)
    seq_encoding(chk)
    return chk.finish()
