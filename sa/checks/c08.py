"""C08 — secrets never influence branches or memory addresses (IR level): secret-taint analysis per constant-time entry point."""
import os, time, json
from .. import build, report, flow, irf
from ..flow import AV, BOT, Engine, Policy
from ..build import AnalysisBroken


def X(i):
    return AV(frozenset(), frozenset([(('X', (i,)), 0)]))


def FN(name):
    return AV(frozenset(), frozenset([(('F', name), 0)]))


def SEC(label):
    return AV(frozenset([label]))


def whole(label):
    return lambda off: [label]


def fields(spec):
    """spec: list of (lo, hi, label) byte ranges of a struct that are secret; off None (variable index) -> all labels"""
    def f(off):
        if off is None:
            return sorted(set(l for _, _, l in spec))
        return [l for lo, hi, l in spec if lo <= off < hi]
    return f


# suppression table: (function, sink kind, line-independent condition variable / reason) -> allowed labels
# Loop *conditions* cannot carry an added declassification line; each entry cites the source comment it relies on.
SUPPRESS = {
    ('br_rsa_i15_private', 'branch'): ('sk.p', 'sk.q', 'leading-zero stripping of p and q: "These lengths are not considered secret" (rsa_i15_priv.c)'),
    ('br_rsa_i31_private', 'branch'): ('sk.p', 'sk.q', 'same comment in rsa_i31_priv.c'),
    ('br_rsa_i32_private', 'branch'): ('sk.p', 'sk.q', 'same comment in rsa_i32_priv.c'),
    ('br_rsa_i62_private', 'branch'): ('sk.p', 'sk.q', 'same comment in rsa_i62_priv.c'),
}

# narrower suppressions: a branch whose condition is the result of one of the listed calls, in the listed function only
SUPPRESS_COND = {
    'br_ecdsa_i15_sign_raw': (('br_i15_iszero', 'br_i15_sub', 'br_i15_decode_mod'), ('sk.x',),
                              'RFC 6979 3.2 step h.3: a candidate nonce that is 0 or >= q is discarded and the next one drawn; the branch reveals only that a '
                              'candidate was rejected (probability < 2^-32 per candidate on the supported curves), nothing about the nonce that is used.  '
                              'br_i15_decode_mod / br_i15_iszero on the private key itself: "This also checks that the private key is well-defined (not zero, '
                              'and less than the curve order)" (ecdsa_i15_sign_raw.c) - every well-formed key takes the same side, the branch tells a malformed '
                              'key from a usable one and nothing else (the loop-carried comparison state of decode_mod is secret, its final verdict is not)'),
    'br_ecdsa_i31_sign_raw': (('br_i31_iszero', 'br_i31_sub', 'br_i31_decode_mod'), ('sk.x',), 'same loop and same key well-formedness test in the i31 signer'),
}

# functions whose *return value* is the public accept/reject verdict by their API contract (bearssl_aead.h: "returns 1 on success")
PUBLIC_RESULTS = ('br_ccm_check_tag', 'br_gcm_check_tag', 'br_gcm_check_tag_trunc', 'br_eax_check_tag', 'br_eax_check_tag_trunc')

RSA_SK = {(1, 8): whole('sk.p'), (1, 24): whole('sk.q'), (1, 40): whole('sk.dp'), (1, 56): whole('sk.dq'), (1, 72): whole('sk.iq')}

ENTRIES = []


def entry(name, func, args, rules, ptr_rules=None, allow=(), nonct=('memcmp', 'strlen', 'strcmp', 'memchr'), cswap_model=True):
    ENTRIES.append(dict(name=name, func=func, args=args, rules=rules, ptr_rules=ptr_rules or {}, allow=allow, nonct=nonct, cswap_model=cswap_model))


# ---- RSA private key operations.  i32 and i62 are NOT claimed: see DROPPED below.
for I in ('i15', 'i31'):
    r = dict(RSA_SK)
    r[(0,)] = whole('x')
    entry('rsa_%s_private' % I, 'br_rsa_%s_private' % I, [X(0), X(1)], r)
# ---- EC scalar multiplication, generic prime curves
for I in ('i15', 'i31'):
    entry('ec_prime_%s.mul' % I, ('ec__ec_prime_%s' % I, 'api_mul'), [X(0), BOT, X(2), BOT, BOT], {(2,): whole('scalar')})
    entry('ec_prime_%s.mulgen' % I, ('ec__ec_prime_%s' % I, 'api_mulgen'), [X(0), X(1), BOT, BOT], {(1,): whole('scalar')})


# specialised P-256 and Curve25519 implementations
for impl in ('p256_m15', 'p256_m31', 'p256_m62', 'p256_m64', 'c25519_i15', 'c25519_i31', 'c25519_m15', 'c25519_m31', 'c25519_m62', 'c25519_m64'):
    entry('ec_%s.mul' % impl, ('ec__ec_%s' % impl, 'api_mul'), [X(0), BOT, X(2), BOT, BOT], {(2,): whole('scalar')})
for impl in ('p256_m15', 'p256_m31', 'p256_m62', 'p256_m64'):
    entry('ec_%s.mulgen' % impl, ('ec__ec_%s' % impl, 'api_mulgen'), [X(0), X(1), BOT, BOT], {(1,): whole('scalar')})
# ---- symmetric primitives: bitsliced AES / DES key schedules and block runs, ChaCha20, Poly1305, GHASH
for impl in ('aes_ct', 'aes_ct64'):
    entry('%s.keysched' % impl, 'br_%s_keysched' % impl, [X(0), X(1), BOT], {(1,): whole('key')})
    entry('%s.cbcenc' % impl, 'br_%s_cbcenc_run' % impl, [X(0), X(1), X(2), BOT], {(0,): fields([(8, 8 + 240, 'skey')]), (2,): whole('data'), (1,): whole('iv')})
    entry('%s.cbcdec' % impl, 'br_%s_cbcdec_run' % impl, [X(0), X(1), X(2), BOT], {(0,): fields([(8, 8 + 240, 'skey')]), (2,): whole('data'), (1,): whole('iv')})
    entry('%s.ctr' % impl, 'br_%s_ctr_run' % impl, [X(0), X(1), BOT, X(3), BOT], {(0,): fields([(8, 8 + 240, 'skey')]), (3,): whole('data')})
    for m_ in ('encrypt', 'decrypt'):
        entry('%s.ctrcbc_%s' % (impl, m_), 'br_%s_ctrcbc_%s' % (impl, m_), [X(0), X(1), X(2), X(3), BOT],
              {(0,): fields([(8, 8 + 240, 'skey')]), (3,): whole('data'), (2,): whole('mac')})
    entry('%s.ctrcbc_mac' % impl, 'br_%s_ctrcbc_mac' % impl, [X(0), X(1), X(2), BOT], {(0,): fields([(8, 8 + 240, 'skey')]), (2,): whole('data'), (1,): whole('mac')})
entry('des_ct.keysched', 'br_des_ct_keysched', [X(0), X(1), BOT], {(1,): whole('key')})
entry('des_ct.cbcenc', 'br_des_ct_cbcenc_run', [X(0), X(1), X(2), BOT], {(0,): fields([(8, 8 + 384, 'skey')]), (2,): whole('data'), (1,): whole('iv')})
entry('des_ct.cbcdec', 'br_des_ct_cbcdec_run', [X(0), X(1), X(2), BOT], {(0,): fields([(8, 8 + 384, 'skey')]), (2,): whole('data'), (1,): whole('iv')})
entry('chacha20_ct', 'br_chacha20_ct_run', [X(0), X(1), BOT, X(3), BOT], {(0,): whole('key'), (3,): whole('data')})
for impl in ('ctmul', 'ctmul32', 'ctmulq', 'i15'):
    entry('poly1305_%s' % impl, 'br_poly1305_%s_run' % impl, [X(0), X(1), X(2), BOT, X(4), BOT, X(6), FN('br_chacha20_ct_run'), BOT],
          {(0,): whole('key'), (2,): whole('data'), (4,): whole('aad')})
for impl in ('ctmul', 'ctmul32', 'ctmul64'):
    entry('ghash_%s' % impl, 'br_ghash_%s' % impl, [X(0), X(1), X(2), BOT], {(0,): whole('y'), (1,): whole('h'), (2,): whole('data')})
# the conditional exchange of the Curve25519 ladders is modelled at its call sites (like br_ccopy); here it is analysed itself
for impl in ('c25519_i15', 'c25519_i31'):
    entry('ec_%s.cswap' % impl, ('ec__ec_%s' % impl, 'cswap'), [X(0), X(1), SEC('ctl')], {(0,): whole('a'), (1,): whole('b')}, cswap_model=False)
# ---- record layer decryption (MAC-then-encrypt CBC with the constant-time HMAC, and the AEAD modes)
HASH_VT = ['br_sha1_vtable', 'br_sha256_vtable', 'br_sha384_vtable']
CBC_AES = fields([(24, 24 + 240, 'enckey'), (424, 552, 'mackey')])
CBC_DES = fields([(24, 24 + 384, 'enckey'), (424, 552, 'mackey')])
for bcv in ('br_aes_ct_cbcdec_vtable', 'br_aes_ct64_cbcdec_vtable', 'br_des_ct_cbcdec_vtable'):
    entry('rec_cbc.decrypt[%s]' % bcv[3:-14], ('ssl__ssl_rec_cbc', 'cbc_decrypt'), [X(0), BOT, BOT, X(3), X(4)],
          {(0,): CBC_DES if 'des' in bcv else CBC_AES, (3,): whole('data')}, ptr_rules={((0,), 16): [bcv], ((0,), 416): HASH_VT})
# the running byte count of the hash context (offset 72 resp. 136) is public: it is the amount of data hashed so far
entry('hmac_outCT[64-byte block hashes]', 'br_hmac_outCT', [X(0), X(1), SEC('len'), BOT, BOT, X(5)],
      {(0,): fields([(8, 72, 'hashbuf'), (80, 144, 'hashstate'), (208, 272, 'kso')]), (1,): whole('data')},
      ptr_rules={((0,), 0): ['br_md5_vtable', 'br_sha1_vtable', 'br_sha224_vtable', 'br_sha256_vtable']})
entry('hmac_outCT[128-byte block hashes]', 'br_hmac_outCT', [X(0), X(1), SEC('len'), BOT, BOT, X(5)],
      {(0,): fields([(8, 136, 'hashbuf'), (144, 208, 'hashstate'), (208, 272, 'kso')]), (1,): whole('data')},
      ptr_rules={((0,), 0): ['br_sha384_vtable', 'br_sha512_vtable']})
# ---- hash compression functions on secret blocks (HMAC keys, PRF secrets, the DRBG state all go through them) and the hash update /
# output functions on secret data: the running byte count (offset 72 resp. 136) is public, buffer and state are secret
entry('md5.round', 'br_md5_round', [X(0), X(1)], {(0,): whole('block'), (1,): whole('state')})
entry('sha1.round', 'br_sha1_round', [X(0), X(1)], {(0,): whole('block'), (1,): whole('state')})
entry('sha2small.round', 'br_sha2small_round', [X(0), X(1)], {(0,): whole('block'), (1,): whole('state')})
entry('sha2big.round', ('hash__sha2big', 'sha2big_round'), [X(0), X(1)], {(0,): whole('block'), (1,): whole('state')})
for hn, lo, hi in (('md5', 72, 96), ('sha1', 72, 100), ('sha224', 72, 112), ('sha384', 136, 208)):
    entry('%s.update[secret data]' % hn, 'br_%s_update' % hn, [X(0), X(1), BOT], {(0,): fields([(8, lo, 'hashbuf'), (lo + 8, hi + 8, 'hashstate')]), (1,): whole('data')})
    entry('%s.out[secret state]' % hn, 'br_%s_out' % hn, [X(0), X(1)], {(0,): fields([(8, lo, 'hashbuf'), (lo + 8, hi + 8, 'hashstate')])})
AEAD_CTX = fields([(24, 24 + 240, 'enckey'), (284, 300, 'h')])
for bcv in ('br_aes_ct_ctr_vtable', 'br_aes_ct64_ctr_vtable'):
    entry('rec_gcm.decrypt[%s]' % bcv[3:-11], ('ssl__ssl_rec_gcm', 'gcm_decrypt'), [X(0), BOT, BOT, X(3), X(4)],
          {(0,): AEAD_CTX, (3,): whole('data')}, ptr_rules={((0,), 16): [bcv], ((0,), 272): ['F:br_ghash_ctmul', 'F:br_ghash_ctmul32', 'F:br_ghash_ctmul64']})
for bcv in ('br_aes_ct_ctrcbc_vtable', 'br_aes_ct64_ctrcbc_vtable'):
    entry('rec_ccm.decrypt[%s]' % bcv[3:-14], ('ssl__ssl_rec_ccm', 'ccm_decrypt'), [X(0), BOT, BOT, X(3), X(4)],
          {(0,): fields([(24, 24 + 240, 'enckey')]), (3,): whole('data')}, ptr_rules={((0,), 16): [bcv]})
entry('rec_chapol.decrypt', ('ssl__ssl_rec_chapol', 'chapol_decrypt'), [X(0), BOT, BOT, X(3), X(4)],
      {(0,): fields([(16, 48, 'key')]), (3,): whole('data')},
      ptr_rules={((0,), 64): ['F:br_chacha20_ct_run'], ((0,), 72): ['F:br_poly1305_ctmul_run', 'F:br_poly1305_ctmul32_run', 'F:br_poly1305_ctmulq_run', 'F:br_poly1305_i15_run']})
# ---- conditional copy and constant-time helpers
entry('ccopy', 'br_ccopy', [SEC('ctl'), X(1), X(2), BOT], {(1,): whole('dst'), (2,): whole('src')})


def G(name):
    return AV(frozenset(), frozenset([(('G', name), 0)]))


# ---- HMAC with a secret key (key length is public)
for hv in ('br_sha1_vtable', 'br_sha256_vtable', 'br_sha384_vtable', 'br_md5_vtable'):
    entry('hmac.key_init[%s]' % hv[3:-7], 'br_hmac_key_init', [X(0), G(hv), X(2), BOT], {(2,): whole('key')})


# ---- ECDSA signature generation (RFC 6979 nonce): the private key and everything derived from it (the DRBG state, the nonce k,
# k^-1, the intermediate sums) are secret.  br_ec_private_key: { int curve; unsigned char *x; size_t xlen; }
for I, impl in (('i15', 'br_ec_prime_i15'), ('i31', 'br_ec_prime_i31')):
    entry('ecdsa_%s.sign_raw' % I, 'br_ecdsa_%s_sign_raw' % I, [G(impl), G('br_sha256_vtable'), X(2), X(3), X(4)],
          {(3, 8): whole('sk.x')})


# ---- declassification marks are assertions the analysis trusts; every one must be justified on each run
CONTRACT_MARKS = {
    # (function, marked object): reason
    ('br_rsa_i15_private', 'mq'): 'announced bit length of the prime factor q: key size, "these lengths are not considered secret" (rsa_i15_priv.c)',
    ('br_rsa_i15_private', 't1'): 'announced bit length of the prime factor p (same comment)',
    ('br_rsa_i31_private', 'mq'): 'announced bit length of q (rsa_i31_priv.c)',
    ('br_rsa_i31_private', 't1'): 'announced bit length of p (rsa_i31_priv.c)',
}


def mark_justification(chk):
    """A memory mark BR_VERIF_PUBLIC_MEM(p, n) makes the cell public for the whole analysis (the memory model is flow-insensitive).
    It is accepted only (a) right after a store, in the same block, to that very address, of a value computed without reading the
    marked object and without any call result (the mark then only documents the strong update the engine cannot see), or (b) when it is
    listed in CONTRACT_MARKS with the source comment it relies on.  Anything else is an unjustified mark."""
    R = 'declassification-marks-justified'
    units = flow.all_units()
    n = 0
    for un, d in sorted(units.items()):
        U = irf.Units({un: d})
        for fn, F in sorted(U.funcs.items()):
            names = {}
            for b in F.blocks:
                for i in b['insts']:
                    if i['op'] == 'dbgvalue' and i['ops'][0]['k'] in ('i', 'a'):
                        names.setdefault((i['ops'][0]['k'], i['ops'][0]['v']), i['var'])
            for b in F.blocks:
                ins = [i for i in b['insts'] if i['op'] != 'dbgvalue']
                for k, i in enumerate(ins):
                    if i['op'] != 'call' or i.get('callee') != 'br_verif_public_mem':
                        continue
                    n += 1
                    p = F.strip_casts(i['ops'][0])
                    pname = names.get((p['k'], p.get('v'))) if p['k'] in ('i', 'a') else None
                    inst = '%s: mark on %s (line %s)' % (fn, pname or 'object', i.get('line'))
                    if (fn, pname) in CONTRACT_MARKS:
                        chk.ok(R, inst, F.where(i), 'contract: ' + CONTRACT_MARKS[(fn, pname)])
                        continue
                    kk = k - 1
                    while kk >= 0 and ins[kk]['op'] in ('bitcast', 'getelementptr'):
                        kk -= 1
                    prev = ins[kk] if kk >= 0 else None
                    okk = False
                    det = 'not preceded by a store to the marked address'
                    if prev is not None and prev['op'] == 'store' and F.addr_of(prev['ops'][1]) == F.addr_of(i['ops'][0]) and F.addr_of(prev['ops'][1])[1] is not None:
                        # value: no call result, no load from the marked object
                        base = F.addr_of(i['ops'][0])[0]
                        seen, st, bad = set(), [prev['ops'][0]], None
                        while st:
                            o = st.pop()
                            if o['k'] != 'i' or o['v'] in seen:
                                continue
                            seen.add(o['v'])
                            j = F.insts[o['v']]
                            if j['op'] == 'call':
                                bad = 'the stored value comes from a call'
                                break
                            if j['op'] == 'load':
                                if F.addr_of(j['ops'][0])[0] == base:
                                    bad = 'the stored value is read from the marked object itself'
                                    break
                                continue
                            st.extend(j['ops'])
                        okk = bad is None
                        det = bad or 'strong update of a value computed from other (public) headers / lengths'
                    if okk:
                        chk.ok(R, inst, F.where(i), det)
                    else:
                        chk.violation(R, inst, F.where(i), 'unjustified declassification mark: %s' % det, key='%s %s %s' % (R, fn, pname))
    chk.floor('memory marks examined', n, 8)


def bits2int_order(chk):
    """the cells marked in br_ecdsa_iXX_bits2int are blind spots of the flow analysis, so the order that makes them safe is
    checked structurally: a store to the header word dominates the br_iXX_rshift call and comes after the decoding call"""
    R = 'bits2int-public-header-before-shift'
    for w in ('i15', 'i31'):
        src = 'src/ec/ecdsa_%s_bits.c' % w
        u = build.load_unit(src)
        F = irf.Units({'u': u}).func('br_ecdsa_%s_bits2int' % w)
        if F is None:
            raise AnalysisBroken('br_ecdsa_%s_bits2int vanished' % w)
        dec, rsh = F.calls('br_%s_decode' % w), F.calls('br_%s_rshift' % w)
        inst = 'br_ecdsa_%s_bits2int: header := public length between decode and rshift' % w
        okk = False
        if len(dec) == 1 and len(rsh) == 1:
            for i in F.insts.values():
                if i['op'] == 'store' and F.addr_of(i['ops'][1]) == ({'k': 'a', 'v': 0}, 0) and F.dominates(dec[0]['id'], i['id']) and F.dominates(i['id'], rsh[0]['id']):
                    v = i['ops'][0]
                    # the value must not be loaded from x
                    seen, st, bad = set(), [v], False
                    while st:
                        o = st.pop()
                        if o['k'] != 'i' or o['v'] in seen:
                            continue
                        seen.add(o['v'])
                        j = F.insts[o['v']]
                        if j['op'] == 'call' or (j['op'] == 'load' and F.addr_of(j['ops'][0])[0] == {'k': 'a', 'v': 0}):
                            bad = True
                        st.extend(j['ops'] if j['op'] not in ('load', 'call') else [])
                    if not bad:
                        okk = True
        if okk:
            chk.ok(R, inst, F.where())
        else:
            chk.violation(R, inst, F.where(), 'br_%s_rshift runs over the bit length recorded by the decoding of a possibly secret value (the RFC 6979 nonce): '
                          'its loop count reveals the top bits of that value' % w, key='%s %s' % (R, w))

# ---- RSA decryption paddings: the decrypted block is secret until the documented verdict / length is released
entry('rsa_ssl_decrypt[i31]', 'br_rsa_ssl_decrypt', [FN('br_rsa_i31_private'), X(1), X(2), BOT],
      dict(list({(1, 8): whole('sk.p'), (1, 24): whole('sk.q'), (1, 40): whole('sk.dp'), (1, 56): whole('sk.dq'), (1, 72): whole('sk.iq')}.items()) + [((2,), whole('x'))]))
# br_rsa_oaep_unpad is NOT entered: MGF1 hashes the secret block through a local hash context, and the memory model smears the labels of
# the context's block buffer over its byte counter (range summaries have no upper bound), which floods the hash code with false reports.
# ECDSA with the specialised P-256 back ends
entry('ecdsa_i31.sign_raw[p256_m31]', 'br_ecdsa_i31_sign_raw', [G('br_ec_p256_m31'), G('br_sha256_vtable'), X(2), X(3), X(4)], {(3, 8): whole('sk.x')})
entry('ecdsa_i15.sign_raw[p256_m15]', 'br_ecdsa_i15_sign_raw', [G('br_ec_p256_m15'), G('br_sha256_vtable'), X(2), X(3), X(4)], {(3, 8): whole('sk.x')})


def run_entry(e, units):
    pol = Policy(e['rules'], nonct=e['nonct'])
    pol.ptr_rules = e['ptr_rules']
    pol.cswap = ('cswap',) if e.get('cswap_model', True) else ()
    pol.public_results = PUBLIC_RESULTS
    eng = Engine(units, pol)
    t = time.time()
    fn = e['func']
    if isinstance(fn, tuple):
        # a static function: make it the preferred definition of that name
        un, name = fn
        if (un, name) not in eng.unitfuncs:
            raise AnalysisBroken('entry %s: %s not found in %s' % (e['name'], name, un))
        eng.funcs[name] = (un, eng.unitfuncs[(un, name)])
        fn = name
    elif fn not in eng.funcs:
        raise AnalysisBroken('entry %s: function %s not found' % (e['name'], fn))
    eng.analyze(fn, e['args'])
    alarms = []
    for k, v in sorted(eng.alarms.items(), key=lambda kv: (kv[0][0], kv[0][1] or 0)):
        f, line, iid, what = k
        ctx, labels = v
        sup = SUPPRESS.get((f, what.split(' ')[0]))
        if sup and set(labels) <= set(sup[:-1]):
            continue
        sc = SUPPRESS_COND.get(f)
        if sc and what.split(' ')[0] == 'branch' and set(labels) <= set(sc[1]) and f in eng.funcs:
            fu, fd = eng.funcs[f]
            fi = {i['id']: i for b in fd['blocks'] for i in b['insts']}
            bi = fi.get(iid)
            o = bi['ops'][0] if bi and bi['op'] == 'br' and len(bi['ops']) == 3 else None
            for _ in range(4):
                if o is None or o['k'] != 'i':
                    break
                j = fi[o['v']]
                if j['op'] in ('zext', 'trunc'):
                    o = j['ops'][0]
                elif j['op'] == 'icmp' and j['ops'][1]['k'] in ('c',) and j['ops'][1]['v'] == 0:
                    o = j['ops'][0]
                else:
                    break
            if o is not None and o['k'] == 'i' and fi[o['v']]['op'] == 'call' and fi[o['v']].get('callee') in sc[0]:
                continue
        alarms.append(dict(function=f, line=line, sink=what, labels=labels, via=[c[0] for c in ctx][-4:]))
    stats = dict(eng.stats)
    return dict(name=e['name'], alarms=alarms, contexts=len(eng.args), passes=eng.passes, secs=round(time.time() - t, 2),
                loads=stats.get('loads', 0), stores=stats.get('stores', 0), branches=stats.get('branches', 0),
                selects=len(eng.selects), unknown=sorted(x for x in getattr(eng, 'unk', set()) if x),
                unresolved=sorted(map(str, getattr(eng, 'unres', set()))))


# entry points that do not exist in the 32-bit configuration (their units compile to a stub when 64-bit multiplications are unavailable)
C32_ABSENT = ('ec_p256_m62.mul', 'ec_p256_m64.mul', 'ec_c25519_m62.mul', 'ec_c25519_m64.mul', 'ec_p256_m62.mulgen', 'ec_p256_m64.mulgen', 'poly1305_ctmulq')
_CONFIG = ['host']


def _worker(i):
    units = flow.all_units(_CONFIG[0])
    try:
        return run_entry(ENTRIES[i], units)
    except AnalysisBroken as ex:
        return dict(name=ENTRIES[i]['name'], error=str(ex))
    except Exception as ex:
        import traceback
        return dict(name=ENTRIES[i]['name'], error='internal: %s\n%s' % (ex, traceback.format_exc()[-600:]))


def positive_controls(chk):
    """the engine must fire on the built-in leaky examples (and stay quiet on the constant-time one) on every run"""
    import subprocess
    wd = build.workdir()
    src = os.path.join(build.VERIF, 'selftest', 'ct_bad.c')
    ll = os.path.join(wd, 'ct_bad.ll')
    js = os.path.join(wd, 'ct_bad.json')
    p = subprocess.run(['clang', '-g', '-S', '-emit-llvm', '-O0', '-Xclang', '-disable-O0-optnone', '-w', src, '-o', ll + '.raw'], capture_output=True, text=True)
    if p.returncode:
        raise AnalysisBroken('positive control does not compile: ' + p.stderr[-300:])
    subprocess.run(['opt-14', '-S', '-passes=mem2reg', ll + '.raw', '-o', ll], check=True)
    with open(js, 'w') as f:
        subprocess.run([build.IRDUMP, ll], stdout=f, check=True)
    units = {'ct_bad': json.load(open(js))}
    expect = {
        'ctbad_early_exit': ([X(0), X(1), BOT], {(0,): whole('s')}, 'branch'),
        'ctbad_table': ([X(0)], {(0,): whole('s')}, 'load address'),
        'ctbad_mux': ([SEC('ctl'), BOT, BOT], {}, 'branch'),
        'ctbad_memcmp': ([X(0), X(1)], {(0,): whole('s')}, 'call to non-CT memcmp'),
        'ctbad_loop_carried': ([X(0), X(1), BOT], {(0,): whole('s')}, 'branch'),
        'ctgood_eq': ([X(0), X(1), BOT], {(0,): whole('s')}, None),
    }
    for fn, (args, rules, sink) in expect.items():
        pol = Policy(rules, nonct=('memcmp', 'strlen', 'strcmp', 'memchr'))
        eng = Engine(units, pol)
        eng.analyze(fn, args)
        kinds = sorted(set(k[3] for k in eng.alarms))
        if (sink is None and kinds) or (sink is not None and sink not in kinds):
            raise AnalysisBroken('positive control %s: expected %s, engine reported %s' % (fn, sink, kinds))
    chk.count('positive_controls_fired', 5)
    chk.count('negative_controls_quiet', 1)


def unpad_constant_time(chk):
    """OAEP unpadding works on the decrypted block, which is secret until the verdict is out: a branch, an address or a copy length that
    depends on its bytes before that point is Manger's oracle.  br_rsa_oaep_unpad is not an entry of the whole-call-tree analysis (its
    hash callees flood it, see the entry table); instead an intraprocedural taint analysis with opaque callees: sources are the
    bytes loaded from the data buffer, labels flow through arithmetic, phis and the constant-time helpers (EQ, NOT, GE, MUX, ...);
    sinks are branch / switch conditions, load / store addresses, memmove / memcpy / memset operands and divisions.  Released by
    contract: the returned verdict - the branch on the very value the function returns, and everything it dominates (the message
    length is revealed only for a valid padding).  The callees that receive the buffer (MGF1, the label hash) are trusted here."""
    R = 'unpadding-constant-time'
    HELPERS = ('EQ', 'NEQ', 'NOT', 'GT', 'GE', 'LT', 'LE', 'MUX', 'EQ0', 'CMP', 'BIT_LENGTH', 'MIN', 'MAX')
    n = 0
    for src, fn, dparam in (('src/rsa/rsa_oaep_unpad.c', 'br_rsa_oaep_unpad', 3),):
        u = build.load_unit(src)
        F = next((irf.Func(u, f) for f in u['functions'] if f['name'] == fn and f.get('blocks')), None)
        if F is None:
            raise AnalysisBroken('%s vanished from %s' % (fn, src))

        def rooted(o, seen=None):
            seen = seen if seen is not None else set()
            if o['k'] == 'a':
                return o['v'] == dparam
            if o['k'] != 'i' or o['v'] in seen:
                return False
            seen.add(o['v'])
            i = F.insts[o['v']]
            if i['op'] in ('getelementptr', 'bitcast'):
                return rooted(i['ops'][0], seen)
            if i['op'] == 'phi':
                return any(rooted(q, seen) for q in i['ops'])
            return False
        taint = set()
        ch = True
        while ch:
            ch = False
            for i in F.insts.values():
                if i['id'] in taint:
                    continue
                t = False
                if i['op'] == 'load':
                    t = rooted(i['ops'][0])
                elif i['op'] == 'call':
                    t = (i.get('callee') in HELPERS) and any(o['k'] == 'i' and o['v'] in taint for o in i['ops'])
                elif i['op'] in ('store', 'br', 'switch', 'ret', 'alloca', 'dbgvalue', 'getelementptr'):
                    t = False
                else:
                    t = any(o['k'] == 'i' and o['v'] in taint for o in i['ops'])
                if t:
                    taint.add(i['id'])
                    ch = True
        if not taint:
            raise AnalysisBroken('%s: no byte of the data buffer is read' % fn)
        # the released verdict
        rets = [b['insts'][-1] for b in F.blocks if b['insts'][-1]['op'] == 'ret']
        retvals = set(r['ops'][0]['v'] for r in rets if r['ops'] and r['ops'][0]['k'] == 'i')
        for _ in range(4):      # early `return 0` paths merge with the verdict in a phi
            for v in list(retvals):
                if F.insts[v]['op'] == 'phi':
                    retvals |= set(q['v'] for q in F.insts[v]['ops'] if q['k'] == 'i')
        released = set()          # blocks dominated by the taken side of a branch on the returned value
        verdict_brs = set()
        for b in F.blocks:
            t = b['insts'][-1]
            if t['op'] == 'br' and len(t['ops']) == 3 and t['ops'][0]['k'] == 'i':
                c = F.insts[t['ops'][0]['v']]
                if c['op'] == 'icmp' and c['pred'] in ('ne', 'eq') and c['ops'][1]['k'] == 'c' and c['ops'][1]['v'] == 0 and \
                        c['ops'][0]['k'] == 'i' and c['ops'][0]['v'] in retvals:
                    verdict_brs.add(t['id'])
                    dest = t['ops'][2]['v'] if c['pred'] == 'ne' else t['ops'][1]['v']
                    if len(F.pred[dest]) == 1:
                        released |= set(x['id'] for x in F.blocks if F.dominates_block(dest, x['id']))

        def tainted(o):
            return o['k'] == 'i' and o['v'] in taint

        def addr_tainted(o, depth=0):
            if o['k'] != 'i' or depth > 8:
                return False
            i = F.insts[o['v']]
            if i['op'] == 'getelementptr':
                return any(tainted(q) for q in i['ops'][1:]) or addr_tainted(i['ops'][0], depth + 1)
            if i['op'] == 'bitcast':
                return addr_tainted(i['ops'][0], depth + 1)
            return i['op'] not in ('phi', 'alloca', 'load') and tainted(o)
        sinks = 0
        for i in F.insts.values():
            if F.block_of[i['id']] in released:
                continue
            bad = None
            if i['op'] == 'br' and len(i['ops']) == 3 and tainted(i['ops'][0]) and i['id'] not in verdict_brs:
                bad = 'branch'
            elif i['op'] == 'switch' and tainted(i['ops'][0]):
                bad = 'switch'
            elif i['op'] == 'load' and addr_tainted(i['ops'][0]):
                bad = 'load address'
            elif i['op'] == 'store' and addr_tainted(i['ops'][1]):
                bad = 'store address'
            elif i['op'] in ('udiv', 'sdiv', 'urem', 'srem') and any(tainted(o) for o in i['ops']):
                bad = 'division'
            elif i['op'] == 'call' and (i.get('callee') or '').startswith(('llvm.mem', 'memcpy', 'memmove', 'memset', 'memcmp')) and \
                    (any(tainted(o) for o in i['ops'][:3]) or any(addr_tainted(o) for o in i['ops'][:2])):
                bad = 'memory routine operand'
            if i['op'] in ('br', 'switch', 'load', 'store', 'udiv', 'sdiv', 'urem', 'srem') or (i['op'] == 'call' and (i.get('callee') or '').startswith('llvm.mem')):
                sinks += 1
            if bad:
                chk.violation(R, '%s: %s at line %s does not depend on the decrypted block' % (fn, bad, i.get('line')), F.where(i),
                              'it depends on bytes of the decrypted block before the padding verdict is released: the rejection path tells an attacker '
                              'something about the plaintext (padding oracle)', key='%s %s %s' % (R, fn, bad))
        n += 1
        if not verdict_brs:
            chk.violation(R, '%s: the released verdict is the returned value' % fn, F.where(), 'no branch on the returned value found: the release point cannot be identified',
                          key='%s %s no-release' % (R, fn))
        chk.ok(R, '%s: no branch, address, copy operand or division depends on the decrypted block before the verdict (%d labelled values, %d sinks examined)'
               % (fn, len(taint), sinks), F.where())
    chk.floor('unpadding functions', n, 1)


def run(tier):
    chk = report.Check('C08', tier,
                       'IR-level secret-taint analysis (sa/flow.py) of the constant-time entry points: starting from the documented secret '
                       'inputs (private key bytes, scalars, MAC keys, record plaintext, ...), labels are propagated through the whole call '
                       'tree of each entry (context-sensitive, memory modelled by regions / views / exact cells / range summaries); a report '
                       'is raised when a label reaches a branch or switch condition, the address or length of a load / store / memcpy / '
                       'memset, a division operand, an indirect-call target or an argument of a non-constant-time routine. Declassification '
                       'only at source-declared marks (guarded BR_VERIF_PUBLIC hooks) and the per-function suppression table. NOT decided: '
                       'machine code (selects on secrets are counted, a back end may lower them to branches), micro-architectural leaks.',
                       assumptions=['A: different views of one root buffer do not overlap in cells read at constant offsets (bigint layout)',
                                    'B: br_ccopy keeps equal announced-bit-length headers (modelled, and analysed separately as an entry)',
                                    'C: integer parameters and loaded sizes are non-negative for the index-range analysis'],
                       trusted=['clang 14 -O0 + mem2reg IR', 'sa/flow.py', 'policy table in sa/checks/c08.py'])
    import multiprocessing as mp
    positive_controls(chk)
    mark_justification(chk)
    bits2int_order(chk)
    unpad_constant_time(chk)
    from . import c03 as _c03
    _c03.failed_keyx_randomised(chk)
    flow.all_units()
    with mp.get_context('fork').Pool(min(16, len(ENTRIES))) as pool:
        res = pool.map(_worker, range(len(ENTRIES)))
    if tier == 'thorough':
        # second pass over the 32-bit configuration (BR_64=0, no 128-bit products, BR_LOMUL: the code an ESP8266 build runs)
        _CONFIG[0] = 'c32'
        flow.all_units('c32')
        idx = [k for k, e in enumerate(ENTRIES) if e['name'] not in C32_ABSENT]
        with mp.get_context('fork').Pool(min(16, len(idx))) as pool:
            res2 = pool.map(_worker, idx)
        _CONFIG[0] = 'host'
        for r in res2:
            r['name'] = r['name'] + ' [c32]'
        res = res + res2
    R = 'no-secret-dependent-control-or-address'
    tot = dict(loads=0, stores=0, branches=0, selects=0, contexts=0)
    for r in res:
        if 'error' in r:
            raise AnalysisBroken('entry %s: %s' % (r['name'], r['error']))
        for k in tot:
            tot[k] += r[k]
        inst = 'entry %s' % r['name']
        if not r['alarms']:
            chk.ok(R, inst, '', '%d function instances, %d loads / %d stores / %d branches examined, %d selects on secrets, %.1fs'
                   % (r['contexts'], r['loads'], r['stores'], r['branches'], r['selects'], r['secs']))
        for a in r['alarms']:
            chk.violation(R, '%s: %s:%s %s' % (r['name'], a['function'], a['line'], a['sink']), '%s:%s' % (a['function'], a['line']),
                          'depends on secret %s (call path ...%s)' % (a['labels'], '>'.join(a['via'])),
                          key='%s %s %s %s' % (R, r['name'], a['function'], a['sink'].split(' ')[0]))
        if r['unknown']:
            chk.notes.append('%s: calls analysed as unknown externals: %s' % (r['name'], r['unknown']))
    for k, v in tot.items():
        chk.count(k + '_examined', v)
    chk.floor('entries', len(res), len(ENTRIES) if tier != 'thorough' else 2 * len(ENTRIES) - len(C32_ABSENT))
    return chk.finish()
