"""C04 — X.509 validation accepts exactly when the rules are met: static necessary conditions (DESIGN §4 C04)."""
from .. import build, report, oblig, irf, fold, t0, t0ai, t0rules, wmw, tab
from ..oblig import Ob, Call, ICall, Var, FieldLoad, RET, RET_NONZERO, ALL, NOCALL, E
from ..build import AnalysisBroken

S = 'src/x509/x509_minimal.c'
MAGIC = 23171


def c_rules(chk):
    u = build.load_unit(S)
    L = irf.Layouts(u)
    cv = build.const_values(['BR_ERR_X509_OK', 'BR_ERR_X509_NOT_TRUSTED', 'BR_ERR_X509_EMPTY_CHAIN', 'BR_X509_TA_CA', 'BR_ERR_X509_BAD_SIGNATURE'])
    OK = cv['BR_ERR_X509_OK']
    o_err = L.field('br_x509_minimal_context', 'err')[0]
    o_cpu = L.field('br_x509_minimal_context', 'cpu')[0]
    ta_flags = L.field('br_x509_trust_anchor', 'flags')[0]
    R = 'x509-signature-check'
    rsa_t = r'^i32 \(i8\*, i64, i8\*, i64, %struct\.br_rsa_public_key\*, i8\*\)'
    ec_t = r'^i32 \(%struct\.br_ec_impl\*, i8\*, i64, %struct\.br_ec_public_key\*, i8\*, i64\)'
    obs = [
        Ob(S, 'verify_signature', ICall('irsa', ftype=rsa_t), ('pin', 0), RET_NONZERO(), ('pin', 1), 'RSA signature verification failed', rule=R),
        Ob(S, 'verify_signature', Call('memcmp'), ('pin', 1), RET_NONZERO(), ('pin', 0), 'recovered hash differs from the TBS hash', rule=R),
        Ob(S, 'verify_signature', Call('memcmp'), ('pin', -1), RET_NONZERO(), None, 'recovered hash differs from the TBS hash', rule=R),
        Ob(S, 'verify_signature', ICall('iecdsa', ftype=ec_t), ('pin', 0), RET_NONZERO(), ('pin', 1), 'ECDSA signature verification failed', rule=R),
    ]
    names = ['BR_ERR_X509_WRONG_KEY_TYPE', 'BR_ERR_X509_UNSUPPORTED', 'BR_ERR_X509_BAD_SIGNATURE']
    codes = build.const_values(names)
    obs.append(Ob(S, 'verify_signature', Var('pk', 'param'), ('assume', 'ne', 'null'), RET({0} | set(codes.values())), None,
                  'the verdict is 0 or one of the three documented error codes (never BR_ERR_X509_OK)', rule=R))
    R = 'x509-trust-anchor-match'
    obs += [
        Ob(S, 'check_single_trust_anchor_CA', FieldLoad(2, ta_flags, 'ta->flags'), ('pin', 0), RET(0), None,
           'an anchor without the CA flag must not be accepted as an issuer', rule=R),
        Ob(S, 'check_single_trust_anchor_CA', Call('memcmp'), ('pin', 1), RET(0), ('pin', 0), 'issuer DN hash differs from the anchor DN', rule=R),
        Ob(S, 'check_single_trust_anchor_CA', Call('memcmp'), ('pin', -1), RET(0), None, 'issuer DN hash differs from the anchor DN', rule=R),
        Ob(S, 'check_single_trust_anchor_CA', Call('verify_signature'), ('pin', cv['BR_ERR_X509_BAD_SIGNATURE']), RET(0), ('pin', 0),
           'signature by the anchor key does not verify', rule=R, noinline=('verify_signature',)),
        Ob(S, 'check_single_direct_trust', FieldLoad(2, ta_flags, 'ta->flags'), ('pin', cv['BR_X509_TA_CA']), RET(0), None,
           'a CA anchor is not a directly trusted end-entity key', rule=R),
        Ob(S, 'check_single_direct_trust', Call('memcmp'), ('pin', 1), RET(0), ('pin', 0), 'subject DN hash / EC point differs from the anchor', rule=R, min_sites=2),
        Ob(S, 'check_single_direct_trust', Call('memcmp'), ('pin', -1), RET(0), None, 'subject DN hash / EC point differs from the anchor', rule=R, min_sites=2),
        Ob(S, 'check_single_direct_trust', Call('eqbigint'), ('pin', 0), RET(0), None, 'RSA key differs from the anchor key', rule=R, min_sites=2),
    ]
    # acceptance is only ever recorded under a positive helper verdict: static and dynamic anchor paths alike
    R = 'x509-ok-only-after-anchor-match'
    no_ok = E(fold.expect_no_const_store_to, 'no store of the constant BR_ERR_X509_OK to err', 0, o_err - o_cpu, OK)
    obs += [
        Ob(S, 'br_x509_minimal_run', Call('check_single_trust_anchor_CA'), ('pin', 0), no_ok, None,
           'validation may only succeed when a helper matched an anchor (static loop and dynamic callback)', rule=R,
           min_sites=2, together=True, noinline=('check_single_trust_anchor_CA', 'check_single_direct_trust'),
           extra_hyps=[(Call('check_single_direct_trust', nth=0), ('pin', 0)), (Call('check_single_direct_trust', nth=1), ('pin', 0))]),
    ]
    R = 'x509-verdict-api'
    obs += [
        Ob(S, 'xm_end_chain', FieldLoad(0, o_err, 'err', nth=0), ('pin', 0),
           E(fold.expect_stores_only, 'err := NOT_TRUSTED or EMPTY_CHAIN', 0, o_err, {cv['BR_ERR_X509_NOT_TRUSTED'], cv['BR_ERR_X509_EMPTY_CHAIN']}), None,
           'no verdict reached: NOT_TRUSTED / EMPTY_CHAIN', rule=R),
        Ob(S, 'xm_end_chain', FieldLoad(0, o_err, 'err'), ('pin', 33), RET_NONZERO(), None, 'a recorded error is reported', rule=R),
        Ob(S, 'xm_get_pkey', FieldLoad(0, o_err, 'err'), ('pin', 33), RET(0), None, 'no key is released from a rejected chain', rule=R),
        Ob(S, 'xm_append', FieldLoad(0, o_err, 'err'), ('pin', 33), NOCALL('br_x509_minimal_run'), None, 'a failed validation stays failed', rule=R),
        Ob(S, 'xm_start_cert', FieldLoad(0, o_err, 'err'), ('pin', 33), E(fold.expect_no_store_to, 'no store to err', 0, o_err), None, 'first error wins', rule=R),
    ]
    oblig.run_obligations(chk, obs)
    # control: err == OK gives 0
    oblig.run_obligations(chk, [Ob(S, 'xm_end_chain', FieldLoad(0, o_err, 'err'), ('pin', OK), RET(0), None, 'accepted chain', rule=R)])
    # the dynamic branch releases the anchor it obtained (both natives)
    R = 'x509-dynamic-anchor-freed'
    U = irf.Units({'u': u})
    F = U.func('br_x509_minimal_run')
    o_dyn = L.field('br_x509_minimal_context', 'trust_anchor_dynamic')[0] - o_cpu
    o_free = L.field('br_x509_minimal_context', 'trust_anchor_dynamic_free')[0] - o_cpu
    dyn = [c for c in F.calls() if c.get('callee') is None and _loaded_from(F, c, o_dyn)]
    fre = [c for c in F.calls() if c.get('callee') is None and _loaded_from(F, c, o_free)]
    inst = 'each dynamic anchor lookup is followed by its release on the non-NULL path'
    if len(dyn) == 2 and len(fre) == 2 and all(any(F.dominates(d['id'], f_['id']) for d in dyn) for f_ in fre):
        chk.ok(R, inst, F.where(dyn[0]), '%d lookups, %d releases' % (len(dyn), len(fre)))
    else:
        chk.violation(R, inst, F.where(), '%d lookups, %d releases' % (len(dyn), len(fre)), key='%s count' % R)


def comparison_operands(chk):
    """"the leaf's name and key equal the anchor's": every comparison in the two anchor helpers sets a field of the certificate being
    validated (ctx) against the *same* field of the anchor (ta); lengths belong to the pointers they bound; the DN hash handed to a
    helper is the hash of that anchor's DN.  Operands are traced through the IR to (parameter, constant offset)."""
    R = 'x509-anchor-comparison-operands'
    u = build.load_unit(S)
    L = irf.Layouts(u)
    U = irf.Units({'u': u})
    o_pk_ctx = L.field('br_x509_minimal_context', 'pkey')[0]
    o_pk_ta = L.field('br_x509_trust_anchor', 'pkey')[0]
    pk_fields = L.flat_fields('br_x509_pkey')
    dn = {'check_single_direct_trust': 'current_dn_hash', 'check_single_trust_anchor_CA': 'saved_dn_hash'}
    n = 0

    def trace(F, o, depth=0):
        """-> ('load'|'addr', param index, offset) or None"""
        o = F.strip_casts(o)
        if o['k'] == 'a':
            return ('addr', o['v'], 0)
        if o['k'] != 'i' or depth > 6:
            return None
        i = F.insts[o['v']]
        if i['op'] in ('zext', 'sext', 'trunc'):
            return trace(F, i['ops'][0], depth + 1)
        if i['op'] == 'and' and any(x['k'] == 'c' for x in i['ops']):
            return trace(F, next(x for x in i['ops'] if x['k'] != 'c'), depth + 1)
        if i['op'] == 'load':
            b, off = F.addr_of(i['ops'][0])
            if b['k'] == 'a' and off is not None:
                return ('load', b['v'], off)
            return None
        if i['op'] == 'getelementptr':
            b, off = F.addr_of(o)
            if b['k'] == 'a' and off is not None:
                return ('addr', b['v'], off)
        return None

    def pkname(rel, size=None):
        return sorted(nm for o, sz, nm, m in pk_fields if o == rel and nm.startswith('key.') or (o == rel and not nm.startswith('key.')))

    def rel(t):
        """offset of a traced operand relative to the pkey member of its object; None if it is not inside pkey"""
        if t is None or t[0] != 'load':
            return None
        if t[1] == 0:
            return t[2] - o_pk_ctx
        if t[1] == 2:
            return t[2] - o_pk_ta
        return None

    def bad(F, fn, i, what, det):
        chk.violation(R, '%s: %s' % (fn, what), F.where(i), det + ' -- a leaf (or issuer) that differs from the anchor in that field would be accepted', key='%s %s %s' % (R, fn, what))

    for fn in ('check_single_direct_trust', 'check_single_trust_anchor_CA'):
        F = U.func(fn)
        if F is None:
            raise AnalysisBroken('%s vanished' % fn)
        # ---- eqbigint(a, alen, b, blen) / memcmp_P(a, b, len) over key material
        for c in F.calls():
            cal = c.get('callee')
            if cal == 'eqbigint':
                ta_, tal, tb, tbl = (trace(F, x) for x in c['ops'][:4])
                ra, ral, rb, rbl = rel(ta_), rel(tal), rel(tb), rel(tbl)
                names = pkname(ra) if ra is not None else []
                what = 'eqbigint over pkey%+d %s' % (ra if ra is not None else -1, '/'.join(names))
                n += 1
                if None in (ra, ral, rb, rbl):
                    bad(F, fn, c, what, 'an operand is not a field of ctx->pkey / ta->pkey: %s' % ((ta_, tal, tb, tbl),))
                elif {ta_[1], tb[1]} != {0, 2} or tal[1] != ta_[1] or tbl[1] != tb[1]:
                    bad(F, fn, c, what, 'the two sides are not (certificate, anchor): value/length operands come from parameters %s' % ([ta_[1], tal[1], tb[1], tbl[1]],))
                elif ra != rb or ral != rbl:
                    bad(F, fn, c, what, 'different fields are compared: offsets in br_x509_pkey %s' % ([ra, ral, rb, rbl],))
                elif not any(a + 'len' in pkname(ral) for a in names):
                    bad(F, fn, c, what, 'the length operand is not the length of the compared integer (%s vs %s)' % (names, pkname(ral)))
                else:
                    chk.ok(R, '%s: %s' % (fn, what), F.where(c), 'ctx and ta, same field, own lengths')
            elif cal in ('memcmp', 'memcmp_P'):
                t0_, t1, tl = (trace(F, x) for x in c['ops'][:3])
                if t0_ is not None and t1 is not None and t0_[0] == 'load' and t1[0] == 'load':
                    ra, rb, rl = rel(t0_), rel(t1), rel(tl)
                    names = pkname(ra) if ra is not None else []
                    what = '%s over pkey%+d %s' % (cal, ra if ra is not None else -1, '/'.join(names))
                    n += 1
                    if None in (ra, rb, rl):
                        bad(F, fn, c, what, 'an operand is not a field of ctx->pkey / ta->pkey')
                    elif {t0_[1], t1[1]} != {0, 2}:
                        bad(F, fn, c, what, 'both operands come from the same object (parameters %s)' % ([t0_[1], t1[1]],))
                    elif ra != rb:
                        bad(F, fn, c, what, 'different fields are compared: offsets %s' % ([ra, rb],))
                    elif not any(a + 'len' in pkname(rl) for a in names):
                        bad(F, fn, c, what, 'the length is not the length of the compared field (%s vs %s)' % (names, pkname(rl)))
                    else:
                        # the length must also have been compared for equality (else a prefix would match)
                        eqlen = any(i['op'] == 'icmp' and i['pred'] in ('eq', 'ne') and {rel(trace(F, i['ops'][0])), rel(trace(F, i['ops'][1]))} == {rl}
                                    and {(trace(F, i['ops'][0]) or (0, -1))[1], (trace(F, i['ops'][1]) or (0, -1))[1]} == {0, 2} for i in F.insts.values())
                        if eqlen:
                            chk.ok(R, '%s: %s' % (fn, what), F.where(c), 'ctx and ta, same field, length compared for equality')
                        else:
                            bad(F, fn, c, what, 'the two lengths are never compared for equality: a prefix of the anchor key would match')
                else:
                    # DN hash comparison: memcmp(hashed_DN, ctx-><dn field>, dnhash_len)
                    what = 'memcmp(hashed_DN, ctx->%s)' % dn[fn]
                    n += 1
                    o_dn = L.field('br_x509_minimal_context', dn[fn])[0]
                    sides = {t0_, t1}
                    if ('addr', 1, 0) in sides and ('addr', 0, o_dn) in sides:
                        chk.ok(R, '%s: %s' % (fn, what), F.where(c))
                    else:
                        bad(F, fn, c, what, 'operands are %s; the anchor DN hash must be compared with ctx->%s (%s)' %
                            ((t0_, t1), dn[fn], 'subject of the leaf' if 'current' in dn[fn] else 'issuer of the last certificate'))
        # ---- scalar comparisons between a ctx field and a ta field: same field of pkey
        for i in F.insts.values():
            if i['op'] != 'icmp':
                continue
            a, b = trace(F, i['ops'][0]), trace(F, i['ops'][1])
            if a is None or b is None or a[0] != 'load' or b[0] != 'load' or {a[1], b[1]} != {0, 2}:
                continue
            ra, rb = rel(a), rel(b)
            what = 'icmp over pkey%+d %s' % (ra, '/'.join(pkname(ra)))
            n += 1
            if ra == rb:
                chk.ok(R, '%s: %s' % (fn, what), F.where(i))
            else:
                bad(F, fn, i, what, 'fields at different offsets of br_x509_pkey are compared (%s vs %s)' % (pkname(ra), pkname(rb)))
    # ---- the DN hash handed to a helper is the hash of that very anchor's DN
    F = U.func('br_x509_minimal_run')
    o_dnd = L.field('br_x509_trust_anchor', 'dn.data')[0]
    o_dnl = L.field('br_x509_trust_anchor', 'dn.len')[0]
    hd = F.calls('hash_dn')
    for fn in ('check_single_direct_trust', 'check_single_trust_anchor_CA'):
        if len(F.calls(fn)) != 2:
            chk.violation(R, 'br_x509_minimal_run: %s is consulted for static and for dynamic trust anchors' % fn, F.where(),
                          '%d call site(s) instead of 2: one kind of anchor is accepted without the name / key / signature comparison' % len(F.calls(fn)),
                          key='%s run %s count' % (R, fn))
        for c in F.calls(fn):
            n += 1
            buf, ta = F.strip_casts(c['ops'][1]), F.strip_casts(c['ops'][2])
            inst = 'br_x509_minimal_run: %s at line %s gets hash_dn(ta->dn) of the same anchor' % (fn, c.get('line'))
            okk = False

            def rel_to(o, root):
                """constant offset of address o relative to the SSA value root, or None"""
                off = 0
                for _ in range(8):
                    o = F.strip_casts(o)
                    if o == root:
                        return off
                    if o['k'] != 'i':
                        return None
                    g = F.insts[o['v']]
                    if g['op'] != 'getelementptr' or g.get('off') is None or g.get('var'):
                        return None
                    off += g['off']
                    o = g['ops'][0]
                return None

            def field_of_ta(o, want):
                o = F.strip_casts(o)
                if o['k'] != 'i' or F.insts[o['v']]['op'] != 'load':
                    return False
                return rel_to(F.insts[o['v']]['ops'][0], ta) == want
            for h in hd + [x for x in F.calls() if (x.get('callee') or '').startswith(('memcpy', 'llvm.memcpy'))]:
                if not F.dominates(h['id'], c['id']):
                    continue
                if h['callee'] == 'hash_dn':
                    out, data, ln = h['ops'][3], h['ops'][1], h['ops'][2]
                else:       # dynamic anchors carry the DN already hashed: memcpy(hashed_DN, ta->dn.data, DNHASH_LEN)
                    out, data, ln = h['ops'][0], h['ops'][1], None
                if F.addr_of(out)[0] != F.addr_of(c['ops'][1])[0]:
                    continue
                if field_of_ta(data, o_dnd) and (ln is None or field_of_ta(ln, o_dnl)):
                    okk = True
            if okk:
                chk.ok(R, inst, F.where(c))
            else:
                chk.violation(R, inst, F.where(c), 'no dominating hash_dn(ctx, ta->dn.data, ta->dn.len, buf) / memcpy(buf, ta->dn.data, ..) filling the buffer passed from the anchor passed', key='%s run %s %s' % (R, fn, len(chk.obls)))
    chk.floor('anchor comparisons traced', n, 8)


def _loaded_from(F, c, off):
    cvv = F.strip_casts(c['cv'])
    if cvv['k'] != 'i' or F.insts[cvv['v']]['op'] != 'load':
        return False
    b, o = F.addr_of(F.insts[cvv['v']]['ops'][0])
    return b == {'k': 'a', 'v': 0} and o == off


def t0_rules(chk):
    P = t0.Program('x509_minimal')
    cv = build.const_values(['BR_ERR_X509_EXPIRED', 'BR_ERR_X509_DN_MISMATCH', 'BR_ERR_X509_NOT_CA', 'BR_ERR_X509_CRITICAL_EXTENSION',
                             'BR_ERR_X509_FORBIDDEN_KEY_USAGE', 'BR_ERR_X509_BAD_SERVER_NAME', 'BR_ERR_X509_UNSUPPORTED'])
    R = 'x509-check-result-fails'

    vrfy_sites = set()

    def pinned(pins, want_code, label):
        I = t0ai.Interp(P, pins=pins)
        I.magic = MAGIC
        I.run_entry()
        fe = [e for e in I.events if e.name == 'fail' and e.args[0].isconst() and e.args[0].c == want_code]
        if want_code == MAGIC:
            vrfy_sites.update((e.word, e.pc) for e in fe)
        inst = 'x509_minimal: %s => fail(%s)' % (label, want_code if want_code != MAGIC else 'the reported error')
        if not fe:
            chk.violation(R, inst, P.src, 'no fail with that code is reachable under the hypothesis', key='%s %s' % (R, label))
            return
        bad = []
        for e in fe:
            g = t0rules.guard_before(P, e.word, e.pc)
            outs = (I.branches_magic if want_code == MAGIC else I.branches).get((e.word, g.pc)) if g else None
            if g is None or len(outs or ()) != 1:
                bad.append('W%d@%d guard outcomes %s' % (e.word, e.pc, outs))
        # at least one guarded site must be one-sided under the pin (the site consuming the pinned result)
        if len(bad) < len(fe):
            chk.ok(R, inst, P.src, '%d site(s), %d forced' % (len(fe), len(fe) - len(bad)))
        else:
            chk.violation(R, inst, P.src, '; '.join(bad), key='%s %s' % (R, label))
    pinned({'do-rsa-vrfy': MAGIC, 'do-ecdsa-vrfy': MAGIC}, MAGIC, 'signature verification by the issuer key failed')
    pinned({'check-validity-range': 1}, cv['BR_ERR_X509_EXPIRED'], 'validity range excludes the validation time')
    pinned({'check-validity-range': -1}, cv['BR_ERR_X509_EXPIRED'], 'certificate not yet valid')
    pinned({'eqblob': 0}, cv['BR_ERR_X509_DN_MISMATCH'], 'issuer DN differs from the previous subject DN')
    # negative controls: with the natives reporting success those failures are not forced
    I = t0ai.Interp(P, pins={'check-validity-range': 0, 'eqblob': -1, 'do-rsa-vrfy': 0, 'do-ecdsa-vrfy': 0}).run_entry()
    for code in ('BR_ERR_X509_EXPIRED', 'BR_ERR_X509_DN_MISMATCH'):
        fe = [e for e in I.events if e.name == 'fail' and e.args[0].isconst() and e.args[0].c == cv[code]]
        for e in fe:
            g = t0rules.guard_before(P, e.word, e.pc)
            outs = I.branches.get((e.word, g.pc)) if g else None
            if g is not None and outs == {'fall'}:
                raise AnalysisBroken('x509_minimal: negative control: fail(%s) is forced even when the check succeeds' % code)
    # all documented rejection codes are reachable failure sites (a dropped check makes its code disappear)
    I0 = t0ai.Interp(P).run_entry()
    codes = set(e.args[0].c for e in I0.events if e.name == 'fail' and e.args[0].isconst())
    for name, c in sorted(cv.items()):
        inst = 'x509_minimal: a failure site for %s exists' % name
        if c in codes:
            chk.ok('x509-rejection-sites', inst, P.src)
        else:
            chk.violation('x509-rejection-sites', inst, P.src, 'no reachable fail(%d)' % c, key='x509-rejection-sites %s' % name)
    ok_code = build.const_values(['BR_ERR_X509_OK'])['BR_ERR_X509_OK']
    # the site that forwards the verdict of verify_signature() is judged by the C obligation 'verify_signature returns only ...'
    bad_ok = [e for e in I0.events if e.name == 'fail' and e.st.rng(e.args[0])[0] <= ok_code <= e.st.rng(e.args[0])[1]
              and not (e.args[0].isconst() and e.args[0].c != ok_code) and (e.word, e.pc) not in vrfy_sites]
    inst = 'x509_minimal: no T0 failure site can report BR_ERR_X509_OK (%d)' % ok_code
    if bad_ok:
        chk.violation('x509-rejection-sites', inst, P.src, 'W%d@%d fail(%s) range %s' % (bad_ok[0].word, bad_ok[0].pc, bad_ok[0].args[0], bad_ok[0].st.rng(bad_ok[0].args[0])),
                      key='x509-rejection-sites fail-ok')
    else:
        chk.ok('x509-rejection-sites', inst, P.src)
    # every fail carries a non-zero code (err == 0 means "still running")
    for e in I0.events:
        if e.name == 'fail' and t0rules.possibly_zero(e):
            chk.violation('x509-rejection-sites', 'x509_minimal W%d@%d: fail code non-zero' % (e.word, e.pc), P.src, 'fail(0) possible', key='x509 fail0 W%d' % e.word)


def key_usage_masks(chk):
    """RFC 5280 4.2.1.3 (bit 0 is the most significant bit of the first content byte): a CA certificate must assert keyCertSign
    (bit 5 -> 0x04); for the end-entity key, key exchange is allowed by keyEncipherment / dataEncipherment / keyAgreement
    (bits 2-4 -> 0x38) and signatures by digitalSignature / nonRepudiation (bits 0-1 -> 0xC0)."""
    R = 'x509-keyusage-bits'
    P = t0.Program('x509_minimal')
    cv = build.const_values(['BR_ERR_X509_FORBIDDEN_KEY_USAGE', 'BR_KEYTYPE_KEYX', 'BR_KEYTYPE_SIGN'])
    I = t0ai.Interp(P).run_entry()
    o_ku = P.layouts.field(P.ctxname, 'key_usages')[0]
    ws = set(e.word for e in I.events if e.name == 'fail' and e.args[0].isconst() and e.args[0].c == cv['BR_ERR_X509_FORBIDDEN_KEY_USAGE'])
    ws &= set(e.word for e in I.events if e.name == 'set8' and e.args[-1].isconst() and e.args[-1].c == o_ku)
    if len(ws) != 1:
        raise AnalysisBroken('x509_minimal: the keyUsage word was not identified (%s)' % sorted(ws))
    W = P.words[next(iter(ws))]
    seq = list(W.ins.values())
    ee, ca = {}, []
    for k in range(len(seq) - 2):
        a, b, c = seq[k], seq[k + 1], seq[k + 2]
        if a.kind == 'const' and b.kind == 'native' and b.name == 'and' and c.kind in ('jumpif', 'jumpifnot'):
            nxt = seq[k + 3:k + 5]
            if c.kind == 'jumpifnot' and len(nxt) == 2 and nxt[0].kind == 'const' and nxt[1].kind == 'native' and nxt[1].name == 'or':
                ee[nxt[0].arg] = a.arg
            else:
                # the test that guards the failure: the fail must follow on the not-taken side
                tail = seq[k + 3:k + 6]
                if any(x.kind == 'native' and x.name == 'fail' for x in tail):
                    ca.append(a.arg)
    for usage, name, want in ((cv['BR_KEYTYPE_KEYX'], 'key exchange', 0x38), (cv['BR_KEYTYPE_SIGN'], 'signature', 0xC0)):
        inst = 'x509_minimal: end-entity %s usage is granted by KeyUsage bits 0x%02X' % (name, want)
        if ee.get(usage) == want:
            chk.ok(R, inst, P.src)
        else:
            chk.violation(R, inst, P.src, 'the bytecode tests mask %s' % (hex(ee[usage]) if usage in ee else 'none'), key='%s ee %d' % (R, usage))
    inst = 'x509_minimal: a CA certificate with a KeyUsage extension must assert keyCertSign (0x04)'
    if ca == [0x04]:
        chk.ok(R, inst, P.src)
    else:
        chk.violation(R, inst, P.src, 'the bytecode tests mask(s) %s before fail(BR_ERR_X509_FORBIDDEN_KEY_USAGE): an intermediate without keyCertSign is accepted '
                      '(and a proper one may be refused)' % [hex(x) for x in ca], key='%s ca' % R)


def name_compare_vectors(chk):
    """Host names are compared case-insensitively over ASCII letters only (RFC 5280 7.2, RFC 4343): two bytes match iff they are
    equal or are the two cases of one letter.  Decided by partial evaluation of eqnocase() at the boundary values of the letter ranges
    ('@' / '`', 'A' / 'a', 'Z' / 'z', '[' / '{') and at non-letters that differ only in bit 5 ('.' / 0x0E, '-' / 0x0D, '1' / 0x11, '_' / 0x7F)."""
    R = 'x509-name-compare'
    U = oblig.funit(S)
    fn = 'eqnocase'
    if fn not in U.funcs:
        raise AnalysisBroken('eqnocase vanished')
    F = U.func(fn)
    loads = sorted([i for i in F.insts.values() if i['op'] == 'load' and i['ty'] == 'i8'], key=lambda i: F.order[i['id']])
    if len(loads) != 2:
        raise AnalysisBroken('eqnocase: expected two byte loads, found %d' % len(loads))
    plen = F.f['params'][2]
    vec = [(0x41, 0x61, 1), (0x5A, 0x7A, 1), (0x61, 0x41, 1), (0x6D, 0x6D, 1), (0x2E, 0x2E, 1), (0x40, 0x60, 0), (0x5B, 0x7B, 0), (0x60, 0x40, 0), (0x7B, 0x5B, 0),
           (0x2E, 0x0E, 0), (0x2D, 0x0D, 0), (0x31, 0x11, 0), (0x5F, 0x7F, 0), (0x61, 0x62, 0), (0x41, 0x42, 0), (0x00, 0x20, 0)]
    n = 0
    for a, b, want in vec:
        hy = [dict(kind='pin', n=loads[0]['n'], value=a), dict(kind='pin', n=loads[1]['n'], value=b),
              dict(kind='assume', n=plen['n'], ty=plen['ty'], pred='eq', value=1, param=True)]
        Fo = U.optimise(fn, hy, ())
        okk, det = fold.expect_ret_const(Fo, want)
        n += 1
        inst = 'eqnocase: 0x%02X vs 0x%02X %s' % (a, b, 'match' if want else 'do not match')
        if okk:
            chk.ok(R, inst, S)
        else:
            chk.violation(R, inst, S, 'partial evaluation gives %s: the server name / wildcard comparison accepts or refuses a name it should not' % det, key='%s %02X %02X' % (R, a, b))
    chk.floor('name comparison vectors', n, 16)


def calendar_table(chk):
    """Validity dates are turned into a day count with a month table (proleptic Gregorian calendar): for month m of a normal / leap
    year the 16-bit entry is (days before the month << 5) | days in the month.  The reference table is generated from the calendar,
    and must be the 48 bytes at the address the date reader (the word applying data-get16) indexes."""
    R = 'x509-calendar-table'
    ref = []
    for leap in (0, 1):
        cum = 0
        for dim in (31, 28 + leap, 31, 30, 31, 30, 31, 31, 30, 31, 30, 31):
            v = (cum << 5) | dim
            ref += [v >> 8, v & 0xFF]
            cum += dim
    n = 0
    for key in ('x509_minimal', 'x509_decoder'):
        P = t0.Program(key)
        # data-get16 is itself an interpreted word: two data-get8 combined big-endian
        g16 = [w for w in P.words_calling_native('data-get8')
               if sum(1 for i in P.words[w].ins.values() if i.kind == 'native' and i.name == 'data-get8') == 2
               and any(i.kind == 'const' and i.arg == 8 for i in P.words[w].ins.values())]
        ws = sorted(set(c for g in g16 for c in P.words_calling_word(g)))
        if not ws:
            raise AnalysisBroken('%s: no word uses data-get16 (date reader vanished)' % key)
        for w in ws:
            cands = set()
            for i in P.words[w].ins.values():
                if i.kind == 'const':
                    cands.add(i.arg)
                elif i.kind == 'call':
                    v = P.const_word_value(i.arg)
                    if v is not None:
                        cands.add(v)
            cands = sorted(a for a in cands if 0 <= a and a + 48 <= len(P.data))
            n += 1
            inst = '%s W%d (date reader): the month table it indexes is the Gregorian one (normal and leap year)' % (key, w)
            hit = [a for a in cands if P.data[a:a + 48] == ref]
            if hit:
                chk.ok(R, inst, P.src, 'data block offset %d' % hit[0])
            else:
                best = None
                for a in cands:
                    d = [k // 2 for k in range(0, 48, 2) if P.data[a + k:a + k + 2] != ref[k:k + 2]]
                    if best is None or len(d) < len(best[1]):
                        best = (a, d)
                det = 'no data-block address used by the word holds the reference table'
                if best and len(best[1]) <= 6:
                    mn = ['%s of a %s year' % (('Jan Feb Mar Apr May Jun Jul Aug Sep Oct Nov Dec').split()[k % 12], 'leap' if k >= 12 else 'normal') for k in best[1]]
                    det = 'table at data offset %d differs from the calendar for %s' % (best[0], ', '.join(mn))
                chk.violation(R, inst, P.src, det, key='%s %s' % (R, key))
    chk.floor('date readers', n, 2)


def utf8_tables(chk):
    """Names are compared after conversion to UTF-8 in the pad; the decoder must accept only the shortest form (RFC 3629 section 3: a
    two-byte sequence encodes U+0080..U+07FF, three bytes U+0800..U+FFFF, four bytes U+10000..U+10FFFF) - an overlong sequence that
    is accepted lets a certificate carry a name whose bytes differ from the host name it then matches - and the encoder must emit
    that same table.  Rows are read from the bytecode of the two words: for the decoder (lead-byte bound, payload mask, number of
    continuation bytes, lowest and highest code point), for the encoder (code-point bound, lead shift, lead marker, continuation
    shifts); both compared with the table generated from the RFC's definition."""
    R = 'utf8-tables'
    P = t0.Program('x509_minimal')
    marks = {0xC0, 0xE0, 0xF0, 0xF8, 0x7FF, 0xFFFF, 0x10FFFF, 0x800, 0x10000}
    dec = enc = None
    for wid, w in P.words.items():
        ins = list(w.ins.values())
        cs = set(i.arg for i in ins if i.kind == 'const')
        if len(cs & marks) >= 3:
            if any(i.kind == 'native' and i.name == '>>' for i in ins):
                enc = w
            elif any(i.kind == 'native' and i.name == 'and' for i in ins):
                dec = w
    if dec is None or enc is None:
        raise AnalysisBroken('x509_minimal: UTF-8 decoder / encoder words not found')

    def name(i):
        return i.name if i.kind == 'native' else i.kind
    # --- decoder rows
    ins = list(dec.ins.values())
    rows, plain = [], []
    for k, i in enumerate(ins):
        if i.kind == 'const' and k + 2 < len(ins) and name(ins[k + 1]) == '<' and ins[k + 2].kind == 'jumpifnot':
            body = []
            for j in ins[k + 3:]:
                if j.kind in ('jump', 'ret'):
                    body.append(j)
                    break
                body.append(j)
            consts = [j.arg for j in body if j.kind == 'const']
            calls = [j for j in body if j.kind == 'call']
            if calls and any(name(j) == 'and' for j in body) and len(consts) == 4:
                rows.append((i.arg, consts[0], consts[1], consts[2], consts[3], i))
            else:
                plain.append((i.arg, [name(j) for j in body], consts, i))
    ref = [(0xE0, 0x1F, 1, 0x80, 0x7FF), (0xF0, 0x0F, 2, 0x800, 0xFFFF), (0xF8, 0x07, 3, 0x10000, 0x10FFFF)]
    inst = 'read-UTF8 (x509_minimal): multi-byte rows (lead bound, mask, continuation bytes, lowest, highest code point) are RFC 3629\'s'
    got = [r[:5] for r in rows]
    if got == ref:
        chk.ok(R, inst, 'src/x509/asn1.t0')
    else:
        chk.violation(R, inst, 'src/x509/x509_minimal.c', 'rows read from the bytecode: %s; expected %s: %s' % (
            [tuple(hex(x) for x in r) for r in got], [tuple(hex(x) for x in r) for r in ref],
            'a lowest code point below the table\'s accepts overlong (non-shortest) encodings' if len(got) == 3 and any(g[3] < r[3] for g, r in zip(got, ref))
            else 'the decoder does not implement the UTF-8 table'), key=R + ' dec rows')
    inst = 'read-UTF8 (x509_minimal): a lead byte below 0x80 is the code point itself, 0x80..0xBF as lead byte is an error'
    okp = len(plain) >= 2 and plain[0][0] == 0x80 and plain[0][1][:1] == ['ret'] and plain[1][0] == 0xC0 and plain[1][1][:3] == ['drop', 'const', 'ret'] and plain[1][2] == [0]
    if okp:
        chk.ok(R, inst, 'src/x509/asn1.t0')
    else:
        chk.violation(R, inst, 'src/x509/x509_minimal.c', 'single-byte / stray-continuation rows read from the bytecode: %s' % [(hex(a), b) for a, b, _, _ in plain[:2]], key=R + ' dec plain')
    inst = 'read-UTF8 (x509_minimal): the assembled value is range-checked against the row (lowest, highest) and replaced by 0 when outside'
    tail = [name(j) for j in ins[-6:]]
    if tail[-5:] == ['jumpif', 'drop', 'const', 'ret'][-5:] or tail[-4:] == ['jumpif', 'drop', 'const', 'ret']:
        chk.ok(R, inst, 'src/x509/asn1.t0')
    else:
        chk.violation(R, inst, 'src/x509/x509_minimal.c', 'the word does not end with `between? ifnot drop 0 then` (%s)' % tail, key=R + ' dec tail')
    # --- encoder rows: bound, lead shift, lead marker, continuation shifts
    ins = list(enc.ins.values())
    erows = []
    cur = None
    bound = None
    for k, i in enumerate(ins):
        if i.kind == 'const' and k + 2 < len(ins) and name(ins[k + 1]) == '<' and ins[k + 2].kind == 'jumpifnot':
            bound = i.arg
        if i.kind == 'const' and k + 3 < len(ins) and name(ins[k + 1]) == '>>' and ins[k + 2].kind == 'const' and name(ins[k + 3]) == 'or':
            cur = [bound, i.arg, ins[k + 2].arg, []]
            erows.append(cur)
            bound = None
        elif cur is not None and i.kind == 'const' and k + 1 < len(ins) and ins[k + 1].kind == 'call' and k > 0 and ins[k - 1].kind == 'getlocal':
            cur[3].append(i.arg)
        if i.kind in ('jump', 'ret'):
            cur = None
    eref = [[0x800, 6, 0xC0, [0]], [0xFFFF, 12, 0xE0, [6, 0]], [None, 18, 0xF0, [12, 6, 0]]]
    inst = 'encode-UTF8 (x509_minimal): rows (code-point bound, lead shift, lead marker, continuation shifts) are RFC 3629\'s'
    norm = [[0xFFFF if r[0] == 0x10000 else r[0]] + r[1:] for r in erows]      # U+FFFF is refused before (noncharacter): both bounds select the same rows
    if norm == eref:
        chk.ok(R, inst, 'src/x509/asn1.t0')
    else:
        chk.violation(R, inst, 'src/x509/x509_minimal.c', 'rows read from the bytecode: %s; expected %s' % (erows, eref), key=R + ' enc rows')


def validity_range_orderings(chk):
    """"validity periods contain the validation time": the native check-validity-range compares (day, second) pairs and touches them only
    through comparisons, so its verdict is a function of four orderings - vd ? nbd, vs ? nbs, vd ? nad, vs ? nas - 81 cases in all.
    The branch structure of the native (in br_x509_minimal_run) is walked for each case and the constant it selects for r compared
    with the lexicographic definition: -1 iff (vd, vs) < (nbd, nbs), else +1 iff (vd, vs) > (nad, nas), else 0."""
    from ..sym import var_names
    R = 'validity-range-orderings'
    src = 'src/x509/x509_minimal.c'
    u = build.load_unit(src)
    F = next((irf.Func(u, f) for f in u['functions'] if f['name'] == 'br_x509_minimal_run' and f.get('blocks')), None)
    if F is None:
        raise AnalysisBroken('br_x509_minimal_run vanished')
    names = var_names(F)
    VARS = ('vd', 'vs', 'nbd', 'nbs', 'nad', 'nas')

    def nm(o):
        o = F.strip_casts(o)
        return names.get((o['k'], o['v'])) if o['k'] in ('i', 'a') else None
    cmps = [i for i in F.insts.values() if i['op'] == 'icmp' and nm(i['ops'][0]) in VARS and nm(i['ops'][1]) in VARS]
    if len(cmps) < 4:
        raise AnalysisBroken('check-validity-range: %d comparisons between the date variables found' % len(cmps))
    first = min(cmps, key=lambda i: F.order[i['id']])
    bmap = {b['id']: b for b in F.blocks}
    rphis = [i for i in F.insts.values() if i['op'] == 'phi' and names.get(('i', i['id'])) == 'r']
    PAIR = {('vd', 'nbd'): 0, ('vs', 'nbs'): 1, ('vd', 'nad'): 2, ('vs', 'nas'): 3}

    def truth(c, orders):
        a, b = nm(c['ops'][0]), nm(c['ops'][1])
        pred = c['pred']
        if (a, b) in PAIR:
            o = orders[PAIR[(a, b)]]
        elif (b, a) in PAIR:
            o = {'<': '>', '=': '=', '>': '<'}[orders[PAIR[(b, a)]]]
        else:
            return None
        return {'ult': o == '<', 'slt': o == '<', 'ugt': o == '>', 'sgt': o == '>', 'eq': o == '=', 'ne': o != '=',
                'ule': o != '>', 'sle': o != '>', 'uge': o != '<', 'sge': o != '<'}[pred]

    def walk(orders):
        prev, cur = None, F.block_of[first['id']]
        for _ in range(40):
            blk = bmap[cur]
            for i in blk['insts']:
                if i['op'] == 'phi' and i in rphis and prev is not None:
                    for bb, o in zip(i['inb'], i['ops']):
                        if bb == prev and o['k'] == 'c':
                            return o['v']
                    return ('?', 'r is not a constant on this path')
            t = blk['insts'][-1]
            if t['op'] != 'br':
                return ('?', 'left the comparison region')
            if len(t['ops']) == 1:
                prev, cur = cur, t['ops'][0]['v']
                continue
            c = F.insts[t['ops'][0]['v']] if t['ops'][0]['k'] == 'i' else None
            tv = truth(c, orders) if c is not None and c['op'] == 'icmp' else None
            if tv is None:
                return ('?', 'a branch that is not a comparison of the date variables')
            prev, cur = cur, (t['ops'][2]['v'] if tv else t['ops'][1]['v'])
        return ('?', 'walk did not end')
    bad = []
    n = 0
    import itertools
    for orders in itertools.product('<=>', repeat=4):
        o1, o2, o3, o4 = orders
        want = -1 if (o1 == '<' or (o1 == '=' and o2 == '<')) else 1 if (o3 == '>' or (o3 == '=' and o4 == '>')) else 0
        got = walk(orders)
        n += 1
        if got != want:
            bad.append((orders, want, got))
    inst = 'check-validity-range: the verdict is the lexicographic comparison of (day, second) with notBefore / notAfter in all 81 ordering cases'
    if bad:
        o, w, g = bad[0]
        chk.violation(R, inst, F.where(first), '%d of 81 cases differ; e.g. vd %s nbd, vs %s nbs, vd %s nad, vs %s nas: expected %d, the code yields %s - %s' % (
            len(bad), o[0], o[1], o[2], o[3], w, g, 'a certificate outside its validity period is accepted' if w != 0 and g == 0 else 'a valid certificate is rejected / misclassified'),
            key=R)
    else:
        chk.ok(R, inst, F.where(first), '81 ordering cases walked through %d comparisons' % len(cmps))


def dynamic_lookup_key_agrees(chk):
    """"Supplying anchors through the on-demand lookup callback gives the same verdicts as supplying them statically": the DN hash
    handed to trust_anchor_dynamic must be the one the anchor is then compared with by the same check_single_* helper the static
    loop uses - the subject hash (current_dn_hash) for direct trust, the issuer hash (saved_dn_hash) for CA anchors."""
    R = 'dynamic-lookup-key-agrees'
    src = 'src/x509/x509_minimal.c'
    u = build.load_unit(src)
    L = irf.Layouts(u)
    funcs = {f['name']: irf.Func(u, f) for f in u['functions'] if f.get('blocks')}
    F = funcs.get('br_x509_minimal_run')
    if F is None:
        raise AnalysisBroken('br_x509_minimal_run vanished')
    cpu = L.field('br_x509_minimal_context', 'cpu')[0]
    o_dyn = L.field('br_x509_minimal_context', 'trust_anchor_dynamic')[0]

    def helper_field(G):
        """offset (in the context) of the hash the helper compares its hashed_DN parameter with"""
        for c in G.calls():
            if (c.get('callee') or '').startswith('memcmp'):
                for a in c['ops'][:2]:
                    b, o = G.addr_of(a)
                    if b == {'k': 'a', 'v': 0} and o is not None:
                        return o
        return None
    sw = [b['insts'][-1] for b in F.blocks if b['insts'][-1]['op'] == 'switch']
    D = F.block_of[max(sw, key=lambda i: len(i['ops']))['id']]
    n = 0
    for c in F.calls():
        if c.get('callee') is not None or not c.get('cv'):
            continue
        cv = F.strip_casts(c['cv'])
        if cv['k'] != 'i' or F.insts[cv['v']]['op'] != 'load':
            continue
        b, o = F.addr_of(F.insts[cv['v']]['ops'][0])
        if b != {'k': 'a', 'v': 0} or o is None or o + cpu != o_dyn:
            continue
        kb, ko = F.addr_of(c['ops'][1])
        key_off = ko + cpu if kb == {'k': 'a', 'v': 0} and ko is not None else None
        # the helper called in the same native
        seen, st = {F.block_of[c['id']]}, [F.block_of[c['id']]]
        while st:
            x = st.pop()
            for y in F.succ[x]:
                if y != D and y not in seen:
                    seen.add(y)
                    st.append(y)
        hs = [h for h in F.calls() if (h.get('callee') or '').startswith('check_single_') and F.block_of[h['id']] in seen]
        n += 1
        if not hs or hs[0]['callee'] not in funcs:
            raise AnalysisBroken('dynamic lookup at line %s: no check_single_* helper in the same native' % c.get('line'))
        want = helper_field(funcs[hs[0]['callee']])
        fa = L.field_at('br_x509_minimal_context', want) if want is not None else None
        fk = L.field_at('br_x509_minimal_context', key_off) if key_off is not None else None
        inst = 'br_x509_minimal_run:%s: the on-demand lookup is keyed with the hash that %s compares (%s)' % (c.get('line'), hs[0]['callee'], fa[2] if fa else '?')
        if want is not None and key_off == want:
            chk.ok(R, inst, F.where(c))
        else:
            chk.violation(R, inst, F.where(c), 'the lookup key is %s: anchors supplied through the callback are searched under another name than the one they are '
                          'matched against, static and dynamic anchor sets give different verdicts' % (fk[2] if fk else 'not a context field'), key='%s %s' % (R, hs[0]['callee']))
    chk.floor('dynamic anchor lookups', n, 2)


def oid_table(chk):
    """The certificate engines recognise algorithms, key types, curves, name attributes and extensions by comparing DER object
    identifiers with constants of the bytecode data block.  One wrong byte there and an extension silently stops being recognised
    (basicConstraints / keyUsage then no longer constrain a non-CA certificate; an unknown critical extension is refused) or an
    algorithm is taken for another.  TAB: the length-prefixed DER encoding of every identifier the engine documents, generated from the
    arcs assigned in RFC 5280 / 3279 / 5480 / 5758 / 4055, must be present in the data block and its address must be used by the
    code."""
    R = 'x509-oid-table'
    COMMON = {
        'rsaEncryption': [1, 2, 840, 113549, 1, 1, 1], 'sha1WithRSAEncryption': [1, 2, 840, 113549, 1, 1, 5],
        'sha224WithRSAEncryption': [1, 2, 840, 113549, 1, 1, 14], 'sha256WithRSAEncryption': [1, 2, 840, 113549, 1, 1, 11],
        'sha384WithRSAEncryption': [1, 2, 840, 113549, 1, 1, 12], 'sha512WithRSAEncryption': [1, 2, 840, 113549, 1, 1, 13],
        'id-ecPublicKey': [1, 2, 840, 10045, 2, 1], 'ansix9p256r1': [1, 2, 840, 10045, 3, 1, 7], 'ansix9p384r1': [1, 3, 132, 0, 34],
        'ansix9p521r1': [1, 3, 132, 0, 35], 'ecdsa-with-SHA1': [1, 2, 840, 10045, 4, 1], 'ecdsa-with-SHA224': [1, 2, 840, 10045, 4, 3, 1],
        'ecdsa-with-SHA256': [1, 2, 840, 10045, 4, 3, 2], 'ecdsa-with-SHA384': [1, 2, 840, 10045, 4, 3, 3], 'ecdsa-with-SHA512': [1, 2, 840, 10045, 4, 3, 4],
    }
    MIN = dict(COMMON)
    MIN.update({'id-at-commonName': [2, 5, 4, 3], 'basicConstraints': [2, 5, 29, 19], 'keyUsage': [2, 5, 29, 15], 'subjectAltName': [2, 5, 29, 17],
                'certificatePolicies': [2, 5, 29, 32], 'id-qt-cps': [1, 3, 6, 1, 5, 5, 7, 2, 1], 'authorityKeyIdentifier': [2, 5, 29, 35],
                'subjectKeyIdentifier': [2, 5, 29, 14], 'issuerAltName': [2, 5, 29, 18], 'subjectDirectoryAttributes': [2, 5, 29, 9],
                'crlDistributionPoints': [2, 5, 29, 31], 'freshestCRL': [2, 5, 29, 46], 'authorityInfoAccess': [1, 3, 6, 1, 5, 5, 7, 1, 1],
                'subjectInfoAccess': [1, 3, 6, 1, 5, 5, 7, 1, 11]})
    DEC = {k: v for k, v in COMMON.items() if k in ('rsaEncryption', 'id-ecPublicKey', 'ansix9p256r1', 'ansix9p384r1', 'ansix9p521r1')}
    DEC.update({'basicConstraints': [2, 5, 29, 19]})
    n = 0
    for key, table in (('x509_minimal', MIN), ('x509_decoder', DEC)):
        P = t0.Program(key)
        consts = set()
        for W in P.words.values():
            for i in W.ins.values():
                if i.kind == 'const':
                    consts.add(i.arg)
        for name, arcs in sorted(table.items()):
            der = tab.oid_der(arcs)
            blob = [len(der)] + der
            pos = [k for k in range(len(P.data) - len(blob) + 1) if P.data[k:k + len(blob)] == blob]
            n += 1
            inst = '%s: OID %s (%s) is in the data block and referenced' % (key, name, '.'.join(map(str, arcs)))
            if not pos:
                chk.violation(R, inst, P.src, 'the length-prefixed DER encoding %s does not occur in the data block: the identifier is no longer recognised'
                              % ' '.join('%02X' % b for b in blob), key='%s %s %s' % (R, key, name))
            elif not any(k in consts for k in pos):
                chk.violation(R, inst, P.src, 'present at data offset %s but no instruction pushes that address' % pos, key='%s %s %s unref' % (R, key, name))
            else:
                chk.ok(R, inst, P.src)
    chk.floor('object identifiers', n, 30)


def ca_check_unavoidable(chk):
    """"Every issuer is a CA": a certificate that is not the end-entity one must carry a Basic Constraints extension marking it as CA;
    one without any extension (an X.509 v1 certificate) is not a CA.  In the certificate decoding word the test `end-entity or
    Basic Constraints seen`, whose failure reports BR_ERR_X509_NOT_CA, must lie on *every* path from the start of the certificate to
    its end - in particular not inside the branch taken only when an extensions field is present.  Path rule on the bytecode: with the
    guard removed from the graph, the end of the word is unreachable from its start."""
    R = 'x509-ca-check-unavoidable'
    P = t0.Program('x509_minimal')
    cv = build.const_values(['BR_ERR_X509_NOT_CA'])
    I = t0ai.Interp(P).run_entry()
    sites = sorted(set((e.word, e.pc) for e in I.events if e.name == 'fail' and e.args[0].isconst() and e.args[0].c == cv['BR_ERR_X509_NOT_CA']))
    big = [(w, pc) for w, pc in sites if len(P.words[w].ins) > 200]
    inst = 'x509_minimal: the "non-EE certificates must have Basic Constraints" test is on every path through the certificate decoder'
    if len(big) != 1:
        chk.violation(R, inst, P.src, '%d NOT_CA failure sites in the certificate decoding word (expected exactly 1): %s' % (len(big), sites), key='%s sites' % R)
        return
    w, pc = big[0]
    W = P.words[w]
    g = t0rules.guard_before(P, w, pc)
    if g is None:
        chk.violation(R, inst, P.src, 'W%d@%d: the failure is not guarded by a conditional jump' % (w, pc), key='%s guard' % R)
        return
    seen, st, reach_ret = set(), [W.start], False
    while st:
        q = st.pop()
        if q in seen or q == g.pc or q not in W.ins:
            continue
        seen.add(q)
        i = W.ins[q]
        if i.kind == 'ret':
            reach_ret = True
            break
        st.extend(W.succs(i))
    if not reach_ret:
        chk.ok(R, inst, P.src, 'guard at W%d@%d' % (w, g.pc))
    else:
        chk.violation(R, inst, P.src, 'the end of the certificate decoder is reachable without passing the test at W%d@%d: a certificate on that path '
                      '(e.g. one without an extensions field) is accepted as an issuing CA' % (w, g.pc), key=R)


def min_rsa_size_signed(chk):
    """br_x509_minimal_set_minrsa(ctx, bytes) stores bytes - 128 in an int16_t: a minimum below 128 bytes (1024 bits) is a negative
    number.  The bytecode reads context fields with the unsigned get16 accessor, so the threshold it compares the modulus length with
    must be brought back to 16 bits after the + 128 - otherwise a 64-byte minimum becomes a 65600-byte one and every RSA certificate
    is refused as BR_ERR_X509_WEAK_PUBLIC_KEY.  The arithmetic that follows the read of min_rsa_size is cut out as a snippet word and
    evaluated by constant propagation for stored values -64, -28, 0, 128, 384."""
    import collections
    R = 'x509-min-rsa-threshold'
    P = t0.Program('x509_minimal')
    o_f = P.layouts.field(P.ctxname, 'min_rsa_size')[0]
    sites = []
    for w, W in P.words.items():
        l = list(W.ins.values())
        for k, i in enumerate(l):
            if i.kind == 'call' and P.const_word_value(i.arg) == o_f and k + 1 < len(l) and l[k + 1].kind == 'native' and l[k + 1].name == 'get16':
                sites.append((W, k))
    if len(sites) != 1:
        raise AnalysisBroken('x509_minimal: reader of min_rsa_size not identified (%d sites)' % len(sites))
    W, k = sites[0]
    l = list(W.ins.values())
    body = []
    for i in l[k:]:
        pure = i.kind == 'const' or (i.kind == 'native' and i.name in ('get16', '+', '-', 'and', 'or', 'xor', '<<', '>>', 'neg', 'not')) or \
            (i.kind == 'call' and P.const_word_value(i.arg) is not None)
        if not pure:
            break
        body.append(i)
    BIG = 1 << 20
    for v in (-64, -28, 0, 128, 384):
        ins = collections.OrderedDict()
        for i in body:
            ins[i.pc] = i
        last = body[-1]
        ins[last.next] = t0.Ins(last.next, 'ret', None, last.next + 1)
        wid = max(P.words) + 1
        P.words[wid] = t0.Word(wid, 0, ins)
        try:
            I = t0ai.Interp(P, field_ranges={o_f: (v & 0xFFFF, v & 0xFFFF)})
            outs = I.run_word(wid, t0ai.St(), ())
        finally:
            del P.words[wid]
        vals = set(o.rng(o.stack[-1]) for o in outs or [])
        want = v + 128
        inst = 'x509_minimal: stored minimum %d (set_minrsa(%d)) gives the threshold %d bytes' % (v, want, want)
        if vals == {(want, want)}:
            chk.ok(R, inst, P.src)
        else:
            chk.violation(R, inst, P.src, 'the value compared with the modulus length is %s: the signed field is read as unsigned and not reduced to 16 bits'
                          % sorted(vals), key='%s %d' % (R, v))


def err_writers(chk):
    """C stores to err: validation success (BR_ERR_X509_OK) is written only by the two trust natives"""
    u = build.load_unit(S)
    L = irf.Layouts(u)
    cv = build.const_values(['BR_ERR_X509_OK'])
    o_err = L.field('br_x509_minimal_context', 'err')[0]
    o_cpu = L.field('br_x509_minimal_context', 'cpu')[0]
    U = irf.Units({'u': u})
    R = 'x509-ok-writers'
    n = 0
    for fn, F in U.funcs.items():
        for i in F.insts.values():
            if i['op'] != 'store':
                continue
            b, o = F.addr_of(i['ops'][1])
            if b != {'k': 'a', 'v': 0}:
                continue
            isctx = (o == o_err and fn != 'br_x509_minimal_run') or (o == o_err - o_cpu and fn == 'br_x509_minimal_run')
            if not isctx:
                continue
            v = i['ops'][0]
            if v['k'] == 'c' and v['v'] == cv['BR_ERR_X509_OK']:
                n += 1
                inst = 'store of BR_ERR_X509_OK in %s' % fn
                if fn == 'br_x509_minimal_run':
                    chk.ok(R, inst, F.where(i))
                else:
                    chk.violation(R, inst, F.where(i), 'acceptance recorded outside the validation engine', key='%s %s' % (R, fn))
    chk.floor('OK stores', n, 4)


def run(tier):
    chk = report.Check('C04', tier,
                       'Static necessary conditions of "accept only when the rules are met": verify_signature reports every failing primitive and a '
                       'hash mismatch; the trust-anchor helpers refuse non-CA anchors as issuers, CA anchors as direct trust, DN-hash and key '
                       'mismatches and bad signatures; BR_ERR_X509_OK is stored only inside the validation engine and only under a positive helper '
                       'verdict, on the static and the dynamic-anchor path alike; the verdict API reports every recorded error, releases no key from '
                       'a rejected chain and keeps the first error; in the T0 code a failed issuer-signature verification, an out-of-range validity '
                       'period and an issuer/subject DN mismatch force their documented failure codes, and every documented rejection code has a '
                       'reachable failure site. NOT decided: ASN.1 decoding, name matching, date arithmetic, pathLen arithmetic, equality with a '
                       'reference validator.',
                       trusted=['clang/opt 14', 'sa/t0.py, sa/t0ai.py'])
    c_rules(chk)
    comparison_operands(chk)
    err_writers(chk)
    t0_rules(chk)
    key_usage_masks(chk)
    name_compare_vectors(chk)
    calendar_table(chk)
    oid_table(chk)
    utf8_tables(chk)
    validity_range_orderings(chk)
    dynamic_lookup_key_agrees(chk)
    ca_check_unavoidable(chk)
    min_rsa_size_signed(chk)
    from . import c11 as _c11
    oblig.run_obligations(chk, _c11.asn1_sig_obligations())
    _c11.decode_mod_covers_source(chk)
    from . import c10 as _c10
    oblig.run_obligations(chk, _c10.signature_wrapper_obligations())
    _c10.pkcs1_v15_template(chk)      # certificate signatures: exact EMSA-PKCS1-v1_5 template
    from .c03 import hash_compare_shape
    hash_compare_shape(chk, S, 'verify_signature', 'x509-signature-hash-compare')
    chk.floor('rule instances', len(chk.obls), 35)
    from .. import lints
    lints.length_is_boolean(chk, ['src/x509/'])
    from .. import t0mandatory as _t0m
    _t0m.check(chk, ('x509_minimal', 'x509_decoder'))
    from .. import lints as _lints_ir
    _lints_ir.ignored_result_regression(chk, ['src/x509/'])
    return chk.finish()
