"""C04 — X.509 validation accepts exactly when the rules are met: static necessary conditions (DESIGN §4 C04)."""
from .. import build, report, oblig, irf, fold, t0, t0ai, t0rules, wmw
from ..oblig import Ob, Call, ICall, Var, FieldLoad, RET, RET_NONZERO, ALL, NOCALL, E
from ..build import AnalysisBroken

S = 'src/x509/x509_minimal.c'
MAGIC = 23171


def c_rules(chk):
    u = build.load_unit(S)
    L = irf.Layouts(u)
    cv = build.const_values(['BR_ERR_X509_OK', 'BR_ERR_X509_NOT_TRUSTED', 'BR_ERR_X509_EMPTY_CHAIN', 'BR_X509_TA_CA', 'BR_ERR_X509_BAD_SIGNATURE'])
    OK = cv['BR_ERR_X509_OK']
    o_err = L.field('br_x509_minimal_context', 'err')[0]
    o_cpu = L.field('br_x509_minimal_context', 'cpu')[0]
    ta_flags = L.field('br_x509_trust_anchor', 'flags')[0]
    R = 'x509-signature-check'
    rsa_t = r'^i32 \(i8\*, i64, i8\*, i64, %struct\.br_rsa_public_key\*, i8\*\)'
    ec_t = r'^i32 \(%struct\.br_ec_impl\*, i8\*, i64, %struct\.br_ec_public_key\*, i8\*, i64\)'
    obs = [
        Ob(S, 'verify_signature', ICall('irsa', ftype=rsa_t), ('pin', 0), RET_NONZERO(), ('pin', 1), 'RSA signature verification failed', rule=R),
        Ob(S, 'verify_signature', Call('memcmp'), ('pin', 1), RET_NONZERO(), ('pin', 0), 'recovered hash differs from the TBS hash', rule=R),
        Ob(S, 'verify_signature', Call('memcmp'), ('pin', -1), RET_NONZERO(), None, 'recovered hash differs from the TBS hash', rule=R),
        Ob(S, 'verify_signature', ICall('iecdsa', ftype=ec_t), ('pin', 0), RET_NONZERO(), ('pin', 1), 'ECDSA signature verification failed', rule=R),
    ]
    names = ['BR_ERR_X509_WRONG_KEY_TYPE', 'BR_ERR_X509_UNSUPPORTED', 'BR_ERR_X509_BAD_SIGNATURE']
    codes = build.const_values(names)
    obs.append(Ob(S, 'verify_signature', Var('pk', 'param'), ('assume', 'ne', 'null'), RET({0} | set(codes.values())), None,
                  'the verdict is 0 or one of the three documented error codes (never BR_ERR_X509_OK)', rule=R))
    R = 'x509-trust-anchor-match'
    obs += [
        Ob(S, 'check_single_trust_anchor_CA', FieldLoad(2, ta_flags, 'ta->flags'), ('pin', 0), RET(0), None,
           'an anchor without the CA flag must not be accepted as an issuer', rule=R),
        Ob(S, 'check_single_trust_anchor_CA', Call('memcmp'), ('pin', 1), RET(0), ('pin', 0), 'issuer DN hash differs from the anchor DN', rule=R),
        Ob(S, 'check_single_trust_anchor_CA', Call('memcmp'), ('pin', -1), RET(0), None, 'issuer DN hash differs from the anchor DN', rule=R),
        Ob(S, 'check_single_trust_anchor_CA', Call('verify_signature'), ('pin', cv['BR_ERR_X509_BAD_SIGNATURE']), RET(0), ('pin', 0),
           'signature by the anchor key does not verify', rule=R, noinline=('verify_signature',)),
        Ob(S, 'check_single_direct_trust', FieldLoad(2, ta_flags, 'ta->flags'), ('pin', cv['BR_X509_TA_CA']), RET(0), None,
           'a CA anchor is not a directly trusted end-entity key', rule=R),
        Ob(S, 'check_single_direct_trust', Call('memcmp'), ('pin', 1), RET(0), ('pin', 0), 'subject DN hash / EC point differs from the anchor', rule=R, min_sites=2),
        Ob(S, 'check_single_direct_trust', Call('memcmp'), ('pin', -1), RET(0), None, 'subject DN hash / EC point differs from the anchor', rule=R, min_sites=2),
        Ob(S, 'check_single_direct_trust', Call('eqbigint'), ('pin', 0), RET(0), None, 'RSA key differs from the anchor key', rule=R, min_sites=2),
    ]
    # acceptance is only ever recorded under a positive helper verdict: static and dynamic anchor paths alike
    R = 'x509-ok-only-after-anchor-match'
    no_ok = E(fold.expect_no_const_store_to, 'no store of the constant BR_ERR_X509_OK to err', 0, o_err - o_cpu, OK)
    obs += [
        Ob(S, 'br_x509_minimal_run', Call('check_single_trust_anchor_CA'), ('pin', 0), no_ok, None,
           'validation may only succeed when a helper matched an anchor (static loop and dynamic callback)', rule=R,
           min_sites=2, together=True, noinline=('check_single_trust_anchor_CA', 'check_single_direct_trust'),
           extra_hyps=[(Call('check_single_direct_trust', nth=0), ('pin', 0)), (Call('check_single_direct_trust', nth=1), ('pin', 0))]),
    ]
    R = 'x509-verdict-api'
    obs += [
        Ob(S, 'xm_end_chain', FieldLoad(0, o_err, 'err', nth=0), ('pin', 0),
           E(fold.expect_stores_only, 'err := NOT_TRUSTED or EMPTY_CHAIN', 0, o_err, {cv['BR_ERR_X509_NOT_TRUSTED'], cv['BR_ERR_X509_EMPTY_CHAIN']}), None,
           'no verdict reached: NOT_TRUSTED / EMPTY_CHAIN', rule=R),
        Ob(S, 'xm_end_chain', FieldLoad(0, o_err, 'err'), ('pin', 33), RET_NONZERO(), None, 'a recorded error is reported', rule=R),
        Ob(S, 'xm_get_pkey', FieldLoad(0, o_err, 'err'), ('pin', 33), RET(0), None, 'no key is released from a rejected chain', rule=R),
        Ob(S, 'xm_append', FieldLoad(0, o_err, 'err'), ('pin', 33), NOCALL('br_x509_minimal_run'), None, 'a failed validation stays failed', rule=R),
        Ob(S, 'xm_start_cert', FieldLoad(0, o_err, 'err'), ('pin', 33), E(fold.expect_no_store_to, 'no store to err', 0, o_err), None, 'first error wins', rule=R),
    ]
    oblig.run_obligations(chk, obs)
    # control: err == OK gives 0
    oblig.run_obligations(chk, [Ob(S, 'xm_end_chain', FieldLoad(0, o_err, 'err'), ('pin', OK), RET(0), None, 'accepted chain', rule=R)])
    # the dynamic branch releases the anchor it obtained (both natives)
    R = 'x509-dynamic-anchor-freed'
    U = irf.Units({'u': u})
    F = U.func('br_x509_minimal_run')
    o_dyn = L.field('br_x509_minimal_context', 'trust_anchor_dynamic')[0] - o_cpu
    o_free = L.field('br_x509_minimal_context', 'trust_anchor_dynamic_free')[0] - o_cpu
    dyn = [c for c in F.calls() if c.get('callee') is None and _loaded_from(F, c, o_dyn)]
    fre = [c for c in F.calls() if c.get('callee') is None and _loaded_from(F, c, o_free)]
    inst = 'each dynamic anchor lookup is followed by its release on the non-NULL path'
    if len(dyn) == 2 and len(fre) == 2 and all(any(F.dominates(d['id'], f_['id']) for d in dyn) for f_ in fre):
        chk.ok(R, inst, F.where(dyn[0]), '%d lookups, %d releases' % (len(dyn), len(fre)))
    else:
        chk.violation(R, inst, F.where(), '%d lookups, %d releases' % (len(dyn), len(fre)), key='%s count' % R)


def _loaded_from(F, c, off):
    cvv = F.strip_casts(c['cv'])
    if cvv['k'] != 'i' or F.insts[cvv['v']]['op'] != 'load':
        return False
    b, o = F.addr_of(F.insts[cvv['v']]['ops'][0])
    return b == {'k': 'a', 'v': 0} and o == off


def t0_rules(chk):
    P = t0.Program('x509_minimal')
    cv = build.const_values(['BR_ERR_X509_EXPIRED', 'BR_ERR_X509_DN_MISMATCH', 'BR_ERR_X509_NOT_CA', 'BR_ERR_X509_CRITICAL_EXTENSION',
                             'BR_ERR_X509_FORBIDDEN_KEY_USAGE', 'BR_ERR_X509_BAD_SERVER_NAME', 'BR_ERR_X509_UNSUPPORTED'])
    R = 'x509-check-result-fails'

    vrfy_sites = set()

    def pinned(pins, want_code, label):
        I = t0ai.Interp(P, pins=pins)
        I.magic = MAGIC
        I.run_entry()
        fe = [e for e in I.events if e.name == 'fail' and e.args[0].isconst() and e.args[0].c == want_code]
        if want_code == MAGIC:
            vrfy_sites.update((e.word, e.pc) for e in fe)
        inst = 'x509_minimal: %s => fail(%s)' % (label, want_code if want_code != MAGIC else 'the reported error')
        if not fe:
            chk.violation(R, inst, P.src, 'no fail with that code is reachable under the hypothesis', key='%s %s' % (R, label))
            return
        bad = []
        for e in fe:
            g = t0rules.guard_before(P, e.word, e.pc)
            outs = (I.branches_magic if want_code == MAGIC else I.branches).get((e.word, g.pc)) if g else None
            if g is None or len(outs or ()) != 1:
                bad.append('W%d@%d guard outcomes %s' % (e.word, e.pc, outs))
        # at least one guarded site must be one-sided under the pin (the site consuming the pinned result)
        if len(bad) < len(fe):
            chk.ok(R, inst, P.src, '%d site(s), %d forced' % (len(fe), len(fe) - len(bad)))
        else:
            chk.violation(R, inst, P.src, '; '.join(bad), key='%s %s' % (R, label))
    pinned({'do-rsa-vrfy': MAGIC, 'do-ecdsa-vrfy': MAGIC}, MAGIC, 'signature verification by the issuer key failed')
    pinned({'check-validity-range': 1}, cv['BR_ERR_X509_EXPIRED'], 'validity range excludes the validation time')
    pinned({'check-validity-range': -1}, cv['BR_ERR_X509_EXPIRED'], 'certificate not yet valid')
    pinned({'eqblob': 0}, cv['BR_ERR_X509_DN_MISMATCH'], 'issuer DN differs from the previous subject DN')
    # negative controls: with the natives reporting success those failures are not forced
    I = t0ai.Interp(P, pins={'check-validity-range': 0, 'eqblob': -1, 'do-rsa-vrfy': 0, 'do-ecdsa-vrfy': 0}).run_entry()
    for code in ('BR_ERR_X509_EXPIRED', 'BR_ERR_X509_DN_MISMATCH'):
        fe = [e for e in I.events if e.name == 'fail' and e.args[0].isconst() and e.args[0].c == cv[code]]
        for e in fe:
            g = t0rules.guard_before(P, e.word, e.pc)
            outs = I.branches.get((e.word, g.pc)) if g else None
            if g is not None and outs == {'fall'}:
                raise AnalysisBroken('x509_minimal: negative control: fail(%s) is forced even when the check succeeds' % code)
    # all documented rejection codes are reachable failure sites (a dropped check makes its code disappear)
    I0 = t0ai.Interp(P).run_entry()
    codes = set(e.args[0].c for e in I0.events if e.name == 'fail' and e.args[0].isconst())
    for name, c in sorted(cv.items()):
        inst = 'x509_minimal: a failure site for %s exists' % name
        if c in codes:
            chk.ok('x509-rejection-sites', inst, P.src)
        else:
            chk.violation('x509-rejection-sites', inst, P.src, 'no reachable fail(%d)' % c, key='x509-rejection-sites %s' % name)
    ok_code = build.const_values(['BR_ERR_X509_OK'])['BR_ERR_X509_OK']
    # the site that forwards the verdict of verify_signature() is judged by the C obligation 'verify_signature returns only ...'
    bad_ok = [e for e in I0.events if e.name == 'fail' and e.st.rng(e.args[0])[0] <= ok_code <= e.st.rng(e.args[0])[1]
              and not (e.args[0].isconst() and e.args[0].c != ok_code) and (e.word, e.pc) not in vrfy_sites]
    inst = 'x509_minimal: no T0 failure site can report BR_ERR_X509_OK (%d)' % ok_code
    if bad_ok:
        chk.violation('x509-rejection-sites', inst, P.src, 'W%d@%d fail(%s) range %s' % (bad_ok[0].word, bad_ok[0].pc, bad_ok[0].args[0], bad_ok[0].st.rng(bad_ok[0].args[0])),
                      key='x509-rejection-sites fail-ok')
    else:
        chk.ok('x509-rejection-sites', inst, P.src)
    # every fail carries a non-zero code (err == 0 means "still running")
    for e in I0.events:
        if e.name == 'fail' and t0rules.possibly_zero(e):
            chk.violation('x509-rejection-sites', 'x509_minimal W%d@%d: fail code non-zero' % (e.word, e.pc), P.src, 'fail(0) possible', key='x509 fail0 W%d' % e.word)


def err_writers(chk):
    """C stores to err: validation success (BR_ERR_X509_OK) is written only by the two trust natives"""
    u = build.load_unit(S)
    L = irf.Layouts(u)
    cv = build.const_values(['BR_ERR_X509_OK'])
    o_err = L.field('br_x509_minimal_context', 'err')[0]
    o_cpu = L.field('br_x509_minimal_context', 'cpu')[0]
    U = irf.Units({'u': u})
    R = 'x509-ok-writers'
    n = 0
    for fn, F in U.funcs.items():
        for i in F.insts.values():
            if i['op'] != 'store':
                continue
            b, o = F.addr_of(i['ops'][1])
            if b != {'k': 'a', 'v': 0}:
                continue
            isctx = (o == o_err and fn != 'br_x509_minimal_run') or (o == o_err - o_cpu and fn == 'br_x509_minimal_run')
            if not isctx:
                continue
            v = i['ops'][0]
            if v['k'] == 'c' and v['v'] == cv['BR_ERR_X509_OK']:
                n += 1
                inst = 'store of BR_ERR_X509_OK in %s' % fn
                if fn == 'br_x509_minimal_run':
                    chk.ok(R, inst, F.where(i))
                else:
                    chk.violation(R, inst, F.where(i), 'acceptance recorded outside the validation engine', key='%s %s' % (R, fn))
    chk.floor('OK stores', n, 4)


def run(tier):
    chk = report.Check('C04', tier,
                       'Static necessary conditions of "accept only when the rules are met": verify_signature reports every failing primitive and a '
                       'hash mismatch; the trust-anchor helpers refuse non-CA anchors as issuers, CA anchors as direct trust, DN-hash and key '
                       'mismatches and bad signatures; BR_ERR_X509_OK is stored only inside the validation engine and only under a positive helper '
                       'verdict, on the static and the dynamic-anchor path alike; the verdict API reports every recorded error, releases no key from '
                       'a rejected chain and keeps the first error; in the T0 code a failed issuer-signature verification, an out-of-range validity '
                       'period and an issuer/subject DN mismatch force their documented failure codes, and every documented rejection code has a '
                       'reachable failure site. NOT decided: ASN.1 decoding, name matching, date arithmetic, pathLen arithmetic, equality with a '
                       'reference validator.',
                       trusted=['clang/opt 14', 'sa/t0.py, sa/t0ai.py'])
    c_rules(chk)
    err_writers(chk)
    t0_rules(chk)
    chk.floor('rule instances', len(chk.obls), 35)
    return chk.finish()
