"""C12 — symmetric primitives: constant tables against the standards, class descriptors, sibling wiring (DESIGN §4 C12)."""
import re
from .. import build, report, tab, irf
from ..build import AnalysisBroken
from .c13 import cmp_table


def immediates(unit, fname, width=None):
    f = next((x for x in unit['functions'] if x['name'] == fname and not x['decl']), None)
    if f is None:
        raise AnalysisBroken('function %s not found' % fname)
    s = set()
    for b in f['blocks']:
        for i in b['insts']:
            for o in i['ops']:
                if o['k'] == 'c' and o['v'] is not None and (width is None or o.get('w') == width):
                    s.add(o['v'] & ((1 << o['w']) - 1))
    return s


def need_imm(chk, rule, unit, src, fname, vals, what, width=32):
    got = immediates(unit, fname, width)
    for v in vals:
        inst = '%s:%s uses 0x%X (%s)' % (src.split('/')[-1], fname, v, what)
        if v in got:
            chk.ok(rule, inst, src)
        else:
            chk.violation(rule, inst, src, 'constant 0x%X required by %s does not occur in %s' % (v, what, fname), key='%s %s %s %X' % (rule, src, fname, v))


BLOCK_FAMILIES = {
    # family: (key struct prefix, units, classes)
    'aes_big': ['cbcenc', 'cbcdec', 'ctr', 'ctrcbc'],
    'aes_small': ['cbcenc', 'cbcdec', 'ctr', 'ctrcbc'],
    'aes_ct': ['cbcenc', 'cbcdec', 'ctr', 'ctrcbc'],
    'aes_ct64': ['cbcenc', 'cbcdec', 'ctr', 'ctrcbc'],
    'aes_x86ni': ['cbcenc', 'cbcdec', 'ctr', 'ctrcbc'],
    'des_tab': ['cbcenc', 'cbcdec'],
    'des_ct': ['cbcenc', 'cbcdec'],
}


def counter_carry_chains(chk):
    """CTR / CCM / EAX counters are 128-bit big-endian integers kept in four 32-bit words and incremented with a constant-time carry
    chain: word_k += carry_k, carry_{k+1} = carry_k & iszero(word_k after the addition).  Structural rule (no variable names): whenever
    a carry is refined by "& iszero(Y)", Y must be the word that the previous carry has just been added to."""
    R = 'counter-carry-chain'
    n = 0
    n1 = [0]
    for fam in ('aes_big', 'aes_small', 'aes_ct', 'aes_ct64'):
        src = 'src/symcipher/%s_ctrcbc.c' % fam
        u = build.load_unit(src)
        U = irf.Units({'u': u})
        for fn, F in sorted(U.funcs.items()):
            def ins(o):
                return F.insts[o['v']] if o['k'] == 'i' else None

            def iszero_arg(o):
                """Y if o == lshr(xor(or(Y, 0 - Y), -1), 31), else None"""
                i = ins(o)
                if i is None or i['op'] != 'lshr' or i['ops'][1] != {'k': 'c', 'v': 31, 'w': 32}:
                    return None
                x = ins(i['ops'][0])
                if x is None or x['op'] != 'xor' or not any(q['k'] == 'c' and q['v'] in (-1, 0xFFFFFFFF) for q in x['ops']):
                    return None
                orr = ins(next(q for q in x['ops'] if q['k'] != 'c'))
                if orr is None or orr['op'] != 'or':
                    return None
                a, b = orr['ops']
                for y, ng in ((a, b), (b, a)):
                    g = ins(ng)
                    if g is not None and g['op'] == 'sub' and g['ops'][0]['k'] == 'c' and g['ops'][0]['v'] == 0 and g['ops'][1] == y:
                        return y
                return None

            def gate_arg(o):
                y = iszero_arg(o)
                if y is not None:
                    return y
                g = ins(o)
                if g is not None and g['op'] == 'sub' and g['ops'][0]['k'] == 'c' and g['ops'][0]['v'] == 0:
                    return iszero_arg(g['ops'][1])
                return None
            for i in sorted(F.insts.values(), key=lambda z: z['id']):
                if i['op'] != 'add':
                    continue
                for w, c in ((i['ops'][0], i['ops'][1]), (i['ops'][1], i['ops'][0])):
                    y = iszero_arg(c)
                    if y is None:
                        continue
                    n1[0] += 1
                    yi = ins(y)
                    inst = '%s:%s: first carry (line %s) tests the low word right after its increment' % (fam, fn, i.get('line'))
                    if yi is not None and yi['op'] == 'add' and any(q['k'] == 'c' for q in yi['ops']):
                        chk.ok(R, inst, F.where(i))
                    else:
                        chk.violation(R, inst, F.where(i), 'the first carry is not derived from the incremented low word', key='%s first %s %s %d' % (R, fam, fn, n1[0]))
            for i in sorted(F.insts.values(), key=lambda z: z['id']):
                if i['op'] != 'and':
                    continue
                a, b = i['ops']
                for prev, gate in ((a, b), (b, a)):
                    y = gate_arg(gate)
                    if y is None or prev['k'] != 'i':
                        continue
                    # the word the previous carry was added to
                    adds = [z for z in F.insts.values() if z['op'] == 'add' and prev in z['ops'] and z['id'] != i['id']]
                    if len(adds) != 1:
                        continue
                    n += 1
                    inst = '%s:%s: carry refined at line %s tests the word just incremented (line %s)' % (fam, fn, i.get('line'), adds[0].get('line'))
                    if y == {'k': 'i', 'v': adds[0]['id']}:
                        chk.ok(R, inst, F.where(i))
                    else:
                        chk.violation(R, inst, F.where(i), 'the zero test that propagates the carry looks at a different word than the one the previous carry '
                                      'was added to: the carry into the next word is wrong whenever these two words differ in being zero '
                                      '(128-bit big-endian counter of SP 800-38A B.1 / CCM / EAX)', key='%s %s %s %d' % (R, fam, fn, n))
    chk.floor('carry refinements checked', n, 16)
    chk.floor('first carries checked', n1[0], 8)


def ctr_counter_advance(chk):
    """br_block_ctr_class.run returns the counter for the next call: the initial 32-bit counter plus the number of 16-byte blocks
    processed (a caller that splits a message relies on it).  Decided by partial evaluation: with len fixed to 16, 32, 48, 64 the
    optimiser unrolls the block loop and the returned value must be cc + len/16."""
    from .. import sym, oblig, fold
    R = 'ctr-counter-advance'
    n = 0
    for fam in ('aes_big', 'aes_small', 'aes_ct', 'aes_ct64', 'aes_x86ni'):
        src = 'src/symcipher/%s_ctr.c' % fam
        fn = 'br_%s_ctr_run' % fam
        try:
            U = oblig.funit(src)
        except AnalysisBroken:
            continue
        if fn not in U.funcs:
            continue
        F = U.func(fn)
        pl = F.f['params'][4]
        pure = 0
        for K in (16, 32, 48, 64):
            hy = [dict(kind='assume', n=pl['n'], ty=pl['ty'], pred='eq', value=K, param=True)]
            Fo = U.optimise(fn, hy, ())
            S = sym.Sym(Fo)
            rv = [S.sym(v) for v in fold.ret_values(Fo)]
            want = S.aff({('var', 'cc'): 1}, K // 16)
            inst = '%s: a call over %d bytes returns cc + %d' % (fn, K, K // 16)
            if not rv or any(len(r[1]) != 1 or r[1][0][0] != ('var', 'cc') for r in rv):
                continue            # not reduced to an affine function of cc by the optimiser: not judged for this length
            pure += 1
            n += 1
            if all(r == want for r in rv):
                chk.ok(R, inst, src)
            else:
                chk.violation(R, inst, src, 'returned counter is %s: the next call of a split message would reuse or skip a keystream block'
                              % [sym.show(r) for r in rv], key='%s %s %d' % (R, fam, K))
        if pure < 3:
            raise AnalysisBroken('%s: the returned counter could be evaluated for %d of 4 lengths only' % (fn, pure))
    chk.floor('CTR counter evaluations', n, 12)


def poly1305_wrap(chk):
    """Poly1305 works modulo 2^130 - 5: a carry that leaves the top limb has weight 2^130 = 5 (mod p) and must re-enter limb 0
    multiplied by 5.  Decided on the symbolic form of the value of limb 0 that is compared with p's low limb in the final
    conditional subtraction (after `opt -O2` has unrolled the carry loop): limb0 + 5 * (carry out of the top limb)."""
    from .. import sym, oblig, fold
    R = 'poly1305-carry-wrap'
    n = 0
    for src, fn in (('src/symcipher/poly1305_ctmul.c', 'br_poly1305_ctmul_run'), ('src/symcipher/poly1305_ctmul32.c', 'br_poly1305_ctmul32_run')):
        U = oblig.funit(src)
        if fn not in U.funcs:
            raise AnalysisBroken('%s vanished' % fn)
        Fo = U.optimise(fn, [], ('poly1305_inner', 'GT', 'EQ', 'MUX'))
        S = sym.Sym(Fo)
        gts = [c for c in fold._reach_insts(Fo) if c['op'] == 'call' and c.get('callee') == 'GT' and c['ops'][1]['k'] == 'c']
        if len(gts) != 1:
            raise AnalysisBroken('%s: the comparison of limb 0 with the low limb of p was not found' % fn)
        t = S.sym(gts[0]['ops'][0])
        # and(aff{limb0: 1, carry: k}, mask)
        inner = None
        if t[0] == 'aff' and len(t[1]) == 1 and t[1][0][0][0] == 'op' and t[1][0][0][1] == 'and':
            inner = next((x for x in t[1][0][0][2:] if x[0] == 'aff' and x[1]), None)
        if inner is None:
            raise AnalysisBroken('%s: unexpected shape of limb 0: %s' % (fn, sym.show(t)[:200]))
        coefs = sorted(v for k, v in inner[1] if isinstance(k, tuple) and k[0] == 'op' and k[1] == 'lshr')
        # the final conditional subtraction applies when the value is >= p = 2^130 - 5: low limb > 2^w - 6, all other limbs all-ones
        mask = next((x[2] for x in t[1][0][0][2:] if x[0] == 'aff' and not x[1]), None)
        cst = gts[0]['ops'][1]['v']
        n += 1
        inst2 = '%s: final subtraction applies when limb 0 > 2^w - 6 (value >= 2^130 - 5)' % fn
        if mask is not None and cst == mask - 5:
            chk.ok(R, inst2, src, 'limb mask 0x%X, threshold 0x%X' % (mask, cst))
        else:
            chk.violation(R, inst2, src, 'limb mask %s, threshold 0x%X (expected mask - 5): the tag is wrong when the accumulator ends in the range [p, 2^130)'
                          % (hex(mask) if mask is not None else None, cst), key='%s %s threshold' % (R, fn))
        n += 1
        inst = '%s: the carry out of the top limb re-enters limb 0 multiplied by 5' % fn
        if coefs == [5]:
            chk.ok(R, inst, src)
        else:
            chk.violation(R, inst, src, 'limb 0 becomes limb0 + %s * carry: a value 2^130 + e after the block loop is reduced to e + %s instead of e + 5, '
                          'so the tag is wrong for those accumulator values' % (coefs, coefs), key='%s %s' % (R, fn))
    chk.floor('Poly1305 finalisations', n, 4)


def aes_key_expansion_rule(chk):
    """FIPS 197 section 5.2 (KeyExpansion): Nr = 10 / 12 / 14 for 16 / 24 / 32-byte keys; a word whose index is a multiple of Nk gets
    SubWord(RotWord(temp)) xor Rcon; the extra SubWord at i mod Nk = 4 applies *only* when Nk > 6, i.e. to 256-bit keys.  The three
    portable key schedules (br_aes_keysched, br_aes_ct_keysched, br_aes_ct64_keysched) carry the same loop; each is compared with the
    standard: the key-length switch yields the round numbers, the Nk test holds for Nk = 8 and fails for 4 and 6, and it is
    combined with j == 4."""
    from .. import wmw
    from ..sym import var_names
    R = 'aes-key-expansion-rule'
    P = wmw.program()
    n = 0
    for fn, f in (('br_aes_keysched', 'aes_common.c'), ('br_aes_ct_keysched', 'aes_ct.c'), ('br_aes_ct64_keysched', 'aes_ct64.c')):
        Fs = [F for (un, g), F in P.static.items() if g == fn and F.file().endswith(f)]
        if not Fs:
            raise AnalysisBroken('%s vanished' % fn)
        F = Fs[0]
        names = var_names(F)

        def nm(o):
            return names.get((o['k'], o['v'])) if o['k'] in ('i', 'a') else None
        # rounds table
        sw = [i for i in F.insts.values() if i['op'] == 'switch' and nm(i['ops'][0]) == 'key_len']
        ph = [i for i in F.insts.values() if i['op'] == 'phi' and nm({'k': 'i', 'v': i['id']}) == 'num_rounds']
        n += 1
        inst = '%s: 16 / 24 / 32-byte keys give 10 / 12 / 14 rounds' % fn
        if len(sw) != 1 or len(ph) != 1:
            raise AnalysisBroken('%s: key-length switch / num_rounds phi not found (%d / %d)' % (fn, len(sw), len(ph)))
        cases = {sw[0]['ops'][k]['v']: sw[0]['ops'][k + 1]['v'] for k in range(2, len(sw[0]['ops']), 2)}
        byblock = {b: o.get('v') for b, o in zip(ph[0]['inb'], ph[0]['ops']) if o['k'] == 'c'}
        got = {kl: byblock.get(bb) for kl, bb in cases.items()}
        if got == {16: 10, 24: 12, 32: 14}:
            chk.ok(R, inst, F.where(sw[0]))
        else:
            chk.violation(R, inst, F.where(sw[0]), 'key length -> rounds is %s' % got, key='%s %s rounds' % (R, fn))
        # the Nk test
        cmps = [i for i in F.insts.values() if i['op'] == 'icmp' and nm(i['ops'][0]) == 'nk' and i['ops'][1]['k'] == 'c']
        n += 1
        inst = '%s: the additional SubWord applies to 256-bit keys only (Nk > 6) and at j = 4' % fn
        if 'nk' not in names.values() or 'j' not in names.values():
            raise AnalysisBroken('%s: variables nk / j not found in the debug information (renamed?)' % fn)
        if len(cmps) != 1:
            chk.violation(R, inst, F.where(), 'expected one comparison of nk with a constant, found %d' % len(cmps), key='%s %s nk' % (R, fn))
            continue
        c = cmps[0]
        k = c['ops'][1]['v']
        rel = {'sgt': lambda a: a > k, 'sge': lambda a: a >= k, 'ugt': lambda a: a > k, 'uge': lambda a: a >= k, 'eq': lambda a: a == k,
               'ne': lambda a: a != k, 'slt': lambda a: a < k, 'sle': lambda a: a <= k, 'ult': lambda a: a < k, 'ule': lambda a: a <= k}[c['pred']]
        holds = sorted(a for a in (4, 6, 8) if rel(a))
        # the branch taken when the test holds leads to the `j == 4` test
        tb = [i for i in F.insts.values() if i['op'] == 'br' and len(i['ops']) == 3 and i['ops'][0] == {'k': 'i', 'v': c['id']}]
        j4 = None
        if tb:
            nxt = tb[0]['ops'][2]['v']
            blk = next(b for b in F.blocks if b['id'] == nxt)
            j4 = next((i for i in blk['insts'] if i['op'] == 'icmp' and i['pred'] == 'eq' and nm(i['ops'][0]) == 'j' and i['ops'][1].get('v') == 4), None)
        if holds != [8]:
            chk.violation(R, inst, F.where(c), 'the test `nk %s %d` holds for Nk in %s: %s' % (c['pred'], k, holds,
                          '192-bit keys get the extra SubWord and expand to a different schedule than every other AES' if 6 in holds else 'the schedule is not FIPS 197\'s'),
                          key='%s %s nk' % (R, fn))
        elif j4 is None:
            chk.violation(R, inst, F.where(c), 'the Nk test is not followed by `j == 4`', key='%s %s j4' % (R, fn))
        else:
            chk.ok(R, inst, F.where(c))
    chk.floor('aes key expansion instances', n, 6)


def des_ede_schedule(chk):
    """Triple-DES is encrypt-decrypt-encrypt (ANSI X9.52 / SP 800-67): the middle sub-key schedule is the reversed one; a 16-byte key is
    K1 | K2 | K1.  Decided by partial evaluation of both key schedules with key_len pinned to 8, 16, 24: the sequence of
    (unit schedule, reversal, copy) steps with their sub-key offsets, and the returned number of DES instances."""
    from .. import oblig, fold
    R = 'des-ede-key-schedule'
    WANT = {8: ([('unit', 0, 0)], 1),
            16: ([('unit', 0, 0), ('unit', 128, 8), ('rev', 128), ('copy', 256, 0, 128)], 3),
            24: ([('unit', 0, 0), ('unit', 128, 8), ('rev', 128), ('unit', 256, 16)], 3)}
    n = 0
    for impl in ('des_tab', 'des_ct'):
        src = 'src/symcipher/%s.c' % impl
        fn = 'br_%s_keysched' % impl
        U = oblig.funit(src)
        if fn not in U.funcs:
            raise AnalysisBroken('%s vanished' % fn)
        F = U.func(fn)
        pl = F.f['params'][2]
        for klen, (wseq, wret) in sorted(WANT.items()):
            hy = [dict(kind='assume', n=pl['n'], ty=pl['ty'], pred='eq', value=klen, param=True)]
            Fo = U.optimise(fn, hy, ('keysched_unit', 'br_des_rev_skey'))
            seq = []
            for c in sorted(fold._reach_insts(Fo), key=lambda c: c['id']):
                if c['op'] != 'call':
                    continue
                cal = c.get('callee') or ''
                if cal == 'keysched_unit':
                    seq.append(('unit', Fo.addr_of(c['ops'][0])[1], Fo.addr_of(c['ops'][1])[1]))
                elif cal == 'br_des_rev_skey':
                    seq.append(('rev', Fo.addr_of(c['ops'][0])[1]))
                elif cal.startswith('llvm.memcpy') or cal == 'memcpy':
                    seq.append(('copy', Fo.addr_of(c['ops'][0])[1], Fo.addr_of(c['ops'][1])[1], c['ops'][2]['v'] if c['ops'][2]['k'] == 'c' else None))
            okr, detr = fold.expect_ret_const(Fo, wret)
            n += 1
            inst = '%s: %d-byte key => %s, %d DES instance(s)' % (fn, klen, ' '.join(x[0] for x in wseq), wret)
            if seq == wseq and okr:
                chk.ok(R, inst, src)
            else:
                chk.violation(R, inst, src, 'steps are %s, returns %s; expected %s: the key schedule no longer implements encrypt-decrypt-encrypt for this key size'
                              % (seq, detr, wseq), key='%s %s %d' % (R, impl, klen))
    chk.floor('DES key schedule cases', n, 6)


def ghash_pclmul_tail(chk):
    """GHASH zero-pads the last partial block (SP 800-38D 6.4).  br_ghash_pclmul is not a byte loop: it splits the input into 64-byte
    groups and up to four 16-byte blocks, and copies the tail into a local buffer.  Decided by constant propagation with len pinned:
    the copy must take the bytes that end exactly at the end of the input (source offset + count == len, count == len mod 64) and the
    zero fill must complete the copy to a multiple of 16."""
    from .. import oblig, fold
    R = 'ghash-partial-block'
    src, fn = 'src/hash/ghash_pclmul.c', 'br_ghash_pclmul'
    U = oblig.funit(src)
    if fn not in U.funcs:
        raise AnalysisBroken('%s vanished' % fn)
    F = U.func(fn)
    ps = F.f['params']
    n = 0
    for ln in (7, 17, 70, 135, 200, 64 * 5 + 47, 64, 128 + 16):
        hy = [dict(kind='pin', n=ps[3]['n'], value=ln, param=True)]
        Fo = U.optimise(fn, hy, (), 'function(sccp,instsimplify,simplifycfg,sccp,instsimplify,simplifycfg)')
        cp, zs = [], []
        for c in fold._reach_insts(Fo):
            cal = c.get('callee') or ''
            if c['op'] == 'call' and cal.startswith('llvm.memcpy'):
                db, do = Fo.addr_of(c['ops'][0])
                sb, so = Fo.addr_of(c['ops'][1])
                if sb == {'k': 'a', 'v': 2} and db['k'] == 'i' and Fo.insts[db['v']]['op'] == 'alloca':
                    cp.append((do, so, c['ops'][2].get('v') if c['ops'][2]['k'] == 'c' else None))
            elif c['op'] == 'call' and cal.startswith('llvm.memset'):
                db, do = Fo.addr_of(c['ops'][0])
                if db['k'] == 'i' and Fo.insts[db['v']]['op'] == 'alloca':
                    zs.append((do, c['ops'][1].get('v'), c['ops'][2].get('v') if c['ops'][2]['k'] == 'c' else None))
        n += 1
        inst = '%s: %d bytes => the partial last block is the last %d byte(s) of the input, zero-padded to 16' % (fn, ln, ln % 16)
        if ln % 16 == 0:
            if not cp:
                chk.ok(R, inst.replace('the partial last block is', 'no partial block; not'), F.where())
            else:
                chk.violation(R, inst, F.where(), 'a tail copy %s remains for a length that is a multiple of 16' % cp, key='%s %d' % (R, ln))
            continue
        want_cp = [(0, 64 * (ln // 64), ln % 64)]
        want_z = [(ln % 64, 0, (-ln) % 16)]
        if cp == want_cp and zs == want_z:
            chk.ok(R, inst, F.where())
        else:
            chk.violation(R, inst, F.where(), 'copies (dst offset, input offset, count) = %s, zero fills = %s; expected %s and %s' % (cp, zs, want_cp, want_z),
                          key='%s %d' % (R, ln))
    chk.floor('ghash_pclmul lengths', n, 8)


def poly1305_block_decoding(chk):
    """Poly1305 (RFC 8439 2.5): each 16-byte block is read as a little-endian number with bit 128 set, and added to the accumulator.
    The three C implementations split that 129-bit number into limbs of 13, 26 or 44/44/42 bits with shifts and masks.  Decided in a
    bit-provenance abstract domain (sa/bitprov.py: every bit of an SSA value is 0, 1 or "bit k of the block"): the value added to
    limb i must be exactly bits [off_i, off_i + w_i) of the block, with the constant 1 at position 128 - every message bit is
    authenticated once, at its own weight."""
    from .. import bitprov
    R = 'poly1305-block-decoding'
    n = 0
    for src, fn, offs, mode in (('src/symcipher/poly1305_ctmul32.c', 'poly1305_inner', [13 * k for k in range(10)], 'mem'),
                                ('src/symcipher/poly1305_ctmul.c', 'poly1305_inner', [26 * k for k in range(5)], 'var'),
                                ('src/symcipher/poly1305_ctmulq.c', 'poly1305_inner_small', [0, 44, 88], 'var')):
        u = build.load_unit(src)
        F = next((irf.Func(u, f) for f in u['functions'] if f['name'] == fn and f.get('blocks')), None)
        if F is None:
            raise AnalysisBroken('%s vanished from %s' % (fn, src))
        bases = set(i['id'] for i in F.insts.values() if i['op'] == 'phi' and i['ty'] == 'i8*')
        BP = bitprov.BitProv(F, lambda b: b['k'] == 'i' and b['v'] in bases)
        limbs = {}
        if mode == 'mem':
            for i in F.insts.values():
                if i['op'] != 'store' or i['ops'][0]['k'] != 'i':
                    continue
                b, off = F.addr_of(i['ops'][1])
                ad = F.insts[i['ops'][0]['v']]
                if b != {'k': 'a', 'v': 0} or off is None or ad['op'] != 'add':
                    continue
                X = [o for o in ad['ops'] if not (o['k'] == 'i' and F.insts[o['v']]['op'] == 'load' and F.addr_of(F.insts[o['v']]['ops'][0]) == (b, off))]
                if len(X) == 1 and off // 4 not in limbs:
                    limbs[off // 4] = (BP.ev(X[0], 32), i)
        else:
            names = {}
            for b in F.blocks:
                for i in b['insts']:
                    if i['op'] == 'dbgvalue' and i['ops'][0]['k'] == 'i':
                        names.setdefault(i['ops'][0]['v'], i['var'])
            for i in F.insts.values():
                nm = names.get(i['id'], '')
                if i['op'] == 'add' and nm[:1] == 'a' and nm[1:].isdigit() and any(o['k'] == 'i' and F.insts[o['v']]['op'] == 'phi' for o in i['ops']):
                    X = [o for o in i['ops'] if not (o['k'] == 'i' and F.insts[o['v']]['op'] == 'phi')]
                    if len(X) == 1 and int(nm[1:]) not in limbs:
                        limbs[int(nm[1:])] = (BP.ev(X[0], 64), i)
        if sorted(limbs) != list(range(len(offs))):
            raise AnalysisBroken('%s %s: accumulator additions found for limbs %s, expected %d limbs' % (src, fn, sorted(limbs), len(offs)))
        for k, off in enumerate(offs):
            w = (offs[k + 1] - off) if k + 1 < len(offs) else 129 - off
            bits, at = limbs[k]
            want = [('m', off + j) if off + j < 128 else 1 if off + j == 128 else 0 for j in range(w)] + [0] * (len(bits) - w)
            n += 1
            inst = '%s %s: limb %d receives bits %d..%d of the block%s' % (src.split('/')[-1], fn, k, off, min(off + w, 128) - 1, ' and the 2^128 bit' if off + w > 128 else '')
            if bits[:len(want)] == want[:len(bits)]:
                chk.ok(R, inst, F.where(at))
            else:
                j = next(q for q in range(min(len(bits), len(want))) if bits[q] != want[q])
                def sh(x):
                    return 'block bit %d' % x[1] if isinstance(x, tuple) else 'unknown' if x is None else 'constant %d' % x
                chk.violation(R, inst, F.where(at), 'bit %d of the addend is %s, it must be %s: that block bit is not authenticated at its weight'
                              % (j, sh(bits[j]), sh(want[j])), key='%s %s %d' % (R, src, k))
    chk.floor('poly1305 limbs', n, 18)


def empty_chunk_is_identity(chk):
    """"Any split of a message into successive calls yields the same bytes as a single call" includes empty chunks (CCM and EAX issue
    them for short messages): a call with len == 0 must leave IV / counter / CBC-MAC value as they are, so no block-cipher core
    operation may remain once len is fixed to 0.  Partial evaluation of every chunked entry point of the four portable AES
    implementations and the two DES ones with len pinned to 0: the callees left are key expansion, endianness helpers and the
    delegations big/small make to their own ctr / mac entry points (judged in turn)."""
    import re
    from .. import oblig, fold
    R = 'empty-chunk-is-identity'
    CORE = re.compile(r'(bitslice_(en|de)crypt|_ortho|_big_(en|de)crypt|_small_(en|de)crypt|process_block|br_des_(tab|ct)_process)')
    n = 0
    entries = []
    for fam in ('aes_big', 'aes_small', 'aes_ct', 'aes_ct64'):
        entries += [('src/symcipher/%s_ctrcbc.c' % fam, 'br_%s_ctrcbc_%s' % (fam, m)) for m in ('encrypt', 'decrypt', 'ctr', 'mac')]
        entries += [('src/symcipher/%s_ctr.c' % fam, 'br_%s_ctr_run' % fam), ('src/symcipher/%s_cbcenc.c' % fam, 'br_%s_cbcenc_run' % fam),
                    ('src/symcipher/%s_cbcdec.c' % fam, 'br_%s_cbcdec_run' % fam)]
    for fam in ('des_tab', 'des_ct'):
        entries += [('src/symcipher/%s_cbcenc.c' % fam, 'br_%s_cbcenc_run' % fam), ('src/symcipher/%s_cbcdec.c' % fam, 'br_%s_cbcdec_run' % fam)]
    for src, fn in entries:
        U = oblig.funit(src)
        if fn not in U.funcs:
            raise AnalysisBroken('%s vanished from %s' % (fn, src))
        F = U.func(fn)
        ps = F.f['params']
        li = [k for k, p_ in enumerate(ps) if p_['ty'] == 'i64']
        if not li:
            raise AnalysisBroken('%s: no length parameter' % fn)
        cal0 = set(c.get('callee') for c in F.calls() if c.get('callee') and not c['callee'].startswith('llvm.'))
        if not any(CORE.search(c) for c in cal0) and not any(c.endswith(('_ctrcbc_ctr', '_ctrcbc_mac')) for c in cal0):
            raise AnalysisBroken('%s: no block-cipher core call recognised among %s' % (fn, sorted(cal0)))
        Fo = U.optimise(fn, [dict(kind='pin', n=ps[li[-1]]['n'], value=0, param=True)], tuple(cal0))
        left = sorted(set(c.get('callee') for c in fold._reach_insts(Fo) if c['op'] == 'call' and c.get('callee') and CORE.search(c['callee'])))
        n += 1
        inst = '%s: a call with len == 0 performs no block-cipher operation' % fn
        if not left:
            chk.ok(R, inst, src)
        else:
            chk.violation(R, inst, src, 'with len == 0 the function still calls %s: the chaining state changes on an empty chunk, so a message split with an '
                          'empty piece gives a different result' % ', '.join(left), key='%s %s' % (R, fn))
    chk.floor('chunked cipher entry points', n, 32)


def x86ni_round_key_chains(chk):
    """AES-NI code paths: a block goes through AddRoundKey with round key 0, then one AESENC (AESDEC) per round with round keys 1, 2, ...
    in order, and AESENCLAST (AESDECLAST) with round key Nr, Nr = 10 / 12 / 14 (FIPS 197 5.1; the decryption schedule is stored
    already reversed).  The code is unrolled per lane and per key size, so each (function, lane, key size) has its own chain; a
    copy/paste slip in one lane of one key size corrupts a quarter of the blocks for that key size only.  Rule: walking back from every
    *LAST intrinsic through the first operands, the round-key slots (constant offsets into the local expanded-key array) are
    Nr, Nr-1, ..., 1 and the chain starts with an xor with slot 0."""
    from .. import wmw
    R = 'x86ni-round-key-chain'
    P = wmw.program()
    n = 0
    nf = 0
    for (un, fn), F in sorted(P.static.items()):
        if 'x86ni' not in F.file():
            continue
        lasts = [c for c in F.calls() if (c.get('callee') or '') in ('llvm.x86.aesni.aesenclast', 'llvm.x86.aesni.aesdeclast')]
        if not lasts:
            continue
        nf += 1

        def slot(o):
            o = F.strip_casts(o)
            if o['k'] == 'i' and F.insts[o['v']]['op'] == 'load':
                b, off = F.addr_of(F.insts[o['v']]['ops'][0])
                if b['k'] == 'i' and F.insts[b['v']]['op'] == 'alloca' and off is not None and off % 16 == 0:
                    return b['v'], off // 16
            return None
        for L in lasts:
            n += 1
            rnd = 'aesenc' if 'enc' in L['callee'] else 'aesdec'
            top = slot(L['ops'][1])
            inst = '%s:%s: %slast chain uses round keys Nr, Nr-1, ..., 1, 0 in order' % (fn, L.get('line'), rnd)
            if top is None or top[1] not in (10, 12, 14):
                chk.violation(R, inst, F.where(L), 'the final round key is %s (expected slot 10, 12 or 14 of the expanded key)' % (top,), key='%s %s %s' % (R, fn, L.get('line')))
                continue
            arr, k = top
            x = F.strip_casts(L['ops'][0])
            bad = None
            while k > 1:
                k -= 1
                if x['k'] != 'i' or F.insts[x['v']].get('callee') != 'llvm.x86.aesni.' + rnd:
                    bad = 'round %d is not an %s of the running block' % (k, rnd.upper())
                    break
                c = F.insts[x['v']]
                sl = slot(c['ops'][1])
                if sl != (arr, k):
                    bad = 'round %d uses round key %s instead of %d' % (k, sl[1] if sl else '?', k)
                    at = c
                    break
                x = F.strip_casts(c['ops'][0])
            if not bad:
                # AddRoundKey with slot 0 (possibly through a phi-free xor chain)
                ok0 = False
                if x['k'] == 'i' and F.insts[x['v']]['op'] == 'xor':
                    ok0 = any(slot(o) == (arr, 0) for o in F.insts[x['v']]['ops'])
                if not ok0:
                    bad = 'the chain does not start with an xor with round key 0'
            if bad:
                chk.violation(R, inst, F.where(L), bad + ' (Nr = %d): blocks of this lane are wrong for %d-bit keys only' % (top[1], {10: 128, 12: 192, 14: 256}[top[1]]),
                              key='%s %s %s' % (R, fn, L.get('line')))
            else:
                chk.ok(R, inst, F.where(L))
    chk.count('x86ni functions with AES round chains', nf)
    chk.floor('x86ni round-key chains', n, 50)


def bitsliced_ctr_lane_counters(chk):
    """Bitsliced AES/CTR processes 2 (aes_ct) or 4 (aes_ct64) counter blocks per pass: lane k carries the big-endian encoding of cc + k,
    i.e. br_swap32 of the *sum* - adding to the already swapped word loses the carry out of the low byte.  Rule: in
    br_aes_ct_ctr_run / br_aes_ct64_ctr_run the counter words stored into the lane array are br_swap32(cc + k) for k = 0 .. lanes-1,
    each k once."""
    R = 'bitsliced-ctr-lane-counters'
    n = 0
    for src, fn, lanes in (('src/symcipher/aes_ct_ctr.c', 'br_aes_ct_ctr_run', 2), ('src/symcipher/aes_ct64_ctr.c', 'br_aes_ct64_ctr_run', 4)):
        u = build.load_unit(src)
        F = next((irf.Func(u, f) for f in u['functions'] if f['name'] == fn and f.get('blocks')), None)
        if F is None:
            raise AnalysisBroken('%s vanished' % fn)
        sw = F.calls('br_swap32')
        ks = []
        for c in sw:
            a = F.strip_casts(c['ops'][0])
            k = None
            if a['k'] == 'i' and F.insts[a['v']]['op'] == 'add' and F.insts[a['v']]['ops'][1]['k'] == 'c' and F.insts[F.insts[a['v']]['ops'][0]['v']]['op'] == 'phi' \
                    if a['k'] == 'i' and F.insts[a['v']]['op'] == 'add' and F.insts[a['v']]['ops'][0]['k'] == 'i' else False:
                k = F.insts[a['v']]['ops'][1]['v']
            elif a['k'] == 'i' and F.insts[a['v']]['op'] == 'phi':
                k = 0
            # the swapped value must be what is stored (directly) into the lane array
            stored = any(i['op'] == 'store' and F.strip_casts(i['ops'][0]) == {'k': 'i', 'v': c['id']} for i in F.insts.values())
            if k is not None and stored:
                ks.append(k)
        n += 1
        inst = '%s: the %d lane counters are br_swap32(cc + k), k = 0..%d' % (fn, lanes, lanes - 1)
        if sorted(ks) == list(range(lanes)):
            chk.ok(R, inst, F.where(sw[0]) if sw else src)
        else:
            chk.violation(R, inst, F.where(sw[0]) if sw else F.where(), 'lane counters derived by br_swap32(cc + k) for k in %s only: another lane is computed on the byte-swapped '
                          'word, which drops the carry when the low counter byte wraps' % sorted(ks), key='%s %s' % (R, fn))
    chk.floor('bitsliced ctr implementations', n, 2)


def x86ni_counter_lanes(chk):
    """AES-NI CTR processes four blocks at a time: the four counter blocks differ in their last 32 bits, which hold the *big-endian*
    encoding of cc, cc+1, cc+2, cc+3.  The increment must happen before the byte swap (a carry out of the low byte has to reach the
    other three): each value inserted into lane 3 is bswap32(cc + k).  Symbolic form of the four insertions."""
    from .. import sym
    R = 'ctr-lane-counters'
    src, fn = 'src/symcipher/aes_x86ni_ctr.c', 'br_aes_x86ni_ctr_run'
    u = build.load_unit(src)
    F = next((irf.Func(u, f) for f in u['functions'] if f['name'] == fn and f.get('blocks')), None)
    if F is None:
        raise AnalysisBroken('%s vanished' % fn)
    S = sym.Sym(F, leaf_vars=('cc',))
    ins = [i for i in F.insts.values() if i['op'] == 'insertelement' and i['ops'][2] == {'k': 'c', 'v': 3, 'w': 32} or
           (i['op'] == 'insertelement' and i['ops'][2]['k'] == 'c' and i['ops'][2]['v'] == 3)]
    ins.sort(key=lambda i: F.order[i['id']])
    if len(ins) < 4:
        raise AnalysisBroken('%s: fewer than 4 insertions into lane 3 (%d)' % (fn, len(ins)))
    cc = S.atom(('var', 'cc'))
    for k, i in enumerate(ins[:4]):
        t = S.sym(i['ops'][1])
        want = S.atom(('call', 'llvm.bswap.i32', sym.add_const(cc, k)))
        inst = '%s: counter block %d carries bswap32(cc + %d)' % (fn, k, k)
        if t == want:
            chk.ok(R, inst, F.where(i))
        else:
            chk.violation(R, inst, F.where(i), 'the inserted value is %s: a carry out of the low counter byte does not propagate' % sym.show(t)[:120],
                          key='%s %d' % (R, k))


def x86ni_cbcdec_iv(chk):
    """CBC decryption leaves, as IV for the next call, the last *ciphertext* block of this call (SP 800-38A 6.2).  The AES-NI code
    decrypts four blocks at a time in place, with separate tails for 1, 2 and 3 remaining blocks, so the block to keep differs in
    each path.  Partial evaluation with len pinned over every tail shape: the value finally stored to the IV buffer is the load of
    data[len - 16 .. len)."""
    from .. import oblig, fold
    R = 'cbcdec-iv-is-last-ciphertext-block'
    src, fn = 'src/symcipher/aes_x86ni_cbcdec.c', 'br_aes_x86ni_cbcdec_run'
    U = oblig.funit(src)
    if fn not in U.funcs:
        raise AnalysisBroken('%s vanished' % fn)
    F = U.func(fn)
    ps = F.f['params']
    n = 0
    for ln in (16, 32, 48, 64, 80, 96, 112):
        Fo = U.optimise(fn, [dict(kind='pin', n=ps[3]['n'], value=ln, param=True)], ())
        srcs = []
        for i in sorted(fold._reach_insts(Fo), key=lambda i: i['id']):
            if i['op'] != 'store':
                continue
            b, o = Fo.addr_of(i['ops'][1])
            if b != {'k': 'a', 'v': 1} or o != 0:
                continue
            v = i['ops'][0]
            d = 'a computed value'
            if v['k'] == 'i':
                vi = Fo.insts[v['v']]
                while vi['op'] == 'bitcast' and vi['ops'][0]['k'] == 'i':
                    vi = Fo.insts[vi['ops'][0]['v']]
                if vi['op'] == 'load':
                    sb, so = Fo.addr_of(vi['ops'][0])
                    d = so if sb == {'k': 'a', 'v': 2} else 'a load from elsewhere'
            srcs.append(d)
        n += 1
        inst = '%s: %d bytes => the IV left for the next call is ciphertext block at offset %d' % (fn, ln, ln - 16)
        if srcs and srcs[-1] == ln - 16:
            chk.ok(R, inst, src)
        else:
            chk.violation(R, inst, src, 'the IV buffer finally receives %s' % ('nothing' if not srcs else 'the input block at offset %s' % srcs[-1] if isinstance(srcs[-1], int) else srcs[-1]),
                          key='%s %d' % (R, ln))
    chk.floor('cbcdec tail shapes', n, 7)


def poly1305_ctmulq_final_carries(chk):
    """Poly1305 ctmulq keeps the accumulator in limbs of 44, 44 and 42 bits.  Before the tag is assembled (v1 = acc[0] >> 32 | acc[1] << 12
    ...) every limb must be back inside its width, otherwise the OR-composition mixes bits of neighbouring limbs.  The finalisation
    is a fixed sequence of carry steps, including the 2^130 = 5 wrap into limb 0, which can itself push limb 0 over 2^44 again:
    whether the sequence is long enough is a question about ranges *correlated through the carries*.  Decided by a trace-partitioned
    interval analysis (sa/carryai.py): entry bounds are derived by the same analysis from the last statements of the two block
    functions, the partitions are split on each carry value, and at the end all limbs must fit in every partition."""
    from .. import carryai
    R = 'poly1305-ctmulq-limbs-normalised'
    src = 'src/symcipher/poly1305_ctmulq.c'
    u = build.load_unit(src)
    Fs = {f['name']: irf.Func(u, f) for f in u['functions'] if f.get('blocks')}
    for nm in ('br_poly1305_ctmulq_run', 'poly1305_inner_small', 'poly1305_inner_big'):
        if nm not in Fs:
            raise AnalysisBroken('%s vanished from %s' % (nm, src))
    # entry bounds: what the block functions store back into acc[]
    init = {}
    for nm in ('poly1305_inner_small', 'poly1305_inner_big'):
        G = Fs[nm]
        rb = [b for b in G.blocks if b['insts'][-1]['op'] == 'ret']
        ins = []
        for b in rb:
            ins += b['insts']
        # values stored come from loop-carried phis; bound each by the expression assigned at the end of the loop body
        body = [i for b in G.blocks for i in b['insts']]
        # the stores in the return block store phis: take the bound of the phi's loop-latch operand evaluated in the body run
        env_bounds = {}
        r2 = carryai.run_env(G, body)
        for i in ins:
            if i['op'] == 'store':
                b_, off = G.addr_of(i['ops'][1])
                if b_ == {'k': 'a', 'v': 0} and off is not None and i['ops'][0]['k'] == 'i':
                    ph = G.insts[i['ops'][0]['v']]
                    cands = [ph] if ph['op'] != 'phi' else [G.insts[o['v']] for o in ph['ops'] if o['k'] == 'i']
                    hi = 0
                    for c in cands:
                        # incoming from the function entry: the previous accumulator (same invariant); from the loop: computed value
                        if c['op'] == 'load':
                            continue
                        hi = max(hi, r2.get(c['id'], carryai.FULL)[1])
                    init[off] = (0, max(init.get(off, (0, 0))[1], hi))
    if sorted(init) != [0, 8, 16] or any(v[1] >= 1 << 63 for v in init.values()):
        raise AnalysisBroken('%s: bounds of the accumulator limbs left by the block functions not derived (%s)' % (src, init))
    F = Fs['br_poly1305_ctmulq_run']
    calls = [c for c in F.calls() if c.get('callee') == 'poly1305_inner']
    acc = next((d['v'] for d in F.f.get('declares', []) if d['var'] == 'acc'), None)
    if not calls or acc is None:
        raise AnalysisBroken('%s: accumulator / block processing calls not identified' % src)
    last = max(calls, key=lambda c: F.order[c['id']])
    blk = next(x for x in F.blocks if x['id'] == F.block_of[last['id']])
    ins = [i for i in blk['insts'] if F.order[i['id']] > F.order[last['id']]]
    stores = [i for i in ins if i['op'] == 'store' and F.addr_of(i['ops'][1])[0] == {'k': 'i', 'v': acc}]
    if not stores:
        raise AnalysisBroken('%s: no finalisation stores to acc[]' % src)
    ins = [i for i in ins if F.order[i['id']] <= F.order[stores[-1]['id']]]
    res = carryai.run(F, ins, {'k': 'i', 'v': acc}, init)
    widths = {0: 44, 8: 44, 16: 42}
    worst = {off: max(m[off][1] for m in res) for off in widths}
    inst = 'br_poly1305_ctmulq_run: after the final carry steps the limbs fit 44 / 44 / 42 bits (entry bounds %s, %d partitions)' % (
        ', '.join('2^%.1f' % __import__('math').log2(init[o][1] + 1) for o in (0, 8, 16)), len(res))
    bad = [off for off, w in widths.items() if worst[off] >= 1 << w]
    if not bad:
        chk.ok(R, inst, F.where(stores[-1]))
    else:
        chk.violation(R, inst, F.where(stores[-1]), 'limb %d can be as large as %#x (width %d bits): the carry sequence is too short, the tag is wrong when a wrap-around '
                      'pushes the low limb over its width' % (bad[0] // 8, worst[bad[0]], widths[bad[0]]), key=R)


def run(tier):
    chk = report.Check('C12', tier,
                       'Constant tables of the symmetric primitives compared with values generated from their standards (FIPS 197 S-box, inverse '
                       'S-box, round constants, the merged MixColumns tables; RFC 8439 ChaCha20 constants and rotation amounts, Poly1305 modulus, '
                       'clamp masks), and every block-cipher class descriptor (block size, log2, context_size == sizeof(keys), function slots wired '
                       'to the same implementation family); the constant-time carry chains of the 128-bit CTR/CCM/EAX counters test the word just incremented; the 32-bit CTR run functions return cc + len/16 (partial evaluation for 1-4 blocks). NOT decided: bitsliced circuits, key schedules, chaining logic, DES tables '
                       '(BearSSL-specific merged layout), equality of outputs across implementations.',
                       trusted=['reference generators in sa/tab.py', 'clang 14 constant folding'])
    R = 'aes-tables'
    S, iS = tab.aes_sbox(), tab.aes_inv_sbox()
    u = build.load_unit('src/symcipher/aes_common.c')
    cmp_table(chk, R, u, 'br_aes_S', S, 'FIPS 197 S-box (GF(2^8) inverse + affine map)', 'src/symcipher/aes_common.c')
    cmp_table(chk, R, u, 'Rcon', [r << 24 for r in tab.aes_rcon()], 'x^i in GF(2^8), top byte', 'src/symcipher/aes_common.c')
    u = build.load_unit('src/symcipher/aes_big_enc.c')
    cmp_table(chk, R, u, 'Ssm0', tab.aes_Ssm0(), '(2S,S,S,3S) MixColumns-merged S-box', 'src/symcipher/aes_big_enc.c')
    u = build.load_unit('src/symcipher/aes_big_dec.c')
    cmp_table(chk, R, u, 'iS', iS, 'inverse S-box', 'src/symcipher/aes_big_dec.c')
    cmp_table(chk, R, u, 'iSsm0', tab.aes_iSsm0(), '(14,9,13,11)*iS InvMixColumns-merged', 'src/symcipher/aes_big_dec.c')
    u = build.load_unit('src/symcipher/aes_small_dec.c')
    cmp_table(chk, R, u, 'iS', iS, 'inverse S-box', 'src/symcipher/aes_small_dec.c')
    for f in ('aes_ct', 'aes_ct64'):
        u = build.load_unit('src/symcipher/%s.c' % f)
        cmp_table(chk, R, u, 'Rcon', tab.aes_rcon(), 'x^i in GF(2^8)', 'src/symcipher/%s.c' % f)

    R = 'chacha-poly-constants'
    cw = [int.from_bytes(b'expand 32-byte k'[4 * i:4 * i + 4], 'little') for i in range(4)]
    u = build.load_unit('src/symcipher/chacha20_ct.c')
    cmp_table(chk, R, u, 'br_chacha20_ct_run.CW', cw, '"expand 32-byte k"', 'src/symcipher/chacha20_ct.c')
    f = next((x for x in u['functions'] if x['name'] == 'br_chacha20_ct_run' and not x['decl']), None)
    if f is None:
        raise AnalysisBroken('br_chacha20_ct_run not found')
    shl, shr = set(), set()
    for b in f['blocks']:
        for i in b['insts']:
            if i['op'] in ('shl', 'lshr') and i['ty'] == 'i32' and i['ops'][1]['k'] == 'c':
                (shl if i['op'] == 'shl' else shr).add(i['ops'][1]['v'])
    inst = 'chacha20_ct quarter-round rotations are {16,12,8,7}'
    if {16, 12, 8, 7} <= shl and {16, 20, 24, 25} <= shr and not ((shl - {16, 12, 8, 7, 2}) & set(range(3, 32))):
        chk.ok(R, inst, 'src/symcipher/chacha20_ct.c', 'shl %s lshr %s' % (sorted(shl), sorted(shr)))
    else:
        chk.violation(R, inst, 'src/symcipher/chacha20_ct.c', 'shl %s lshr %s' % (sorted(shl), sorted(shr)), key='%s chacha rot' % R)
    # ChaCha20 is a 32-bit add-rotate-xor design: the SSE2 implementation may only add in 32-bit lanes (block counter included,
    # RFC 8439 2.3: a 32-bit counter that wraps on its own word)
    u2 = build.load_unit('src/symcipher/chacha20_sse2.c')
    f2 = next((x for x in u2['functions'] if x['name'] == 'br_chacha20_sse2_run' and not x['decl']), None)
    if f2 is not None:
        adds = [(i['ty'], i.get('line')) for b in f2['blocks'] for i in b['insts'] if i['op'] in ('add', 'sub') and '<' in i.get('ty', '')]
        bad = [a for a in adds if a[0] != '<4 x i32>']
        inst = 'chacha20_sse2: every vector addition (state words and block counter) is a 4 x 32-bit lane addition'
        if adds and not bad:
            chk.ok(R, inst, 'src/symcipher/chacha20_sse2.c', '%d vector additions' % len(adds))
        else:
            chk.violation(R, inst, 'src/symcipher/chacha20_sse2.c', 'vector additions of other widths: %s' % bad, key='%s chacha sse2 lanes' % R)
    # Poly1305: modulus and clamp
    u = build.load_unit('src/symcipher/poly1305_i15.c')
    p = (1 << 130) - 5
    cmp_table(chk, R, u, 'P1305', tab.enc_i15(p), '2^130-5 (i15 encoding)', 'src/symcipher/poly1305_i15.c')
    cmp_table(chk, R, u, 'R2', tab.enc_i15((1 << 270) % p, 130), '2^270 mod p', 'src/symcipher/poly1305_i15.c')
    M = 0x0ffffffc0ffffffc0ffffffc0fffffff
    u = build.load_unit('src/symcipher/poly1305_ctmul.c')
    need_imm(chk, R, u, 'src/symcipher/poly1305_ctmul.c', 'br_poly1305_ctmul_run', [(M >> (26 * i)) & 0x3FFFFFF for i in range(5)], 'RFC 8439 clamp of r, 26-bit limbs')
    # i15 clamp: bytes 3,7,11,15 &= 15; 4,8,12 &= 252
    u = build.load_unit('src/symcipher/poly1305_i15.c')
    got = immediates(u, 'br_poly1305_i15_run')
    inst = 'poly1305_i15 clamps r with 0x0F / 0xFC byte masks'
    if (15 in got or 0x0F in got) and (252 in got or 0xFC in got):
        chk.ok(R, inst, 'src/symcipher/poly1305_i15.c')
    else:
        chk.violation(R, inst, 'src/symcipher/poly1305_i15.c', 'masks not found', key='%s poly i15 clamp' % R)

    # ---- class descriptors
    R = 'block-class-desc'
    n = 0
    for fam, classes in BLOCK_FAMILIES.items():
        for cl in classes:
            src = 'src/symcipher/%s_%s.c' % (fam, cl)
            u = build.load_unit(src)
            gname = 'br_%s_%s_vtable' % (fam, cl)
            fl = tab.global_fields(u, gname)
            if fl is None:
                if fam == 'aes_x86ni':
                    continue
                raise AnalysisBroken('%s not found' % gname)
            n += 1
            bs = 8 if fam.startswith('des') else 16
            cv = build.const_values(['sizeof(br_%s_%s_keys)' % (fam, cl)])
            vals = {o: v for o, s, v in fl}
            want = {0: cv['sizeof(br_%s_%s_keys)' % (fam, cl)], 8: bs, 12: 3 if bs == 8 else 4}
            okk = all(vals.get(k) == v for k, v in want.items())
            inst = '%s: context_size=sizeof(keys), block_size=%d, log=%d' % (gname, bs, want[12])
            if okk:
                chk.ok(R, inst, src)
            else:
                chk.violation(R, inst, src, 'descriptor words are %s, expected %s' % ({k: vals.get(k) for k in want}, want), key='%s %s words' % (R, gname))
            slots = [(o, v) for o, s, v in fl if o >= 16]
            pre = 'br_%s_%s_' % (fam, cl)
            okk = len(slots) >= 2 and all(isinstance(v, str) and v.startswith(pre) for o, v in slots)
            inst = '%s: function slots are %s*' % (gname, pre)
            if okk:
                chk.ok(R, inst, src, ', '.join(v for o, v in slots))
            else:
                chk.violation(R, inst, src, 'slots: %s' % slots, key='%s %s slots' % (R, gname))
    chk.floor('block classes', n, 20)
    counter_carry_chains(chk)
    ctr_counter_advance(chk)
    poly1305_wrap(chk)
    poly1305_block_decoding(chk)
    poly1305_ctmulq_final_carries(chk)
    des_ede_schedule(chk)
    aes_key_expansion_rule(chk)
    ghash_pclmul_tail(chk)
    empty_chunk_is_identity(chk)
    x86ni_counter_lanes(chk)
    x86ni_cbcdec_iv(chk)
    x86ni_round_key_chains(chk)
    bitsliced_ctr_lane_counters(chk)
    from .. import lints as _l
    _l.tail_copy_from_running_pointer(chk, ('src/symcipher/', 'src/hash/'))
    _l.limb_split_consistent(chk, ['src/symcipher/'])
    _l.word_codec_maps(chk, ['src/symcipher/', 'src/hash/ghash'], floor=10)
    _l.word_split_conserves_bits(chk, ['src/symcipher/', 'src/hash/'], floor=1)
    from .. import siblings as _sib
    _sib.check_group(chk, 'aes_big/aes_small', floor=8)
    return chk.finish()
