"""C06 — engine state word and failure latch (DESIGN §4 C06)."""
from .. import build, report, oblig, irf, fold, wmw
from ..oblig import Ob, Call, ICall, Var, FieldLoad, RET, ALL, NOCALL, CALLDOM, E
from ..build import AnalysisBroken

S = 'src/ssl/ssl_engine.c'
NONNULL = 'inttoptr (i64 4096 to i8*)'


def _reaches(F, a, b, avoid=None):
    seen = set()
    st = [a]
    while st:
        x = st.pop()
        if x == b:
            return True
        if x in seen or x == avoid:
            continue
        seen.add(x)
        st.extend(F.succ[x])
    return False


def buffers_disjoint(chk):
    """br_ssl_engine_set_buffer(buf, buf_len, bidi = 1) splits one caller buffer into the input and the output area: the output
    area must start where the input area ends and end where the caller's buffer ends (regions inside the caller's memory and
    disjoint), otherwise incoming record bytes and pending outgoing bytes overwrite each other."""
    from .. import sym
    R = 'io-buffers-disjoint'
    u = build.load_unit(S)
    F = irf.Units({'u': u}).func('br_ssl_engine_set_buffer')
    if F is None:
        raise AnalysisBroken('br_ssl_engine_set_buffer vanished')
    Sy = sym.Sym(F, leaf_vars=('w',))
    n = 0
    for c in F.calls('br_ssl_engine_set_buffers_bidi'):
        ib, il, ob, ol = (Sy.sym(x) for x in c['ops'][1:5])
        if ob == Sy.aff({}, 0) or c['ops'][3]['k'] == 'null':
            continue            # shared buffer / no buffer
        n += 1
        inst = 'br_ssl_engine_set_buffer (bidi): output area = [buf + ibuf_len, buf + buf_len)'
        buf = Sy.atom(('var', 'buf'))
        want_ob = Sy.aff({**dict(ib[1]), **{k: dict(ib[1]).get(k, 0) + v for k, v in il[1]}}, ib[2] + il[2])
        end = Sy.aff({**dict(ob[1]), **{k: dict(ob[1]).get(k, 0) + v for k, v in ol[1]}}, ob[2] + ol[2])
        want_end = Sy.aff({('var', 'buf'): 1, ('var', 'buf_len'): 1}, 0)
        okk = ib == buf and ob == want_ob and end == want_end
        det = 'ibuf = %s, ibuf_len = %s, obuf = %s, obuf_len = %s' % tuple(sym.show(x) for x in (ib, il, ob, ol))
        if okk:
            chk.ok(R, inst, F.where(c), det)
        else:
            chk.violation(R, inst, F.where(c), det + ': the output area does not start at the end of the input area / end at the end of the buffer -- the two areas overlap',
                          key='%s set_buffer' % R)
    chk.floor('bidirectional split sites', n, 1)


def input_mode_is_read_only(chk):
    """With one shared I/O buffer the engine is half-duplex: once the first bytes of an incoming record have been acknowledged it is
    in input-only mode (BR_IO_IN) and the buffer holds the partial record.  No API call may assemble an outgoing record then
    (bearssl_ssl.h on br_ssl_engine_flush: an empty record is built only "if the engine would be ready to accept" application data):
    it would be written over the received bytes, which then fail their MAC - bytes lost.  FOLD: with iomode read as BR_IO_IN,
    br_ssl_engine_flush cannot reach sendpld_flush, and sendpld_buf / br_ssl_engine_sendapp_buf offer nothing."""
    from .. import oblig as _o
    from ..oblig import Ob, FieldLoad, NOCALL, RET, ALL
    s = 'src/ssl/ssl_engine.c'
    L = irf.Layouts(build.load_unit(s))
    f = L.field('br_ssl_engine_context', 'iomode')
    if f is None:
        raise AnalysisBroken('br_ssl_engine_context.iomode vanished')
    cv = build.const_values(['BR_IO_IN', 'BR_IO_INOUT'])
    R = 'input-mode-is-read-only'
    _o.run_obligations(chk, [
        Ob(s, 'br_ssl_engine_flush', FieldLoad(0, f[0], 'iomode', size=f[1]), ('pin', cv['BR_IO_IN']), NOCALL('sendpld_flush'), ('pin', cv['BR_IO_INOUT']),
           'a forced flush while an incoming record is partially received (shared buffer) must not assemble a record over it', rule=R,
           noinline=('sendpld_flush',)),
        Ob(s, 'sendpld_buf', FieldLoad(0, f[0], 'iomode', size=f[1]), ('pin', cv['BR_IO_IN']), RET(0), ('pin', cv['BR_IO_INOUT']),
           'no room for payload is offered in input-only mode', rule=R),
    ])


def cbc_split_room(chk):
    """TLS 1.0 CBC records of application data are split 1 / n-1: cbc_encrypt() builds the extra one-byte record *in front of* the
    payload, at buf - 4 - ((mac_len + blen + 1) & ~(blen - 1)); cbc_max_plaintext() is what reserves that room when it tells the
    engine where the application may write (*start += ...).  The two expressions live in different functions and must be the same
    quantity: reserve less, and the extra record's header is written before the start of the caller's buffer and the engine then
    offers nothing coherent.  Symbolic forms over (mac_len, blen): increment of *start + offset of the extra record = 0."""
    from .. import sym
    R = 'cbc-split-room-agrees'
    src = 'src/ssl/ssl_rec_cbc.c'
    u = build.load_unit(src)
    FM = next((irf.Func(u, f) for f in u['functions'] if f['name'] == 'cbc_max_plaintext' and f.get('blocks')), None)
    FE = next((irf.Func(u, f) for f in u['functions'] if f['name'] == 'cbc_encrypt' and f.get('blocks')), None)
    if FM is None or FE is None:
        raise AnalysisBroken('cbc_max_plaintext / cbc_encrypt vanished')
    SM, SE = sym.Sym(FM, leaf_vars=('blen',)), sym.Sym(FE, leaf_vars=('blen', 'buf', 'len'))

    def has_and(t):
        return any(k[0] == 'op' and k[1] == 'and' for k, v in t[1])
    inc = None
    for i in FM.insts.values():
        if i['op'] == 'store' and FM.addr_of(i['ops'][1]) == ({'k': 'a', 'v': 1}, 0):
            t = SM.sym(i['ops'][0])
            if has_and(t):
                d = {k: v for k, v in t[1] if not (k[0] == 'load' and k[2] == 0 and "'v', 1" in k[1])}
                inc = (SM.aff(d, t[2]), i)
    off = None
    for i in FE.insts.values():
        if i['op'] == 'getelementptr':
            t = SE.sym({'k': 'i', 'v': i['id']})
            if has_and(t) and any(k in (('var', 'data'), ('arg', 3)) for k, v in t[1]):
                d = {k: v for k, v in t[1] if k not in (('var', 'data'), ('arg', 3))}
                off = (SE.aff(d, t[2]), i)
    inst = 'cbc_max_plaintext reserves exactly the room cbc_encrypt uses for the extra record of the 1/n-1 split'
    if inc is None or off is None:
        chk.violation(R, inst, src, 'the two expressions were not identified (%s, %s)' % (inc is not None, off is not None), key='%s shape' % R)
        return
    d = dict(inc[0][1])
    for k, v in off[0][1]:
        d[k] = d.get(k, 0) + v
    rest = {k: v for k, v in d.items() if v}
    cst = inc[0][2] + off[0][2]
    if not rest and cst == 0:
        chk.ok(R, inst, FM.where(inc[1]), 'both are %s' % sym.show(inc[0])[:120])
    else:
        chk.violation(R, inst, FM.where(inc[1]), 'reserved: %s; used: %s - they differ, the extra record does not start where the reserved room starts'
                      % (sym.show(inc[0])[:150], sym.show(off[0])[:150]), key=R)


def run(tier):
    chk = report.Check('C06', tier,
                       'Static clauses of state/buffer consistency: the failure latch (only br_ssl_engine_fail and the two buffer-reset functions '
                       'write err; the first error wins; no function moves iomode away from FAILED); br_ssl_engine_current_state returns '
                       'BR_SSL_CLOSED alone when closed and sets each of the four flags iff the matching *_buf call returns non-NULL; every *_buf '
                       'returns NULL once failed; the application-data gates of sendapp/recvapp; the half-duplex (shared buffer) mode switch is '
                       'the first effect of recvrec_ack and sendpld_ack on every path; br_ssl_engine_close releases unread application data before it '
                       'enters the closure handshake (afterwards the record could never be released and no operation would be offered); br_ssl_engine_set_buffer splits a bidirectional buffer into adjacent, disjoint input and output areas ending at the end of the caller buffer; the transition table of the I/O machine (sa/engio.py, shared with C01: empty records return to ready, consumed windows are recycled, full windows are flushed, sent records open a new one). NOT decided: the pointer/length arithmetic of the six '
                       'buffer registers (run-time invariants).',
                       trusted=['clang/opt 14', 'debug-info struct layouts', 'whole-program store scan'])
    u = build.load_unit(S)
    L = irf.Layouts(u)
    f = lambda n: L.field('br_ssl_engine_context', n)[0]
    o_io, o_err, o_app, o_rt, o_shut = f('iomode'), f('err'), f('application_data'), f('record_type_in'), f('shutdown_recv')
    o_ibuf, o_obuf = f('ibuf'), f('obuf')
    cv = build.const_values(['BR_IO_FAILED', 'BR_IO_IN', 'BR_IO_OUT', 'BR_IO_INOUT', 'BR_SSL_CLOSED', 'BR_SSL_SENDREC', 'BR_SSL_RECVREC',
                             'BR_SSL_SENDAPP', 'BR_SSL_RECVAPP', 'BR_SSL_APPLICATION_DATA', 'BR_SSL_HANDSHAKE'])
    FAILED = cv['BR_IO_FAILED']

    # ---- who may write err / iomode
    R = 'failure-latch-writers'
    allowed_err = {'br_ssl_engine_fail', 'br_ssl_engine_set_buffer', 'br_ssl_engine_set_buffers_bidi'}
    structs = [(s_, o_err) for s_ in ('br_ssl_engine_context', 'br_ssl_client_context', 'br_ssl_server_context')]
    n = 0
    for F, i, st in wmw.stores_to_field(structs, 4):
        n += 1
        inst = 'store to engine.err in %s' % F.name
        if F.name in allowed_err:
            chk.ok(R, inst, F.where(i))
        else:
            chk.violation(R, inst, F.where(i), 'err may only be written by %s' % sorted(allowed_err), key='%s err %s' % (R, F.name))
    chk.floor('err writers', n, 3)
    allowed_io = {'br_ssl_engine_fail', 'br_ssl_engine_set_buffer', 'br_ssl_engine_set_buffers_bidi', 'make_ready_in', 'make_ready_out', 'recvrec_ack', 'sendpld_ack'}
    structs = [(s_, o_io) for s_ in ('br_ssl_engine_context', 'br_ssl_client_context', 'br_ssl_server_context')]
    n = 0
    for F, i, st in wmw.stores_to_field(structs, 1):
        n += 1
        inst = 'store to engine.iomode in %s' % F.name
        if F.name in allowed_io:
            chk.ok(R, inst, F.where(i))
        else:
            chk.violation(R, inst, F.where(i), 'iomode may only be written by %s' % sorted(allowed_io), key='%s iomode %s' % (R, F.name))
    chk.floor('iomode writers', n, 7)
    for F, i, st in wmw.bulk_writes_covering([(s_, o_io) for s_ in ('br_ssl_engine_context',)]):
        chk.count('bulk writes covering iomode (zeroing)', 1)

    # ---- latch: once FAILED, nothing but the reset functions changes iomode / err
    R = 'failure-latch'
    only_failed = E(fold.expect_stores_only, 'iomode is only ever (re)written with FAILED', 0, o_io, {FAILED}, False)
    no_err = E(fold.expect_no_store_to, 'err is not overwritten', 0, o_err)
    obs = [
        Ob(S, 'br_ssl_engine_fail', FieldLoad(0, o_io, 'iomode'), ('pin', FAILED), ALL(no_err, only_failed), None, 'the first error wins', rule=R),
    ]
    for fn in ('make_ready_in', 'make_ready_out', 'recvrec_ack', 'sendpld_ack'):
        obs.append(Ob(S, fn, FieldLoad(0, o_io, 'iomode'), ('pin', FAILED), only_failed, None,
                      'a failed engine must stay failed', rule=R, noinline=('make_ready_in', 'make_ready_out', 'sendpld_flush', 'br_ssl_engine_fail')))
    # ---- state word
    R = 'state-word'
    bufs = [('br_ssl_engine_sendrec_buf', 'BR_SSL_SENDREC'), ('br_ssl_engine_recvrec_buf', 'BR_SSL_RECVREC'),
            ('br_ssl_engine_sendapp_buf', 'BR_SSL_SENDAPP'), ('br_ssl_engine_recvapp_buf', 'BR_SSL_RECVAPP')]
    NI = tuple(b for b, _ in bufs)
    obs.append(Ob(S, 'br_ssl_engine_current_state', Call('br_ssl_engine_closed'), ('pin', 1), RET(cv['BR_SSL_CLOSED']), ('pin', 0),
                  'a closed engine reports CLOSED alone', rule=R, noinline=NI))
    obs.append(Ob(S, 'br_ssl_engine_closed', FieldLoad(0, o_io, 'iomode'), ('pin', FAILED), RET(1), None, 'closed == failed mode', rule=R))
    for b, flag in bufs:
        others = [(Call(x), ('pin', 0)) for x, _ in bufs if x != b] + [(Call('br_ssl_engine_closed'), ('pin', 0))]
        obs.append(Ob(S, 'br_ssl_engine_current_state', Call(b), ('pin', NONNULL), RET(cv[flag]), ('pin', 0),
                      '%s set iff %s() is non-NULL' % (flag, b), rule=R, noinline=NI, extra_hyps=others))
    obs.append(Ob(S, 'br_ssl_engine_current_state', Call(bufs[0][0]), ('pin', 0), RET(0), None, 'no flag without a buffer', rule=R, noinline=NI,
                  extra_hyps=[(Call(x), ('pin', 0)) for x, _ in bufs[1:]] + [(Call('br_ssl_engine_closed'), ('pin', 0))]))
    # ---- buffers vanish once failed
    R = 'buffers-null-when-failed'
    for b in ('sendrec_buf', 'recvrec_buf', 'sendpld_buf', 'recvpld_buf'):
        obs.append(Ob(S, b, FieldLoad(0, o_io, 'iomode'), ('pin', FAILED), RET(0), None, 'no buffer is offered by a failed engine', rule=R))
    for b, h in (('br_ssl_engine_sendrec_buf', 'sendrec_buf'), ('br_ssl_engine_recvrec_buf', 'recvrec_buf'),
                 ('br_ssl_engine_sendapp_buf', 'sendpld_buf'), ('br_ssl_engine_recvapp_buf', 'recvpld_buf')):
        obs.append(Ob(S, b, Call(h), ('pin', 0), RET(0), ('pin', NONNULL), 'the public accessor returns what the internal one decided', rule=R, noinline=(h,)))
    obs.append(Ob(S, 'recvrec_buf', FieldLoad(0, o_shut, 'shutdown_recv'), ('pin', 1), RET(0), None, 'no record is accepted after close_notify was received', rule=R))
    # ---- application-data gates
    R = 'application-data-gate'
    obs += [
        Ob(S, 'br_ssl_engine_sendapp_buf', FieldLoad(0, o_app, 'application_data'), ('pin', 0), RET(0), None, 'no application bytes before the handshake completes', rule=R),
        Ob(S, 'br_ssl_engine_sendapp_buf', FieldLoad(0, o_app, 'application_data'), ('pin', 2), RET(0), None, 'no application bytes while closing', rule=R),
        Ob(S, 'br_ssl_engine_recvapp_buf', FieldLoad(0, o_app, 'application_data'), ('pin', 0), RET(0), None, 'no application bytes before the handshake completes', rule=R),
        Ob(S, 'br_ssl_engine_recvapp_buf', FieldLoad(0, o_rt, 'record_type_in'), ('pin', cv['BR_SSL_HANDSHAKE']), RET(0), None,
           'only application_data records are delivered to the application', rule=R),
    ]
    oblig.run_obligations(chk, obs)

    # ---- half-duplex switch is the first effect
    R = 'half-duplex-switch-first'
    U = irf.Units({'u': u})
    for fn, target in (('recvrec_ack', cv['BR_IO_IN']), ('sendpld_ack', cv['BR_IO_OUT'])):
        F = U.func(fn)
        if F is None:
            raise AnalysisBroken('%s not found' % fn)
        cmps, guards = [], []
        for i in F.insts.values():
            if i['op'] == 'icmp' and i['pred'] == 'eq':
                offs = set()
                consts = [o['v'] for o in i['ops'] if o['k'] == 'c']
                for o in i['ops']:
                    o = F.strip_casts(o)
                    if o['k'] == 'i' and F.insts[o['v']]['op'] == 'load':
                        b, off = F.addr_of(F.insts[o['v']]['ops'][0])
                        if b == {'k': 'a', 'v': 0}:
                            offs.add(off)
                if offs == {o_ibuf, o_obuf}:
                    cmps.append(i)
                if offs == {o_io} and consts == [cv['BR_IO_INOUT']]:
                    guards.append(i)
        inst = '%s: the half-duplex test (iomode == INOUT && ibuf == obuf) and its mode switch precede every other effect, on every path' % fn
        guards = [g for g in guards if cmps and F.dominates(g['id'], cmps[0]['id'])]
        if len(cmps) != 1 or len(guards) != 1:
            chk.violation(R, inst, F.where(), 'expected one (iomode == INOUT && ibuf == obuf) test, found %d/%d' % (len(guards), len(cmps)), key='%s %s cmp' % (R, fn))
            continue
        c, g = cmps[0], guards[0]
        bad = None
        sw = [i for i in F.insts.values() if i['op'] == 'store' and F.addr_of(i['ops'][1]) == ({'k': 'a', 'v': 0}, o_io)
              and i['ops'][0].get('v') == target]
        if len(sw) != 1 or not F.dominates(c['id'], sw[0]['id']):
            bad = 'mode switch store not found under the comparison'
        else:
            # blocks between the guard and the join: only the test and the switch; everything else must come after the join,
            # i.e. must not be able to execute before the switch on a path where the test holds
            swb = F.block_of[sw[0]['id']]
            for i in F.insts.values():
                if i['id'] == sw[0]['id'] or i['op'] in ('dbgvalue',):
                    continue
                if i['op'] in ('store', 'ret') or (i['op'] == 'call' and not (i.get('callee') or '').startswith('llvm.')):
                    if i['op'] == 'store' and F.addr_of(i['ops'][1])[0] != {'k': 'a', 'v': 0}:
                        continue
                    if not F.dominates(g['id'], i['id']):
                        bad = '%s at line %s is not preceded by the half-duplex test' % (i['op'], i.get('line'))
                    # must not lie on a path from the guard to the switch block
                    ib = F.block_of[i['id']]
                    if ib != swb and _reaches(F, F.block_of[g['id']], ib, avoid=swb) and _reaches(F, ib, swb, avoid=None) and ib != F.block_of[g['id']]:
                        bad = '%s at line %s can execute between the test and the mode switch' % (i['op'], i.get('line'))
                    if ib == F.block_of[g['id']] and F.order[i['id']] < F.order[g['id']]:
                        bad = '%s at line %s precedes the half-duplex test' % (i['op'], i.get('line'))
        if bad:
            chk.violation(R, inst, F.where(c), bad, key='%s %s' % (R, fn))
        else:
            chk.ok(R, inst, F.where(c))
    chk.floor('obligations', len(chk.obls), 30)
    buffers_disjoint(chk)
    input_mode_is_read_only(chk)
    cbc_split_room(chk)
    # a reset context starts from defined engine state (shared with C01)
    from .c01 import handshake_state_reset
    handshake_state_reset(chk)
    from . import c19
    c19.close_order(chk)
    c19.close_notify_remembered(chk)
    c19.received_record_dispatch(chk)     # liveness while closing: a data record received then must be consumed, or no operation is offered any more
    from .. import oblig as _ob2
    _ob2.run_obligations(chk, c19.reneg_declined_obligations())
    # the I/O transition table (shared with C01): a dropped transition leaves the engine open with nothing on offer
    from .. import engio, oblig as _ob
    _ob.run_obligations(chk, engio.progress_obligations())
    engio.ready_state(chk)
    engio.offered_regions(chk)
    return chk.finish()
