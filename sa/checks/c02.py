"""C02 — received application bytes are a prefix of what was sent: static necessary conditions (DESIGN §4 C02)."""
from .. import build, report, oblig, irf, fold, wmw
from ..oblig import Ob, Call, ICall, Var, FieldLoad, RET, RET_NONZERO, ALL, NOCALL, CALLDOM, E
from ..build import AnalysisBroken
from . import c20


def length_gates(chk, rule='record-length-gate'):
    """the record-length gate of each mode admits only lengths for which decrypt's own length arithmetic cannot underflow,
    and at most 2^14 plaintext bytes (RFC 5246 6.2.3)"""
    # GCM / ChaCha20-Poly1305: constant overhead; take it from the decrypt method itself
    for mode, src, dec, gate in (('gcm', 'src/ssl/ssl_rec_gcm.c', 'gcm_decrypt', 'gcm_check_length'),
                                 ('chapol', 'src/ssl/ssl_rec_chapol.c', 'chapol_decrypt', 'chapol_check_length')):
        U = oblig.funit(src)
        F = U.func(dec)
        # len = *data_len - K : add of a negative constant to the value loaded through parameter 4
        K = None
        for i in F.insts.values():
            if i['op'] in ('add', 'sub'):
                a, b = i['ops']
                if a['k'] == 'i' and F.insts[a['v']]['op'] == 'load' and F.insts[a['v']]['ops'][0] == {'k': 'a', 'v': 4} and b['k'] == 'c':
                    K = -b['v'] if i['op'] == 'add' else b['v']
        if K is None or K <= 0:
            raise AnalysisBroken('%s: cannot find the overhead subtracted from *data_len' % dec)
        chk.count('overhead_' + mode, K)
        obs = [
            Ob(src, gate, Var('rlen', 'param'), ('assume', 'ult', K), RET(0), ('assume', 'eq', K + 100),
               'a record shorter than the %d bytes %s subtracts must be refused (length underflow otherwise)' % (K, dec), rule=rule),
            Ob(src, gate, Var('rlen', 'param'), ('assume', 'ugt', 16384 + K), RET(0), ('assume', 'eq', K + 100),
               'more than 2^14 plaintext bytes must be refused', rule=rule),
        ]
        oblig.run_obligations(chk, obs)
    # CCM: overhead 8 + tag_len on both sides
    src = 'src/ssl/ssl_rec_ccm.c'
    U = oblig.funit(src)
    L = irf.Layouts(U.unit)
    otag = L.field('br_sslrec_ccm_context', 'tag_len')[0]

    def affine(F, o, depth=0):
        """(const, {field offset: coef}) for add/zext/load(param0+off) trees"""
        if o['k'] == 'c':
            return (o['v'], {})
        if o['k'] != 'i' or depth > 6:
            return None
        i = F.insts[o['v']]
        if i['op'] in ('zext', 'sext', 'trunc'):
            return affine(F, i['ops'][0], depth + 1)
        if i['op'] == 'load':
            b, off = F.addr_of(i['ops'][0])
            if b == {'k': 'a', 'v': 0} and off is not None:
                return (0, {off: 1})
            return None
        if i['op'] in ('add', 'sub'):
            x = affine(F, i['ops'][0], depth + 1)
            y = affine(F, i['ops'][1], depth + 1)
            if x is None or y is None:
                return None
            sg = 1 if i['op'] == 'add' else -1
            d = dict(x[1])
            for k, v in y[1].items():
                d[k] = d.get(k, 0) + sg * v
            return (x[0] + sg * y[0], {k: v for k, v in d.items() if v})
        return None
    F = U.func('ccm_decrypt')
    sub = None
    for i in F.insts.values():
        if i['op'] == 'sub':
            a, b = i['ops']
            if a['k'] == 'i' and F.insts[a['v']]['op'] == 'load' and F.insts[a['v']]['ops'][0] == {'k': 'a', 'v': 4}:
                sub = affine(F, b)
    G = U.func('ccm_check_length')
    ov = oblig.Var('over', 'last').sites(U, 'ccm_check_length')
    gate = affine(G, {'k': 'i', 'v': ov[0][1]['inst']['id']}) if ov and 'inst' in ov[0][1] else None
    inst = 'ccm: gate overhead expression == overhead subtracted by ccm_decrypt (8 + tag_len)'
    if sub is not None and sub == gate and sub == (8, {otag: 1}):
        chk.ok(rule, inst, 'src/ssl/ssl_rec_ccm.c', 'both are 8 + ctx[%d]' % otag)
    else:
        chk.violation(rule, inst, 'src/ssl/ssl_rec_ccm.c', 'decrypt subtracts %s, gate uses %s' % (sub, gate), key='%s ccm overhead' % rule)
    oblig.run_obligations(chk, [
        Ob(src, 'ccm_check_length', Var('rlen', 'param'), ('assume', 'ult', Var('over', 'last')), RET(0), ('assume', 'eq', Var('over', 'last')),
           'record shorter than the overhead', rule=rule),
    ])
    # CBC: at least one full block holding MAC + padding-length byte;
    # decided here: rlen below mac_len+1 is refused (else max_len = len - 1 underflows / MAC does not fit)
    src = 'src/ssl/ssl_rec_cbc.c'
    oblig.run_obligations(chk, [
        Ob(src, 'cbc_check_length', Var('rlen', 'param'), ('assume', 'ult', Var('min_len', 'last')), RET(0), ('assume', 'eq', Var('min_len', 'last')),
           'record shorter than MAC + padding', rule=rule),
        Ob(src, 'cbc_check_length', Var('rlen', 'param'), ('assume', 'ugt', Var('max_len', 'last')), RET(0), ('assume', 'eq', Var('min_len', 'last')),
           'record longer than 2^14 + 256 + MAC', rule=rule),
        # a CBC record is a whole number of cipher blocks; the block-cipher run() methods loop `len -= block` and never terminate
        # (running over the buffer) on any other length, before any MAC check
        Ob(src, 'cbc_check_length', Var('rlen', 'param'), ('assume', 'ne', 0, 15), RET(0), ('assume', 'eq', 0, 15),
           'record length is not a multiple of the 16-byte block: the CBC decryption loop of the block cipher would run past the record',
           rule=rule, extra_hyps=[(Var('blen', 'last'), ('assume', 'eq', 16))]),
        Ob(src, 'cbc_check_length', Var('rlen', 'param'), ('assume', 'ne', 0, 7), RET(0), ('assume', 'eq', 0, 7),
           'record length is not a multiple of the 8-byte block (3DES): the CBC decryption loop of the block cipher would run past the record',
           rule=rule, extra_hyps=[(Var('blen', 'last'), ('assume', 'eq', 8))]),
    ])


def length_gates_accept(chk, rule='record-length-admits-full-fragment'):
    """the other side of the gate: a record carrying exactly 2^14 plaintext bytes (what a conforming peer's largest write
    produces) and an empty record are admitted by every mode's check_length; one byte more is refused (non-vacuity control)"""
    for mode, src, dec, gate in (('gcm', 'src/ssl/ssl_rec_gcm.c', 'gcm_decrypt', 'gcm_check_length'),
                                 ('chapol', 'src/ssl/ssl_rec_chapol.c', 'chapol_decrypt', 'chapol_check_length')):
        K = {'gcm': 24, 'chapol': 16}[mode]      # 8-byte explicit nonce + 16-byte tag; 16-byte tag (RFC 5288, RFC 7905)
        oblig.run_obligations(chk, [
            Ob(src, gate, Var('rlen', 'param'), ('assume', 'eq', 16384 + K), RET_NONZERO(), ('assume', 'eq', 16384 + K + 1),
               'a record with exactly 2^14 plaintext bytes (%d on the wire) is what a full-size write produces; refusing it breaks the stream' % (16384 + K), rule=rule),
            Ob(src, gate, Var('rlen', 'param'), ('assume', 'eq', K), RET_NONZERO(), ('assume', 'eq', K - 1),
               'an empty record (%d bytes of overhead only) is legal' % K, rule=rule),
        ])
    src = 'src/ssl/ssl_rec_ccm.c'
    oblig.run_obligations(chk, [
        Ob(src, 'ccm_check_length', Var('rlen', 'param'), ('assume', 'eq', 16384 + 8 + tl), RET_NONZERO(), ('assume', 'eq', 16384 + 8 + tl + 1),
           'a record with exactly 2^14 plaintext bytes is admitted (tag_len %d)' % tl, rule=rule,
           extra_hyps=[(Var('over', 'last'), ('assume', 'eq', 8 + tl))])
        for tl in (8, 16)])
    # CBC: 2^14 plaintext + MAC + padding up to the next block (+ explicit IV); checked for the (block, mac) pairs of the suites
    src = 'src/ssl/ssl_rec_cbc.c'
    Lc = irf.Layouts(oblig.funit(src).unit)
    o_mac = Lc.field('br_sslrec_in_cbc_context', 'mac_len')[0]
    o_iv = Lc.field('br_sslrec_in_cbc_context', 'explicit_IV')[0]
    obs = []
    for blen, mac in ((16, 20), (16, 32), (16, 48), (8, 20)):
        body = (16384 + mac + blen) & ~(blen - 1)      # plaintext + MAC + at least one padding byte, rounded to a block
        for iv in (0, 1):
            tot = body + iv * blen
            obs.append(Ob(src, 'cbc_check_length', Var('rlen', 'param'), ('assume', 'eq', tot), RET_NONZERO(), ('assume', 'eq', 16384 + 512 + 64),
                          'a CBC record of 2^14 plaintext bytes, %d-byte MAC, minimal padding%s (%d bytes) is admitted'
                          % (mac, ', explicit IV' if iv else '', tot), rule=rule,
                          extra_hyps=[(Var('blen', 'last'), ('assume', 'eq', blen)),
                                      (FieldLoad(0, o_mac, 'mac_len'), ('assume', 'eq', mac)),
                                      (FieldLoad(0, o_iv, 'explicit_IV'), ('assume', 'eq', iv))]))
    oblig.run_obligations(chk, obs)


def engine_rules(chk):
    s = 'src/ssl/ssl_engine.c'
    u = build.load_unit(s)
    L = irf.Layouts(u)
    cv = build.const_values(['BR_ERR_BAD_MAC', 'BR_ERR_BAD_LENGTH', 'BR_ERR_TOO_LARGE', 'BR_ERR_UNSUPPORTED_VERSION', 'BR_ERR_BAD_VERSION'])
    ixa, ixb, ixc = (L.field('br_ssl_engine_context', f)[0] for f in ('ixa', 'ixb', 'ixc'))
    R = 'engine-rejects-record'

    def failed(code, *nostore):
        es = [CALLDOM('br_ssl_engine_fail', 1, lambda v: v == cv[code], 'br_ssl_engine_fail(%s) on every path from the site' % code)]
        for nm, off in nostore:
            es.append(E(fold.expect_no_store_to, 'no store to %s after the site' % nm, 0, off))
        return ALL(*es)
    NI = ('br_ssl_engine_fail', 'make_ready_in')
    obs = [
        Ob(s, 'recvrec_ack', ICall('decrypt', ftype=r'^i8\* \(%struct\.br_sslrec_in_class_\*\*, i32, i32, i8\*, i64\*\)'), ('pin', 0),
           failed('BR_ERR_BAD_MAC', ('ixa', ixa), ('ixb', ixb)), ('pin', 'inttoptr (i64 4096 to i8*)'),
           'a record whose decryption/MAC check failed must close the engine and release no payload', rule=R, noinline=NI),
        Ob(s, 'recvrec_ack', ICall('check_length', ftype=r'^i32 \(%struct\.br_sslrec_in_class_\*\*, i64\)'), ('pin', 0),
           failed('BR_ERR_BAD_LENGTH', ('ixc', ixc)), ('pin', 1),
           'a record whose length the current mode refuses must close the engine before any payload byte is awaited', rule=R, noinline=NI),
    ]
    from .. import engio
    oblig.run_obligations(chk, obs + engio.reject_obligations(R))


def ordering(chk):
    """GCM: the tag is computed over the ciphertext: do_tag before do_ctr when decrypting, after it when encrypting"""
    R = 'gcm-tag-over-ciphertext'
    U = oblig.funit('src/ssl/ssl_rec_gcm.c')
    for fn, first, second in (('gcm_decrypt', 'do_tag', 'do_ctr'), ('gcm_encrypt', 'do_ctr', 'do_tag')):
        F = U.func(fn)
        a, b = F.calls(first), F.calls(second)
        inst = '%s: %s precedes %s' % (fn, first, second)
        if len(a) == 1 and len(b) == 1 and F.dominates(a[0]['id'], b[0]['id']) and a[0]['id'] != b[0]['id']:
            chk.ok(R, inst, F.where(a[0]))
        else:
            chk.violation(R, inst, F.where(), 'call order / count changed (%d, %d calls)' % (len(a), len(b)), key='%s %s' % (R, fn))


def dep_rules(chk):
    """acceptance must depend on everything TLS authenticates (RFC 5246 6.2.3.1 / 6.2.3.3): for each decrypt method the condition of
    the branch that guards the NULL return may-depends on seq, type, version, length, record bytes and the keys.  A missing atom is a
    definite independence: tampering with that input cannot be detected."""
    from .. import flow
    from ..flow import AV, BOT, Engine, Policy
    from .c08 import X, SEC, whole, fields
    R = 'acceptance-depends-on-authenticated-input'
    units = flow.all_units()
    modes = {
        'cbc': ('ssl__ssl_rec_cbc', 'cbc_decrypt', fields([(8, 16, 'seq'), (24, 408, 'key'), (424, 552, 'key')]),
                {((0,), 16): ['br_aes_ct_cbcdec_vtable'], ((0,), 416): ['br_sha1_vtable', 'br_sha256_vtable', 'br_sha384_vtable']}),
        'gcm': ('ssl__ssl_rec_gcm', 'gcm_decrypt', fields([(8, 16, 'seq'), (24, 264, 'key'), (280, 300, 'key')]),
                {((0,), 16): ['br_aes_ct_ctr_vtable'], ((0,), 272): ['F:br_ghash_ctmul']}),
        'ccm': ('ssl__ssl_rec_ccm', 'ccm_decrypt', fields([(8, 16, 'seq'), (24, 264, 'key'), (272, 276, 'key')]),
                {((0,), 16): ['br_aes_ct_ctrcbc_vtable']}),
        'chapol': ('ssl__ssl_rec_chapol', 'chapol_decrypt', fields([(8, 16, 'seq'), (16, 60, 'key')]),
                   {((0,), 64): ['F:br_chacha20_ct_run'], ((0,), 72): ['F:br_poly1305_ctmul_run']}),
    }
    atoms = ['seq', 'type', 'version', 'len', 'data', 'key']
    for mode, (un, fn, ctxf, prules) in modes.items():
        pol = Policy({(0,): ctxf, (3,): whole('data'), (4,): whole('len')}, nonct=())
        pol.ptr_rules = prules
        pol.keep_marks = True
        pol.public_results = ()
        eng = Engine(units, pol)
        if (un, fn) not in eng.unitfuncs:
            raise AnalysisBroken('%s not found' % fn)
        eng.funcs[fn] = (un, eng.unitfuncs[(un, fn)])
        eng.analyze(fn, [X(0), SEC('type'), SEC('version'), X(3), X(4)])
        F = irf.Func(units[un], eng.unitfuncs[(un, fn)])
        # branches of the method itself that guard a NULL return
        guard_labels = None
        for (f_, line, iid, what), (ctx, labels) in eng.alarms.items():
            if f_ != fn or what != 'branch' or ctx:
                continue
            br = F.insts[iid]
            for t in br['ops'][1:]:
                tb = next(b for b in F.blocks if b['id'] == t['v'])
                term = tb['insts'][-1]
                isnull = False
                if term['op'] == 'ret' and term['ops'] and term['ops'][0]['k'] == 'null':
                    isnull = True
                elif term['op'] == 'br' and len(term['ops']) == 1:
                    rb = next(b for b in F.blocks if b['id'] == term['ops'][0]['v'])
                    for i in rb['insts']:
                        if i['op'] == 'phi':
                            for o, inb in zip(i['ops'], i['inb']):
                                if inb == tb['id'] and o['k'] == 'null' and rb['insts'][-1]['op'] == 'ret':
                                    isnull = True
                if isnull:
                    guard_labels = set(labels) | (guard_labels or set())
        if guard_labels is None:
            raise AnalysisBroken('%s: the branch guarding the NULL return was not found / depends on nothing' % fn)
        for a in atoms:
            inst = '%s: acceptance of a record may depend on %s' % (fn, {'seq': 'the sequence number', 'type': 'the record type', 'version': 'the protocol version',
                                                                          'len': 'the record length', 'data': 'the record bytes (payload and tag)', 'key': 'the keys'}[a])
            if a in guard_labels:
                chk.ok(R, inst, 'src/ssl/ssl_rec_%s.c' % mode, 'labels reaching the accept test: %s' % sorted(guard_labels))
            else:
                chk.violation(R, inst, 'src/ssl/ssl_rec_%s.c' % mode,
                              'the accept/reject test of %s is independent of %s: that input is not authenticated (labels reaching it: %s)' % (fn, a, sorted(guard_labels)),
                              key='%s %s %s' % (R, fn, a))


def cbc_padding_range(chk):
    """TLS 1.0+ CBC padding (RFC 5246 6.2.3.2): every padding byte equals the padding length.  The constant-time check walks the
    whole window in which padding can lie, [min_len, max_len) *as used for the range test of pad_len*; those two variables are
    narrowed later (MAC extraction), so the loop must use the values of that first stage."""
    R = 'cbc-padding-checked-in-full'
    src = 'src/ssl/ssl_rec_cbc.c'
    u = build.load_unit(src)
    F = irf.Units({'u': u}).func('cbc_decrypt')
    if F is None:
        raise AnalysisBroken('cbc_decrypt vanished')
    from .. import sym
    names = sym.var_names(F)

    def nm(o, depth=0):
        if o['k'] not in ('i', 'a'):
            return None
        n_ = names.get((o['k'], o['v']))
        if n_ is None and o['k'] == 'i' and depth < 3 and F.insts[o['v']]['op'] in ('zext', 'sext', 'trunc'):
            return nm(F.insts[o['v']]['ops'][0], depth + 1)
        return n_
    les = [c for c in F.calls('GT') if nm(c['ops'][0]) == 'pad_len']      # LE(x, y) is the macro NOT(GT(x, y))
    inst = 'cbc_decrypt: the padding-content loop runs over [min_len, max_len) of the pad_len range test'
    if len(les) != 1:
        chk.violation(R, inst, F.where(), 'expected one LE(pad_len, max_len - min_len) test (a GT call), found %d' % len(les), key='%s le' % R)
        return
    rng = F.strip_casts(les[0]['ops'][1])
    if rng['k'] != 'i' or F.insts[rng['v']]['op'] != 'sub':
        raise AnalysisBroken('cbc_decrypt: range operand of LE is not a subtraction')
    A, B = F.insts[rng['v']]['ops']            # max_len, min_len
    eqs = [c for c in F.calls('EQ') if nm(c['ops'][1]) == 'pad_len' and F.block_of[c['id']] in F.loops_blocks()]
    if len(eqs) != 1:
        chk.violation(R, inst, F.where(), 'expected one EQ(buf[u], pad_len) inside a loop, found %d' % len(eqs), key='%s eq' % R)
        return
    # the induction variable: the index of buf[u]
    ld = F.strip_casts(eqs[0]['ops'][0])
    uvar = None
    if ld['k'] == 'i' and F.insts[ld['v']]['op'] == 'load':
        g = F.strip_casts(F.insts[ld['v']]['ops'][0])
        if g['k'] == 'i' and F.insts[g['v']]['op'] == 'getelementptr' and F.insts[g['v']].get('var'):
            uvar = F.strip_casts(F.insts[g['v']]['var'][0][0])
    if uvar is None or uvar['k'] != 'i' or F.insts[uvar['v']]['op'] != 'phi':
        raise AnalysisBroken('cbc_decrypt: induction variable of the padding loop not recognised')
    ph = F.insts[uvar['v']]
    init = [o for o, inb in zip(ph['ops'], ph['inb']) if not (o['k'] == 'i' and F.insts[o['v']]['op'] == 'add')]
    bound = None
    for i in F.insts.values():
        if i['op'] == 'icmp' and i['pred'] in ('ult', 'ne') and F.strip_casts(i['ops'][0]) == uvar:
            bound = F.strip_casts(i['ops'][1])
    okk = len(init) == 1 and F.strip_casts(init[0]) == F.strip_casts(B) and bound == F.strip_casts(A)
    if okk:
        chk.ok(R, inst, F.where(eqs[0]))
    else:
        chk.violation(R, inst, F.where(eqs[0]), 'the loop runs from %s to %s, the range test uses min_len = %s, max_len = %s: padding bytes outside the loop are never '
                      'compared with the padding length' % (init, bound, B, A), key='%s range' % R)


def cbc_padding_length_range(chk):
    """RFC 5246 6.2.3.2: the CBC padding length byte may take any value 0..255 that fits in the record (the sender may pad up to 255
    bytes to hide the length).  cbc_decrypt() accepts pad_len <= max_len - min_len: for a record long enough that bound must be 255,
    for a short one everything after the MAC.  Decided by partial evaluation with the record length and MAC length pinned: the constant
    the padding byte is compared with."""
    from .. import fold
    R = 'cbc-padding-length-range'
    src, fn = 'src/ssl/ssl_rec_cbc.c', 'cbc_decrypt'
    U = oblig.funit(src)
    if fn not in U.funcs:
        raise AnalysisBroken('%s vanished' % fn)
    F = U.func(fn)
    L = irf.Layouts(U.unit)
    ml, ei = L.field('br_sslrec_in_cbc_context', 'mac_len'), L.field('br_sslrec_in_cbc_context', 'explicit_IV')
    dl = [i for i in F.insts.values() if i['op'] == 'load' and F.addr_of(i['ops'][0]) == ({'k': 'a', 'v': 4}, 0)]
    if ml is None or ei is None or not dl:
        raise AnalysisBroken('%s: mac_len / explicit_IV / *data_len not identified' % fn)
    for ln, mac in ((1000, 20), (100, 20), (277, 20), (276, 20), (4096, 48), (64, 32)):
        hy = [dict(kind='pin', n=x['n'], value=ln) for x in dl] + [dict(kind='pin', n=x['n'], value=mac) for x in U.field_loads(fn, 0, ml[0], ml[1])] + \
             [dict(kind='pin', n=x['n'], value=0) for x in U.field_loads(fn, 0, ei[0], ei[1])]
        Fo = U.optimise(fn, hy, ('GT', 'EQ', 'LT', 'GE', 'MUX', 'NOT'))
        gts = sorted((c for c in fold._reach_insts(Fo) if c['op'] == 'call' and c.get('callee') == 'GT' and c['ops'][1]['k'] == 'c'), key=lambda c: c['id'])
        want = min(255, ln - 1 - mac)
        inst = '%s: a %d-byte plaintext block with a %d-byte MAC accepts padding length bytes 0..%d' % (fn, ln, mac, want)
        if gts and gts[0]['ops'][1]['v'] == want:
            chk.ok(R, inst, src)
        else:
            chk.violation(R, inst, src, 'the padding length byte is compared with %s: %s' % (gts[0]['ops'][1]['v'] if gts else 'nothing constant',
                          'records carrying the maximal padding a peer may legitimately send are rejected as BAD_MAC' if gts and gts[0]['ops'][1]['v'] < want else
                          'padding that cannot fit is accepted'), key='%s %d %d' % (R, ln, mac))


def run(tier):
    chk = report.Check('C02', tier,
                       'Static necessary conditions of "no forged, replayed or reordered record is delivered": in each of the 4 decrypt methods every '
                       'contribution to the accept/reject verdict (padding, MAC / tag comparison, plaintext length) is a conjunct of it and a '
                       'failed verdict returns NULL; the engine turns NULL into BR_ERR_BAD_MAC on every path and releases no payload; a length '
                       'refused by the mode closes the engine; the length gates admit only lengths the decrypt arithmetic can handle and at most '
                       '2^14 plaintext bytes; sequence numbers advance exactly once per record (shared with C20); GCM tags cover the ciphertext. '
                       'NOT decided: MAC/tag values, that every authenticated field really enters the MAC (needs the DEP engine), buffering arithmetic.',
                       trusted=['clang/opt 14', 'sa/oblig.py conjunct rule', 'debug-info variable names as site selectors'])
    oblig.run_conjuncts(chk, [
        ('src/ssl/ssl_rec_cbc.c', 'cbc_decrypt', 'good', 'and', 3, 'padding bytes, MAC bytes and the plaintext-length bound must all be conjuncts of the accept verdict'),
        ('src/ssl/ssl_rec_gcm.c', 'gcm_decrypt', 'bad', 'or', 1, 'every tag byte difference must force rejection'),
        ('src/ssl/ssl_rec_chapol.c', 'chapol_decrypt', 'bad', 'or', 1, 'every tag byte difference must force rejection'),
    ], 'decrypt-verdict-conjunct')
    oblig.run_obligations(chk, [
        Ob('src/ssl/ssl_rec_ccm.c', 'ccm_decrypt', Call('br_ccm_check_tag'), ('pin', 0), RET(0), ('pin', 1), 'a failed CCM tag check must reject the record',
           rule='decrypt-verdict-conjunct'),
    ])
    engine_rules(chk)
    cbc_padding_range(chk)
    length_gates(chk)
    ordering(chk)
    dep_rules(chk)
    c20.seq_rules(chk)
    chk.floor('rule instances', len(chk.obls), 40)
    # the CCM record layer delegates the tag verdict to br_ccm_check_tag (shared with C14): every tag byte must count
    from .c01 import explicit_nonce_from_record
    explicit_nonce_from_record(chk)       # a nonce taken from the receiver's own counter makes the explicit nonce bytes unauthenticated
    from .c14 import tag_compare_shape
    tag_compare_shape(chk, 'src/aead/ccm.c', 'br_ccm_check_tag', 'br_ccm_get_tag', 'get_tag()')
    from .. import lints
    lints.length_is_boolean(chk, ['src/ssl/ssl_rec', 'src/ssl/ssl_engine'])
    lints.word_codec_maps(chk, ['src/hash/ghash'], floor=2)   # the GCM record tag: every data word absorbed in its own state word
    # ChaCha20-Poly1305 records: every ciphertext bit must enter the authenticator at its own weight (shared with C12)
    cbc_padding_length_range(chk)
    from .c12 import poly1305_block_decoding
    poly1305_block_decoding(chk)
    # the whole 64-bit sequence number enters the MAC / AAD / nonce: a record cannot be replayed 2^32 records later (shared with C20)
    from .c20 import seq_encoding
    seq_encoding(chk)
    # AES-GCM records: every ciphertext byte enters GHASH (the pclmul tail staging; shared with C12)
    from .c12 import ghash_pclmul_tail
    ghash_pclmul_tail(chk)
    from .. import lints as _lints_ir
    _lints_ir.ignored_result_regression(chk, ['src/ssl/ssl_rec'])
    return chk.finish()
