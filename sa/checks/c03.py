"""C03 — no handshake completes over altered messages or an unauthenticated peer: static necessary conditions (DESIGN §4 C03)."""
from .. import build, report, oblig, irf, fold, t0, t0ai, t0rules
from ..oblig import Ob, Call, ICall, Var, RET, RET_NONZERO, RET_NEG, ALL, NOCALL, E
from ..build import AnalysisBroken

MAGIC = 23171        # distinctive non-zero value used for hypothesis pins


def t0_rules(chk, key):
    P = t0.Program(key)
    L = P.layouts
    cv = build.const_values(['BR_ERR_BAD_FINISHED', 'BR_ERR_BAD_SIGNATURE'])
    off_app = L.field(P.ctxname, 'eng.application_data')[0]
    # ---- semantic identification of compute-Finished / read-Finished
    cf = P.words_calling_native('compute-Finished-inner')
    if len(cf) != 1:
        raise AnalysisBroken('%s: %d words call compute-Finished-inner' % (key, len(cf)))
    rf = [w for w in P.words_calling_word(cf[0]) if w in P.words_calling_native('memcmp')]
    if len(rf) != 1:
        raise AnalysisBroken('%s: %d candidate read-Finished words' % (key, len(rf)))
    RF = rf[0]
    chk.count('%s read-Finished word' % key, RF)
    base = t0ai.Interp(P).run_entry()
    # ---- rule 1: application data is enabled only after a completed read-Finished
    R = 'finished-before-application-data'
    sites = {}
    for e in base.events:
        if e.name == 'set8' and e.args[1].isconst() and e.args[1].c == off_app:
            v = e.args[0]
            lo, hi = e.st.rng(v)
            odd_possible = not t0rules.is_even(v) and not (lo == hi and lo % 2 == 0)
            sites[(e.word, e.pc)] = (str(v), (lo, hi), odd_possible)
    if len(sites) < 3:
        raise AnalysisBroken('%s: only %d stores to application_data found' % (key, len(sites)))
    mc, gen = t0rules.must_call(P, RF, list(sites))
    n_odd = 0
    for (w, pc), (vs, rg, odd) in sorted(sites.items()):
        inst = '%s W%d@%d: application_data := %s' % (key, w, pc, vs)
        if not odd:
            chk.ok(R, inst + ' (bit 0 clear: does not enable application data)', P.src, 'value range %s' % (rg,), nontrivial=False)
            continue
        n_odd += 1
        if mc[(w, pc)]:
            chk.ok(R, inst + ' is preceded by a completed read-Finished on every path from the entry word', P.src)
        else:
            chk.violation(R, inst, P.src, 'application data can be enabled on a path that has not verified the peer\'s Finished message',
                          key='%s %s set-app-data' % (R, key))
    if n_odd < 1:
        raise AnalysisBroken('%s: no site enables application data' % key)
    # ---- rule 2: a Finished mismatch fails
    R = 'finished-mismatch-fails'
    for pinv, label in ((0, 'mismatch'),):
        I = t0ai.Interp(P, pins={'memcmp': pinv}).run_entry()
        fe = [e for e in I.events if e.name == 'fail' and e.word == RF and e.args[0].isconst() and e.args[0].c == cv['BR_ERR_BAD_FINISHED']]
        inst = '%s: read-Finished (W%d): memcmp reports a mismatch => fail(BR_ERR_BAD_FINISHED), never returns' % (key, RF)
        okk = bool(fe)
        det = ''
        if okk:
            g = t0rules.guard_before(P, RF, fe[0].pc)
            outs = I.branches.get((RF, g.pc)) if g else None
            okk = g is not None and outs == {'fall'}
            det = 'guard at %s outcomes %s' % (g.pc if g else None, outs)
            # and the word does not return under the hypothesis
            rets = [k for k, (ins, out) in I.memo.items() if k[0] == RF and out]
            if rets:
                okk = False
                det += '; the word still returns'
        if okk:
            chk.ok(R, inst, P.src, det)
        else:
            chk.violation(R, inst, P.src, 'under the hypothesis memcmp -> mismatch: %s' % (det or 'no fail(BR_ERR_BAD_FINISHED) is reached'),
                          key='%s %s' % (R, key))
    I1 = t0ai.Interp(P, pins={'memcmp': -1}).run_entry()
    rets = [k for k, (ins, out) in I1.memo.items() if k[0] == RF and out]
    if not rets:
        raise AnalysisBroken('%s: negative control: read-Finished does not return even when memcmp reports equality' % key)
    # ---- rule 3: the Finished is read under the new keys: switch-encryption(input) precedes read-Finished in its caller
    R = 'ccs-before-finished'
    swin = set()
    for nm in P.natives.values():
        if nm.startswith('switch-') and nm.endswith('-in'):
            swin |= set(P.words_calling_native(nm))
    reach_sw = set(swin)
    ch = True
    while ch:
        ch = False
        for w in P.words:
            if w not in reach_sw and any(i.kind == 'call' and i.arg in reach_sw for i in P.words[w].ins.values()):
                reach_sw.add(w)
                ch = True
    callers = P.words_calling_word(RF)
    n = 0
    for c in callers:
        W = P.words[c]
        pcs = list(W.ins)
        for pc in pcs:
            i = W.ins[pc]
            if i.kind == 'call' and i.arg == RF:
                n += 1
                # every path from the word's entry to this call passes through a call that reaches a switch-*-in native
                cut = set(q for q in pcs if W.ins[q].kind == 'call' and W.ins[q].arg in reach_sw)
                seen = set()
                st = [W.start]
                reached = False
                while st:
                    q = st.pop()
                    if q in seen or q in cut:
                        continue
                    seen.add(q)
                    if q == pc:
                        reached = True
                        break
                    st.extend(W.succs(W.ins[q]))
                inst = '%s W%d: input encryption is switched before read-Finished' % (key, c)
                if cut and not reached:
                    chk.ok(R, inst, P.src)
                else:
                    chk.violation(R, inst, P.src, 'read-Finished is reachable without passing through a call that reaches a switch-*-in native', key='%s %s W%d' % (R, key, c))
    if n < 1:
        raise AnalysisBroken('%s: read-Finished has no caller' % key)
    # ---- rule 4: verification natives whose failure must stop the handshake
    R = 'verification-result-fails'
    vn = {'hs_client': ['verify-SKE-sig'], 'hs_server': ['verify-CV-sig']}[key]
    for nat in vn:
        if P.native_id(nat) is None:
            raise AnalysisBroken('%s: native %s not found' % (key, nat))
        I = t0ai.Interp(P, pins={nat: MAGIC}).run_entry()
        fe = [e for e in I.events if e.name == 'fail' and e.args[0].isconst() and e.args[0].c == MAGIC]
        inst = '%s: a non-zero %s result is raised as the handshake error' % (key, nat)
        okk = bool(fe)
        det = 'no fail with the native\'s result'
        if okk:
            g = t0rules.guard_before(P, fe[0].word, fe[0].pc)
            outs = I.branches.get((fe[0].word, g.pc)) if g else None
            okk = g is not None and len(outs or ()) == 1
            det = 'guard at W%d@%s outcomes %s' % (fe[0].word, g.pc if g else None, outs)
        if okk:
            chk.ok(R, inst, P.src, det)
        else:
            chk.violation(R, inst, P.src, det, key='%s %s %s' % (R, key, nat))
    # ---- rule 5: a failed certificate validation stops the handshake (server: unless exactly BR_OPT_TOLERATE_NO_CLIENT_AUTH is set)
    R = 'certificate-verdict-fails'
    off_flags = L.field(P.ctxname, 'eng.flags')[0]
    tol = build.const_values(['BR_OPT_TOLERATE_NO_CLIENT_AUTH'])['BR_OPT_TOLERATE_NO_CLIENT_AUTH']
    allbut = 0x7FFFFFFF & ~tol

    def forced(fr):
        I = t0ai.Interp(P, pins={'x509-end-chain': MAGIC}, field_ranges=fr, split_rets=True)
        I.magic = MAGIC
        I.run_entry()
        fe = [e for e in I.events if e.name == 'fail' and e.args[0].isconst() and abs(e.args[0].c) == MAGIC]
        if not fe:
            return False, 'no fail carrying the validation error is reachable'
        bad = []
        for e in fe:
            # every conditional jump between the native and this fail that could skip it must be one-sided
            g = t0rules.guard_before(P, e.word, e.pc)
            outs = I.branches_magic.get((e.word, g.pc)) if g else None
            if g is None or len(outs or ()) != 1:
                bad.append('W%d@%d guard outcomes %s' % (e.word, e.pc, outs))
        # and no word that saw the pinned verdict continues past the check: the x509-end-chain caller chain never returns the error silently
        return (not bad), ('; '.join(bad) or 'fail(error) is the only continuation at %d site(s)' % len(fe))
    if key == 'hs_client':
        okk, det = forced({off_flags: (0x7FFFFFFF, 0x7FFFFFFF)})
        inst = 'hs_client: a non-zero x509-end-chain verdict always ends in fail(verdict), whatever option flags are set'
        (chk.ok if okk else chk.violation)(R, inst, P.src, det, **({} if okk else {'key': '%s client' % R}))
    else:
        okk, det = forced({off_flags: (allbut, allbut)})
        inst = 'hs_server: a non-zero x509-end-chain verdict ends in fail(verdict) when BR_OPT_TOLERATE_NO_CLIENT_AUTH is clear (all other options set)'
        (chk.ok if okk else chk.violation)(R, inst, P.src, det, **({} if okk else {'key': '%s server' % R}))
        ok2, det2 = forced({off_flags: (tol, tol)})
        if ok2 and okk:
            raise AnalysisBroken('hs_server: negative control: the verdict is fatal even with BR_OPT_TOLERATE_NO_CLIENT_AUTH set; rule is vacuous')
        if ok2 and not okk:
            chk.violation(R, 'hs_server: BR_OPT_TOLERATE_NO_CLIENT_AUTH (and only it) tolerates a failed client certificate', P.src,
                          'with exactly that option set the failed validation is still fatal, while other options tolerate it: the wrong flag is tested',
                          key='%s server wrong-flag' % R)
    return P, base


def failed_keyx_randomised(chk):
    """server: a failed key exchange is replaced by DRBG output drawn unconditionally, under a control word derived from the verdict (shared with C08:
    a draw that happens only on failure is a branch on the secret padding / point validity)"""
    s = 'src/ssl/ssl_hs_server.c'
    # server: failed key exchange must replace the premaster by random bytes (control word of br_ccopy derives from the verdict)
    R = 'failed-keyx-randomised'
    U = oblig.funit(s)
    for fn, verdict in (('do_rsa_decrypt', 'x'), ('ecdh_common', 'ctl')):
        F = U.func(fn)
        cc = F.calls('br_ccopy')
        gen = F.calls('br_hmac_drbg_generate')
        cm = F.calls('br_ssl_engine_compute_master')
        inst = '%s: br_ccopy(%s ^ 1, secret, random) between the DRBG draw and compute_master' % (fn, verdict)
        okk = len(cc) == 1 and len(gen) == 1 and len(cm) == 1 and F.dominates(gen[0]['id'], cc[0]['id']) and F.dominates(cc[0]['id'], cm[0]['id'])
        det = ''
        if okk:
            ctl = F.strip_casts(cc[0]['ops'][0])
            okk = ctl['k'] == 'i' and F.insts[ctl['v']]['op'] == 'xor' and any(o == {'k': 'c', 'v': 1, 'w': 32} for o in F.insts[ctl['v']]['ops'])
            det = 'control word is %s' % (F.insts[ctl['v']]['op'] if ctl['k'] == 'i' else ctl)
            # the buffer handed to compute_master is the br_ccopy destination, the source is the DRBG output
            okk = okk and F.addr_of(cc[0]['ops'][1])[0] == F.addr_of(cm[0]['ops'][2])[0] and F.addr_of(cc[0]['ops'][2])[0] == F.addr_of(gen[0]['ops'][1])[0]
        if okk:
            chk.ok(R, inst, F.where(cc[0]), det)
        else:
            chk.violation(R, inst, F.where(), 'shape changed: %d ccopy / %d drbg / %d compute_master; %s' % (len(cc), len(gen), len(cm), det), key='%s %s' % (R, fn))


def c_helpers(chk):
    R = 'handshake-helper-rejects'
    c = 'src/ssl/ssl_hs_client.c'
    s = 'src/ssl/ssl_hs_server.c'
    obs = [
        # client: ServerKeyExchange signature
        Ob(c, 'verify_SKE_sig', ICall('irsavrfy', ftype=r'^i32 \(i8\*, i64, i8\*, i64, %struct\.br_rsa_public_key\*, i8\*\)'), ('pin', 0), RET_NONZERO(), ('pin', 1),
           'RSA verification failure of the ServerKeyExchange signature', rule=R),
        Ob(c, 'verify_SKE_sig', Call('memcmp'), ('pin', 1), RET_NONZERO(), ('pin', 0), 'hash mismatch in the RSA ServerKeyExchange signature', rule=R),
        Ob(c, 'verify_SKE_sig', Call('memcmp'), ('pin', -1), RET_NONZERO(), None, 'hash mismatch in the RSA ServerKeyExchange signature', rule=R),
        Ob(c, 'verify_SKE_sig', ICall('iecdsa', ftype=r'^i32 \(%struct\.br_ec_impl\*, i8\*, i64, %struct\.br_ec_public_key\*, i8\*, i64\)'), ('pin', 0), RET_NONZERO(), ('pin', 1),
           'ECDSA verification failure of the ServerKeyExchange signature', rule=R),
        Ob(c, 'verify_SKE_sig', Call('br_multihash_out'), ('pin', 0), RET_NONZERO(), None, 'unsupported hash function', rule=R, min_sites=3, together=True),
        # client: key exchange
        Ob(c, 'make_pms_ecdh', ICall('mul', ftype=r'^i32 \(i8\*, i64, i8\*, i64, i32\)'), ('pin', 0), RET_NEG(), ('pin', 1), 'invalid server point', rule=R),
        Ob(c, 'make_pms_rsa', ICall('irsapub', ftype=r'^i32 \(i8\*, i64, %struct\.br_rsa_public_key\*\)'), ('pin', 0), RET_NEG(), ('pin', 1), 'RSA encryption failure', rule=R),
        Ob(c, 'make_pms_rsa', Var('nlen', 'loopexit'), ('assume', 'ult', 59), RET_NEG(), ('assume', 'eq', 256), 'server RSA key too small for the premaster', rule=R),
        # server: CertificateVerify
        Ob(s, 'verify_CV_sig', ICall('irsavrfy', ftype=r'^i32 \(i8\*, i64, i8\*, i64, %struct\.br_rsa_public_key\*, i8\*\)'), ('pin', 0), RET_NONZERO(), ('pin', 1),
           'RSA verification failure of CertificateVerify', rule=R),
        Ob(s, 'verify_CV_sig', Call('memcmp'), ('pin', 1), RET_NONZERO(), ('pin', 0), 'hash mismatch in CertificateVerify', rule=R),
        Ob(s, 'verify_CV_sig', Call('memcmp'), ('pin', -1), RET_NONZERO(), None, 'hash mismatch in CertificateVerify', rule=R),
        Ob(s, 'verify_CV_sig', ICall('iecdsa', ftype=r'^i32 \(%struct\.br_ec_impl\*, i8\*, i64, %struct\.br_ec_public_key\*, i8\*, i64\)'), ('pin', 0), RET_NONZERO(), ('pin', 1),
           'ECDSA verification failure of CertificateVerify', rule=R),
    ]
    oblig.run_obligations(chk, obs)
    failed_keyx_randomised(chk)
    U = oblig.funit(s)
    # anti-rollback: the version written into the decrypted premaster is the client's offered maximum
    F = U.func('do_rsa_decrypt')
    L = irf.Layouts(U.unit)
    off = L.field('br_ssl_server_context', 'client_max_version')[0]
    enc = F.calls('br_enc16be')
    inst = 'do_rsa_decrypt: premaster version bytes := client_max_version (RFC 5246 7.4.7.1)'
    okk = False
    for e in enc:
        v = F.strip_casts(e['ops'][1])
        if v['k'] == 'i' and F.insts[v['v']]['op'] == 'load' and F.addr_of(F.insts[v['v']]['ops'][0]) == ({'k': 'a', 'v': 0}, off):
            okk = True
    if okk:
        chk.ok(R, inst, F.where())
    else:
        chk.violation(R, inst, F.where(), 'the version check against rollback is not applied to the decrypted premaster', key='%s rollback' % R)


def key_usage_rules(chk):
    """the key type / usages the X.509 engine reports must fit the cipher suite (client) or the way the client key is used (server).
    Decided by constant propagation through the bytecode: key-type word per registry suite; outcome of the usage test for every
    (key exchange class, reported type+usage) combination."""
    from .c01 import IANA, params
    R = 'key-type-fits-suite'
    cv = build.const_values(['BR_ERR_WRONG_KEY_USAGE', 'BR_KEYTYPE_RSA', 'BR_KEYTYPE_EC', 'BR_KEYTYPE_KEYX', 'BR_KEYTYPE_SIGN'])
    WKU, RSA, EC, KEYX, SIGN = (cv[k] for k in ('BR_ERR_WRONG_KEY_USAGE', 'BR_KEYTYPE_RSA', 'BR_KEYTYPE_EC', 'BR_KEYTYPE_KEYX', 'BR_KEYTYPE_SIGN'))
    KTS = [t | u for t in (RSA, EC) for u in (KEYX, SIGN, KEYX | SIGN)]
    # RFC 5246 7.4.2 / RFC 4492 2: what the server certificate's key must be and allow, per key exchange
    WANT = {0: RSA | KEYX, 1: RSA | SIGN, 2: EC | SIGN, 3: EC | KEYX, 4: EC | KEYX}

    def ktname(k):
        return ('RSA' if k & 15 == RSA else 'EC') + '|' + '+'.join(n for n, b in (('KEYX', KEYX), ('SIGN', SIGN)) if k & b)

    def wku_sites(P):
        I = t0ai.Interp(P).run_entry()
        return sorted(set((e.word, e.pc) for e in I.events if e.name == 'fail' and e.args[0].isconst() and e.args[0].c == WKU))

    def outcome(I, w, pc):
        """'fail' if the usage failure at (w, pc) is the only continuation in this run, 'pass' if it is unreachable, else 'both'"""
        hit = any(e.name == 'fail' and e.word == w and e.pc == pc for e in I.events)
        g = t0rules.guard_before(I.p, w, pc)
        outs = I.branches.get((w, g.pc)) if g else None
        if not hit:
            return 'pass' if outs else 'unreached'
        return 'fail' if outs is not None and len(outs) == 1 else 'both'

    # ---------------- client
    P = t0.Program('hs_client')
    L = P.layouts
    off_cs = L.field(P.ctxname, 'eng.session.cipher_suite')[0]
    sites = wku_sites(P)
    if len(sites) != 1:
        raise AnalysisBroken('hs_client: expected one fail(BR_ERR_WRONG_KEY_USAGE) site, found %s' % (sites,))
    WRC, pcf = sites[0]
    W = P.words[WRC]
    seq = list(W.ins.values())
    g16 = next((k for k, i in enumerate(seq) if i.kind == 'native' and i.name == 'get16'), None)
    if g16 is None or g16 + 1 >= len(seq) or seq[g16 + 1].kind != 'call':
        raise AnalysisBroken('hs_client: word W%d does not look like read-Certificate-from-server (cipher_suite get16 <word>)' % WRC)
    EKT = seq[g16 + 1].arg          # the word applied to the negotiated suite: suite -> expected key type
    n = 0
    for sid in sorted(IANA):
        kx = params(IANA[sid])['kx']
        I = t0ai.Interp(P)
        I.unroll_concrete = True
        st = t0ai.St()
        st.stack = [t0ai.E({}, sid)]
        out = I.run_word(EKT, st, ())
        got = None
        if out:
            vals = set()
            for o_ in out:
                vals.add(o_.rng(o_.stack[-1]) if o_.stack else None)
            if len(vals) == 1 and None not in vals:
                lo, hi = next(iter(vals))
                got = lo if lo == hi else (lo, hi)
            else:
                got = sorted(vals, key=str)
        inst = 'hs_client: server key expected for %04X %s is %s' % (sid, IANA[sid], ktname(WANT[kx]))
        n += 1
        if got == WANT[kx]:
            chk.ok(R, inst, P.src)
        else:
            chk.violation(R, inst, P.src, 'the bytecode word W%d yields %s (%s) for this suite: a certificate whose key type or usage does not fit the '
                          'key exchange would be accepted / a fitting one refused' % (EKT, got, ktname(got) if isinstance(got, int) and got & 15 in (RSA, EC) else '?'),
                          key='%s client expected %04X' % (R, sid))
    # usage test: one representative suite per key exchange class, all reported (type, usage) combinations
    reps = {}
    for sid in sorted(IANA):
        reps.setdefault(params(IANA[sid])['kx'], sid)
    for kx, sid in sorted(reps.items()):
        for kt in KTS:
            I = t0ai.Interp(P, pins={'get-key-type-usages': kt, 'x509-end-chain': 0}, field_ranges={off_cs: (sid, sid)}, split_rets=True)
            I.unroll_concrete = True
            st = t0ai.St()
            I.run_word(WRC, st, ())
            oc = outcome(I, WRC, pcf)
            want = 'pass' if (kt & WANT[kx]) == WANT[kx] else 'fail'
            inst = 'hs_client: suite %04X (%s), validated server key %s => %s' % (sid, IANA[sid].split('_WITH_')[0], ktname(kt),
                                                                                   'accepted' if want == 'pass' else 'fail(BR_ERR_WRONG_KEY_USAGE)')
            if oc == want:
                chk.ok(R, inst, P.src)
            else:
                chk.violation(R, inst, P.src, 'outcome of the usage test under these constants: %s' % oc, key='%s client %d %d' % (R, kx, kt))
    # ---------------- server: the client key must allow signatures for CertificateVerify, and be EC with key exchange for static ECDH
    P = t0.Program('hs_server')
    sites = wku_sites(P)
    if len(sites) != 2:
        raise AnalysisBroken('hs_server: expected two fail(BR_ERR_WRONG_KEY_USAGE) sites, found %s' % (sites,))
    cvw = set(P.words_calling_native('verify-CV-sig'))
    for (w, pcf) in sites:
        # does the word reach the CertificateVerify verification?
        reach, stack = set(), [w]
        while stack:
            x = stack.pop()
            if x in reach:
                continue
            reach.add(x)
            stack.extend(i.arg for i in P.words[x].ins.values() if i.kind == 'call')
        is_cv = bool(reach & cvw)
        for kt in KTS:
            I = t0ai.Interp(P)
            st = t0ai.St()
            st.stack = [t0ai.E({}, kt)]
            I.run_word(w, st, ())
            oc = outcome(I, w, pcf)
            if is_cv:
                want = 'pass' if kt & SIGN else 'fail'
                what = 'CertificateVerify needs a signing key'
            else:
                want = 'pass' if (kt & 15) == EC and kt & KEYX else 'fail'
                what = 'static ECDH needs an EC key allowing key exchange'
            inst = 'hs_server W%d (%s): client key %s => %s' % (w, what, ktname(kt), 'accepted' if want == 'pass' else 'fail(BR_ERR_WRONG_KEY_USAGE)')
            if oc == want:
                chk.ok(R, inst, P.src)
            else:
                chk.violation(R, inst, P.src, 'outcome of the usage test under these constants: %s' % oc, key='%s server W%d %d' % (R, w, kt))
    chk.floor('suites with a verified expected key type', n, 40)


def resumption_rules(chk):
    """RFC 5246 7.4.1.3 / F.1.4: an empty session_id in the ServerHello means "not resumable"; the client may take the abbreviated
    handshake (no Certificate, no key exchange) only when the server echoes the non-empty ID the client offered."""
    R = 'resumption-needs-session-id'
    P = t0.Program('hs_client')
    L = P.layouts
    o_sid = L.field(P.ctxname, 'eng.session.session_id')[0]
    o_pad = L.field(P.ctxname, 'eng.pad')[0]
    I = t0ai.Interp(P).run_entry()
    cm = [e for e in I.events if e.name == 'memcmp' and {a.c for a in e.args[:2] if a.isconst()} == {o_sid, o_pad}]
    inst = 'hs_client: the offered session ID is compared with the ServerHello ID over a non-zero length'
    if not cm:
        chk.violation(R, inst, P.src, 'no comparison of session_id with the received ID found', key='%s none' % R)
        return
    for e in cm:
        lo, hi = e.st.rng(e.args[2])
        if lo >= 1 and hi <= 32:
            chk.ok(R, inst, P.src, 'W%d@%d length in [%d, %d]' % (e.word, e.pc, lo, hi))
        else:
            chk.violation(R, inst, P.src, 'W%d@%d: the compared length ranges over [%s, %s]: with length 0 the comparison succeeds vacuously and a server that '
                          'sends an empty session ID makes the client resume (skipping Certificate and key exchange) under the stale master secret'
                          % (e.word, e.pc, lo, hi), key='%s len' % R)


def session_invalidation(chk):
    """RFC 5246 7.2.2 / F.1.4: a connection that ends with a fatal error invalidates its session -- it must not be offered for
    resumption.  Here the client stores the server-chosen session ID, version and suite as soon as it parses the ServerHello, i.e.
    before the server is authenticated and before a master secret exists, so a handshake that then fails leaves a "session" whose
    ID the peer chose and whose master secret is stale (all-zero in a fresh context).  Necessary condition decided here: the single
    funnel of all failures, br_ssl_engine_fail(), clears session.session_id_len whenever it records a non-zero error."""
    from ..oblig import Var, FieldLoad
    R = 'failure-invalidates-session'
    s = 'src/ssl/ssl_engine.c'
    U = oblig.funit(s)
    L = irf.Layouts(U.unit)
    o_len = L.field('br_ssl_engine_context', 'session.session_id_len')[0]
    o_io = L.field('br_ssl_engine_context', 'iomode')[0]
    cv = build.const_values(['BR_IO_INOUT'])

    def pred(F, i):
        if i['op'] != 'store':
            return False
        b, o = F.addr_of(i['ops'][1])
        return b == {'k': 'a', 'v': 0} and o == o_len and i['ops'][0]['k'] == 'c' and i['ops'][0]['v'] == 0
    st0 = E(fold.expect_on_all_paths_from_entry, 'session.session_id_len := 0 on every path', pred, 'a store of 0 to session.session_id_len')
    oblig.run_obligations(chk, [
        Ob(s, 'br_ssl_engine_fail', Var('err', 'param'), ('assume', 'ne', 0), st0, None,
           'an engine that records a non-zero error must forget the session ID: a later br_ssl_client_reset(.., resume = 1) would otherwise offer an ID chosen by an '
           'unauthenticated peer and resume it under a master secret that was never negotiated', rule=R,
           extra_hyps=[(FieldLoad(0, o_io, 'iomode'), ('pin', cv['BR_IO_INOUT']))]),
    ])
    # orderly closure (error code 0) must keep the session resumable
    F = U.optimise('br_ssl_engine_fail', [dict(kind='assume', n=U.func('br_ssl_engine_fail').f['params'][1]['n'], ty='i32', pred='eq', value=0, param=True)], ())
    inst = 'br_ssl_engine_fail(0) (orderly closure) keeps the session ID'
    if any(pred(F, i) for i in fold._reach_insts(F)):
        chk.violation(R, inst, s, 'the session is invalidated on orderly closure too: resumption can never happen', key='%s closure' % R)
    else:
        chk.ok(R, inst, s)


def hash_compare_shape(chk, src, fn, rule='signature-hash-compare'):
    """PKCS#1 v1.5 verification through the `irsavrfy` callback returns the hash value found in the signature; the caller compares it
    with the hash it computed.  The comparison must span exactly the hash length that was handed to the callback, and one operand must
    be the callback's output buffer."""
    U = oblig.funit(src)
    F = U.func(fn)
    rsa_t = r'^i32 \(i8\*, i64, i8\*, i64, %struct\.br_rsa_public_key\*, i8\*\)'
    vs = U.call_sites(fn, ftype=rsa_t)
    cm = [c for c in F.calls() if (c.get('callee') or '') in ('memcmp', 'memcmp_P')]
    inst = '%s: the recovered hash is compared with the computed one over the full hash length' % fn
    if len(vs) != 1 or not cm:
        chk.violation(rule, inst, F.where(), 'shape changed: %d RSA verification callbacks, %d memcmp' % (len(vs), len(cm)), key='%s %s shape' % (rule, fn))
        return
    v = vs[0]
    hl = F.strip_casts(v['ops'][3])
    outb = F.addr_of(v['ops'][5])[0]
    okk = False
    det = []
    for c in cm:
        ln = F.strip_casts(c['ops'][2])
        bases = [F.addr_of(c['ops'][0])[0], F.addr_of(c['ops'][1])[0]]
        same_len = ln == hl
        if not same_len and ln['k'] == 'i' and hl['k'] == 'i':
            a, b = F.insts[ln['v']], F.insts[hl['v']]
            same_len = a['op'] == 'load' and b['op'] == 'load' and F.addr_of(a['ops'][0]) == F.addr_of(b['ops'][0]) and F.addr_of(a['ops'][0])[1] is not None
        det.append('memcmp at line %s: length %s the hash length, %s the callback output' % (c.get('line'), 'is' if same_len else 'is NOT', 'uses' if outb in bases else 'does not use'))
        if same_len and outb in bases:
            okk = True
    if okk:
        chk.ok(rule, inst, F.where(cm[0]), '; '.join(det))
    else:
        chk.violation(rule, inst, F.where(cm[0]), '; '.join(det), key='%s %s' % (rule, fn))


def server_choice_was_offered(chk):
    """RFC 5246 7.4.1.3: the cipher suite in the ServerHello is one of those the client listed.  The client must check the chosen suite
    against the list it *sent* (the configured suites, eng.suites_buf / suites_num), not merely against what the library implements:
    a suite the application removed (3DES, RSA key exchange, ...) could otherwise be imposed by the server.  Bytecode rule: in the word
    that reads the ServerHello, the test guarding fail(BR_ERR_BAD_CIPHER_SUITE) right after the suite is read calls a word that
    (transitively) reads the configured suite list."""
    R = 'server-choice-was-offered'
    P = t0.Program('hs_client')
    cv = build.const_values(['BR_ERR_BAD_CIPHER_SUITE'])
    offs = set()
    for f in ('eng.suites_buf', 'eng.suites_num'):
        offs.add(P.layouts.field(P.ctxname, f)[0])

    def val(x):
        return x.arg if x.kind == 'const' else P.const_word_value(x.arg) if x.kind == 'call' else None

    def reads_list(w, seen=None):
        seen = seen if seen is not None else set()
        if w in seen or w not in P.words:
            return False
        seen.add(w)
        for x in P.words[w].ins.values():
            if val(x) in offs:
                return True
            if x.kind == 'call' and P.const_word_value(x.arg) is None and reads_list(x.arg, seen):
                return True
        return False
    sites = []
    for w, W in P.words.items():
        l = list(W.ins.values())
        for k, i in enumerate(l):
            if val(i) == cv['BR_ERR_BAD_CIPHER_SUITE'] and k + 1 < len(l) and l[k + 1].kind == 'native' and l[k + 1].name == 'fail':
                # the guard: ... call(checker) [call(0<)] jumpif(not) <const fail>
                j = k - 1
                if j >= 0 and l[j].kind in ('jumpif', 'jumpifnot'):
                    calls = [x for x in l[max(0, j - 3):j] if x.kind == 'call' and P.const_word_value(x.arg) is None]
                    sites.append((w, i.pc, calls))
    # the ServerHello word: the first such site that follows a 16-bit read of the suite (dup before the checker)
    first = [s_ for s_ in sites if s_[2]]
    if not first:
        raise AnalysisBroken('hs_client: no guarded fail(BR_ERR_BAD_CIPHER_SUITE) found')
    w, pc, calls = min(first, key=lambda t: t[1])
    inst = 'hs_client W%d pc %d: the suite chosen by the server is looked up in the configured (offered) suite list' % (w, pc)
    if any(reads_list(c.arg) for c in calls):
        chk.ok(R, inst, P.src)
    else:
        chk.violation(R, inst, P.src, 'none of the words called by the guard (%s) reads eng.suites_buf / suites_num: a suite that was not offered is accepted if the '
                      'library merely implements it' % [c.arg for c in calls], key=R)


def fallback_scsv(chk):
    """RFC 7507 section 3: if the ClientHello lists TLS_FALLBACK_SCSV (0x5600) and the highest version the server supports is higher
    than ClientHello.client_version, the server MUST answer with a fatal inappropriate_fallback alert (86) - unless the client
    version is below the server's minimum, where protocol_version applies.  The bytecode that handles suite 0x5600 is cut out of the
    ClientHello word and evaluated by constant propagation for every (client max V, server min m, server max M) over
    TLS 1.0 .. 1.2: the client-version local must be turned into the marker (a negative value) exactly when m <= V < M, and the
    marker is later consumed by a `0<` test that leads to fail-alert 86."""
    import collections
    R = 'fallback-scsv-refused'
    P = t0.Program('hs_server')
    o_min = P.layouts.field(P.ctxname, 'eng.version_min')[0]
    o_max = P.layouts.field(P.ctxname, 'eng.version_max')[0]
    site = None
    for w, W in P.words.items():
        l = list(W.ins.values())
        for k, i in enumerate(l):
            if i.kind == 'const' and i.arg == 0x5600 and k + 2 < len(l) and l[k + 1].kind == 'native' and l[k + 1].name == '=' and l[k + 2].kind == 'jumpifnot':
                site = (W, l[k + 2].next, l[k + 2].arg)
    if site is None:
        chk.violation(R, 'hs_server: TLS_FALLBACK_SCSV is recognised in the ClientHello suite list', P.src, 'no comparison of a suite with 0x5600 is left', key='%s none' % R)
        return
    W, a, b = site
    body = [i for pc, i in W.ins.items() if a <= pc < b]
    loc = [i.arg for i in body if i.kind in ('getlocal', 'putlocal')]
    if not body or not loc or len(set(loc)) != 1:
        raise AnalysisBroken('hs_server: the 0x5600 branch does not work on one local (%s)' % sorted(set(loc)))
    k = loc[0]
    # consumer of the marker
    def is_neg_test(x):
        if x.kind == 'native':
            return x.name == '0<'
        if x.kind == 'call':
            b_ = [(q.kind, q.name if q.kind == 'native' else q.arg) for q in P.words[x.arg].ins.values()]
            return b_ == [('const', 0), ('native', '<'), ('ret', None)]
        return False
    l = list(W.ins.values())
    cons = False
    for j, i in enumerate(l):
        if i.kind == 'getlocal' and i.arg == k and j + 2 < len(l) and is_neg_test(l[j + 1]) and l[j + 2].kind == 'jumpifnot':
            seg = [x for x in l if l[j + 2].next <= x.pc < l[j + 2].arg]
            if any(x.kind == 'const' and x.arg == 86 for x in seg):
                cons = True
    inst = 'hs_server W%d: a negative client-version marker leads to alert 86 (inappropriate_fallback)' % W.id
    if cons:
        chk.ok(R, inst, P.src)
    else:
        chk.violation(R, inst, P.src, 'no `0<` test of local %d guarding a fail-alert 86' % k, key='%s consumer' % R)
    # the branch itself, evaluated on the version grid
    BIG = 1 << 20
    for V in (0x0301, 0x0302, 0x0303):
        for m in (0x0301, 0x0302, 0x0303):
            for M in (0x0301, 0x0302, 0x0303):
                if m > M or V < m:
                    continue
                ins = collections.OrderedDict()
                ins[BIG] = t0.Ins(BIG, 'const', V, BIG + 1)
                ins[BIG + 1] = t0.Ins(BIG + 1, 'putlocal', k, a)
                for i in body:
                    ins[i.pc] = i
                ins[b] = t0.Ins(b, 'getlocal', k, BIG + 2)
                ins[BIG + 2] = t0.Ins(BIG + 2, 'ret', None, BIG + 3)
                wid = max(P.words) + 1
                P.words[wid] = t0.Word(wid, W.nloc, ins)
                try:
                    I = t0ai.Interp(P, field_ranges={o_min: (m, m), o_max: (M, M)})
                    st = t0ai.St()
                    outs = I.run_word(wid, st, ())
                finally:
                    del P.words[wid]
                vals = set()
                for o in outs or []:
                    vals.add(o.rng(o.stack[-1]))
                want_mark = V < M
                inst = 'hs_server: FALLBACK_SCSV with client max %#06x, server range %#06x..%#06x => %s' % (V, m, M, 'refused' if want_mark else 'accepted')
                okk = bool(vals) and all((hi < 0) if want_mark else (lo == hi == V) for lo, hi in vals)
                if okk:
                    chk.ok(R, inst, P.src)
                else:
                    chk.violation(R, inst, P.src, 'the client-version local is %s after the 0x5600 branch: %s' % (
                        sorted(vals), 'the downgrade is not marked, the handshake continues at the lower version' if want_mark else
                        'a client that is not downgrading is refused'), key='%s %x %x %x' % (R, V, m, M))


def certificate_verify_hash(chk):
    """CertificateVerify (RFC 5246 7.4.8): with TLS 1.2 the client names the hash it signed with; the server may accept only what its
    CertificateRequest offered - SHA-1 .. SHA-512 (ids 2..6), never MD5 (1) or "none" (0); before TLS 1.2 the hash is fixed by the key
    type (0 = MD5+SHA-1 for RSA, 2 = SHA-1 for ECDSA).  Decided by abstract interpretation of the server bytecode with the protocol
    version pinned: the range of the hash identifier handed to the copy-hash-CV native."""
    R = 'certificate-verify-hash-range'
    P = t0.Program('hs_server')
    o_ver = P.layouts.field(P.ctxname, 'eng.session.version')[0]
    if P.native_id('copy-hash-CV') is None:
        raise AnalysisBroken('hs_server: native copy-hash-CV vanished')
    for ver, lo, hi, what in ((0x0303, 2, 6, 'TLS 1.2: SHA-1 .. SHA-512 only'), (0x0302, 0, 2, 'TLS 1.1: MD5+SHA-1 (RSA) or SHA-1 (ECDSA)'),
                              (0x0301, 0, 2, 'TLS 1.0: MD5+SHA-1 (RSA) or SHA-1 (ECDSA)')):
        I = t0ai.Interp(P, field_ranges={o_ver: (ver, ver)}).run_entry()
        rs = set(e.st.rng(e.args[0]) for e in I.events if e.name == 'copy-hash-CV')
        inst = 'hs_server: hash identifier accepted in CertificateVerify, %s' % what
        if not rs:
            chk.violation(R, inst, P.src, 'copy-hash-CV is not reached', key='%s %x none' % (R, ver))
        elif all(lo <= a and b <= hi for a, b in rs):
            chk.ok(R, inst, P.src, 'range %s' % sorted(rs))
        else:
            chk.violation(R, inst, P.src, 'the identifier ranges over %s: %s' % (sorted(rs), 'MD5 (1) / none (0) is accepted although never offered' if ver == 0x0303 else
                          'a hash other than the one fixed by the protocol version is used'), key='%s %x' % (R, ver))


def server_name_rules(chk):
    """"accepted exactly the chain the peer sent *for the requested server name*": the name given to br_ssl_client_reset() is what the
    validator matches the certificate against; an empty name means "no name check".  A name that does not fit the engine's buffer
    must therefore make the reset fail (BR_ERR_BAD_PARAM) - never be dropped silently, which would turn the handshake into one
    without name verification.  FOLD on the strlen result."""
    R = 'server-name-kept-or-refused'
    s = 'src/ssl/ssl_client.c'
    oblig.run_obligations(chk, [
        Ob(s, 'br_ssl_client_reset', Call('strlen'), ('pin', 300), ALL(RET(0), NOCALL('br_ssl_engine_hs_reset')), ('pin', 9),
           'a server name longer than the buffer of the engine: the reset is refused, no handshake starts', rule=R,
           noinline=('br_ssl_engine_hs_reset', 'br_ssl_engine_fail', 'br_ssl_engine_init_rand')),
        Ob(s, 'br_ssl_client_reset', Call('strlen'), ('pin', 256), ALL(RET(0), NOCALL('br_ssl_engine_hs_reset')), ('pin', 255),
           'boundary: 256 characters plus the terminator do not fit the 256-byte buffer, 255 do', rule=R,
           noinline=('br_ssl_engine_hs_reset', 'br_ssl_engine_fail', 'br_ssl_engine_init_rand')),
    ])


def start_chain_gets_server_name(chk, rule='start-chain-gets-server-name'):
    """native x509-start-chain ( by_client -- ): the validator's start_chain() receives the engine's server_name whenever the
    caller's flag is set, and the choice depends on that flag alone -- not on the connection's history (first handshake or
    renegotiation, incrypt, session state): a renegotiated certificate validated against a NULL name is accepted for any host"""
    for src, fn in (('src/ssl/ssl_hs_client.c', 'br_ssl_hs_client_run'), ('src/ssl/ssl_hs_server.c', 'br_ssl_hs_server_run')):
        U = oblig.funit(src)
        F = U.func(fn)
        L = irf.Layouts(U.unit)
        o_sn = L.field('br_ssl_engine_context', 'server_name')[0]
        cs = [c for c in F.calls() if not c.get('callee') and (c.get('fty') or '') == 'void (%struct.br_x509_class_**, i8*)']
        if len(cs) != 1:
            raise AnalysisBroken('%s: %d start_chain-typed indirect calls in %s (expected 1)' % (rule, len(cs), fn))
        c = cs[0]
        inst = '%s x509-start-chain: name argument is by_client ? ENG->server_name : NULL' % fn
        a = c['ops'][1]
        ph = F.insts[a['v']] if a['k'] == 'i' else None
        bl = {b['id']: b for b in F.blocks}

        def bad(msg):
            chk.violation(rule, inst, F.where(c), msg, key='%s %s' % (rule, fn))
        if ph is None or ph['op'] != 'phi' or len(ph['ops']) != 2 or sorted(o['k'] for o in ph['ops']) != ['i', 'null']:
            bad('the name argument is not a two-way choice between one address and NULL')
            continue
        k = 0 if ph['ops'][0]['k'] == 'i' else 1
        addr, bname, bnull = ph['ops'][k], ph['inb'][k], ph['inb'][1 - k]
        # address: a field at offset server_name of a br_ssl_engine_context rooted at the context parameter
        o, hit = addr, False
        for _ in range(8):
            if o['k'] != 'i':
                break
            i = F.insts[o['v']]
            if i['op'] == 'getelementptr' and i.get('off') == o_sn and not i.get('var'):
                hit = True
            if i['op'] not in ('getelementptr', 'bitcast') or i.get('var'):
                break
            o = i['ops'][0]
        if not (hit and o == {'k': 'a', 'v': 0}):
            bad('the non-NULL name is not &ENG->server_name')
            continue
        preds = [b for b in F.blocks if b['insts'][-1]['op'] == 'br' and any(x.get('k') == 'bb' and x['v'] in (bname, bnull) for x in b['insts'][-1]['ops'])]
        t = preds[0]['insts'][-1] if len(preds) == 1 else None
        if t is None or len(t['ops']) != 3 or {t['ops'][1]['v'], t['ops'][2]['v']} != {bname, bnull}:
            bad('the choice is not made by a single two-way branch')
            continue
        cond = F.insts[t['ops'][0]['v']] if t['ops'][0]['k'] == 'i' else None
        ok = False
        if cond is not None and cond['op'] == 'icmp' and cond['pred'] in ('ne', 'eq') and cond['ops'][1] == {'k': 'c', 'v': 0, 'w': 32}:
            x = F.strip_casts(cond['ops'][0])
            if x['k'] == 'i' and F.insts[x['v']]['op'] == 'load':
                base, off = F.addr_of(F.insts[x['v']]['ops'][0])
                taken = t['ops'][2]['v'] if cond['pred'] == 'ne' else t['ops'][1]['v']      # raw operand order: cond, false, true
                ok = base['k'] == 'i' and F.insts[base['v']]['op'] == 'phi' and F.insts[base['v']]['ty'] == 'i32*' and taken == bname
        if ok:
            chk.ok(rule, inst, F.where(c), 'phi [&ENG->server_name if the popped flag != 0, NULL otherwise]; the flag is a data-stack cell')
        else:
            bad('the condition that selects the name is not `popped flag != 0` alone (it reads other state, or is inverted)')


def run(tier):
    chk = report.Check('C03', tier,
                       'Static necessary conditions: in both handshake interpreters every store that sets bit 0 of application_data is preceded, on '
                       'every path from the entry word, by a completed read-Finished (must-call dataflow on the T0 bytecode); read-Finished cannot '
                       'return when the verify-data comparison reports a mismatch and raises BR_ERR_BAD_FINISHED; the Finished is read after the '
                       'input-encryption switch; a non-zero ServerKeyExchange / CertificateVerify verification result becomes the handshake error; '
                       'the C helpers report every failing primitive (signature verification, hash availability, ECDH, RSA encryption) and a '
                       'failed server-side key exchange is replaced by DRBG output under a control word derived from the verdict, with the '
                       'anti-rollback version written from client_max_version; the key type and usages reported by the X.509 engine must fit the '
                       'negotiated key exchange (client: per registry suite; server: signing key for CertificateVerify, EC key-exchange key for static ECDH). NOT decided: that altering a byte changes the transcript hash, '
                       'negotiation content, certificate policy (C04).',
                       trusted=['sa/t0.py decoder and IR-derived native effects', 'sa/t0ai.py kernel-word models', 'clang/opt 14'])
    from .. import t0kernel
    for key in ('hs_client', 'hs_server'):
        t0_rules(chk, key)
        t0kernel.check(chk, key)
    c_helpers(chk)
    key_usage_rules(chk)
    resumption_rules(chk)
    session_invalidation(chk)
    fallback_scsv(chk)
    certificate_verify_hash(chk)
    server_name_rules(chk)
    from . import c11 as _c11
    oblig.run_obligations(chk, [o for o in _c11.obligations() if 'ecdsa' in o.func])
    _c11.rs_nonzero(chk)
    hash_compare_shape(chk, 'src/ssl/ssl_hs_client.c', 'verify_SKE_sig')
    hash_compare_shape(chk, 'src/ssl/ssl_hs_server.c', 'verify_CV_sig')
    chk.floor('rule instances', len(chk.obls), 30)
    server_choice_was_offered(chk)
    start_chain_gets_server_name(chk)
    from .c10 import pkcs1_v15_template
    pkcs1_v15_template(chk)           # ServerKeyExchange / CertificateVerify RSA signatures: exact EMSA-PKCS1-v1_5 template
    from .c01 import transcript_follows_wire
    transcript_follows_wire(chk)      # what Finished authenticates is the running hash: it must be fed exactly the bytes moved through the handshake window
    from .. import lints
    lints.length_is_boolean(chk, ['src/ssl/'])
    from .. import t0mandatory as _t0m
    _t0m.check(chk, ('hs_client', 'hs_server'))
    from .. import lints as _lints_ir
    _lints_ir.ignored_result_regression(chk, ['src/ssl/'])
    return chk.finish()
