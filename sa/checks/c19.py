"""C19 — closure, alerts, renegotiation: static necessary conditions (DESIGN §4 C19)."""
from .. import build, report, oblig, irf, fold, t0, t0ai, t0rules
from ..oblig import Ob, Call, ICall, Var, FieldLoad, RET, ALL, NOCALL, CALLDOM, E
from ..build import AnalysisBroken


def t0_fail_codes(chk, key):
    P = t0.Program(key)
    L = P.layouts
    cv = build.const_values(['BR_SSL_ALERT', 'BR_ALERT_CLOSE_NOTIFY', 'BR_ERR_OK'])
    off_rt = L.field(P.ctxname, 'eng.record_type_out')[0]
    I = t0ai.Interp(P).run_entry()
    R = 'failure-code-nonzero'
    # words that (transitively) emit an alert record
    alertw = set(e.word for e in I.events if e.name == 'set8' and e.args[1].isconst() and e.args[1].c == off_rt
                 and e.args[0].isconst() and e.args[0].c == cv['BR_SSL_ALERT'])
    if not alertw:
        raise AnalysisBroken('%s: no word sets record_type_out to alert' % key)
    reach = set(alertw)
    ch = True
    while ch:
        ch = False
        for w, W in P.words.items():
            if w not in reach and any(i.kind == 'call' and i.arg in reach for i in W.ins.values()):
                reach.add(w)
                ch = True
    sites = {}
    for e in I.events:
        if e.name != 'fail':
            continue
        lo, hi = e.st.rng(e.args[0])
        pz = t0rules.possibly_zero(e)
        k = (e.word, e.pc)
        if k not in sites or pz:
            sites[k] = (pz, str(e.args[0]), (lo, hi))
    chk.count('%s fail sites' % key, len(sites))
    zero = []
    for (w, pc), (pz, vs, rg) in sorted(sites.items()):
        if not pz:
            chk.ok(R, '%s W%d@%d: fail(%s) carries a non-zero code' % (key, w, pc, vs if len(vs) < 40 else 'expr'), P.src, 'range %s' % (rg,))
        else:
            zero.append((w, pc, vs, rg))
    if len(sites) < 40:
        raise AnalysisBroken('%s: only %d fail sites found' % (key, len(sites)))
    # exactly one site may report "no error": the orderly closure, reached only after a close_notify alert was queued
    for (w, pc, vs, rg) in zero:
        W = P.words[w]
        inst = '%s W%d@%d: the only zero failure code is the orderly closure after close_notify' % (key, w, pc)
        okk = (rg == (0, 0)) and len(zero) == 1
        det = 'value %s range %s; %d zero-capable sites' % (vs, rg, len(zero))
        if okk:
            # every path from the word's entry to the fail passes through a call to a word that emits an alert, with argument close_notify (0)
            pcs = list(W.ins)
            cut = set()
            for q in pcs:
                i = W.ins[q]
                if i.kind == 'call' and i.arg in reach:
                    # argument: the constant pushed right before
                    prev = W.ins[pcs[pcs.index(q) - 1]] if pcs.index(q) > 0 else None
                    if prev is not None and prev.kind == 'const' and prev.arg == cv['BR_ALERT_CLOSE_NOTIFY']:
                        cut.add(q)
            seen = set()
            st = [W.start]
            reached = False
            while st:
                q = st.pop()
                if q in seen or q in cut:
                    continue
                seen.add(q)
                if q == pc:
                    reached = True
                    break
                st.extend(W.succs(W.ins[q]))
            okk = bool(cut) and not reached
            det += '; close_notify alert queued on every path before it: %s' % okk
        if okk:
            chk.ok(R, inst, P.src, det)
        else:
            chk.violation(R, inst, P.src, 'an engine failure may be reported with error code 0 (indistinguishable from orderly closure): ' + det,
                          key='%s %s zero-fail W-with-%s' % (R, key, 'alert' if okk else 'noalert'))
    if not zero:
        chk.violation(R, '%s: orderly closure site exists' % key, P.src, 'no fail(0) site: orderly closure cannot be reported', key='%s %s no-closure' % (R, key))


def close_order(chk):
    """close: unread application data is discarded BEFORE the closure handshake is entered (shared by C06: once the closure
    handshake has started recvapp_buf returns NULL, the unread record is never released and the engine offers nothing)"""
    s = 'src/ssl/ssl_engine.c'
    u = build.load_unit(s)
    R = 'close-discards-before-closing'
    U = irf.Units({'u': u})
    F = U.func('br_ssl_engine_close')
    jh = F.calls('jump_handshake')
    rb = F.calls('br_ssl_engine_recvapp_buf')
    ra = F.calls('br_ssl_engine_recvapp_ack')
    inst = 'br_ssl_engine_close: recvapp_buf test (and ack) precede jump_handshake(1)'
    okk = len(jh) == 1 and len(rb) == 1 and len(ra) == 1 and F.dominates(rb[0]['id'], jh[0]['id']) and jh[0]['ops'][1] == {'k': 'c', 'v': 1, 'w': 32}
    if okk:
        # the ack must not be reachable after jump_handshake
        after = set()
        st = list(F.succ[F.block_of[jh[0]['id']]])
        while st:
            b = st.pop()
            if b in after:
                continue
            after.add(b)
            st.extend(F.succ[b])
        ab = F.block_of[ra[0]['id']]
        okk = ab not in after and not (ab == F.block_of[jh[0]['id']] and F.order[ra[0]['id']] > F.order[jh[0]['id']])
    if okk:
        chk.ok(R, inst, F.where(jh[0]))
    else:
        chk.violation(R, inst, F.where(), 'the discard of unread application data does not precede the closure handshake', key='%s close-order' % R)


def close_notify_remembered(chk):
    """Closure sequence: while the engine waits for room to send its own close_notify, and afterwards until the peer's arrives, every
    turn goes through the waiting word (co + alert processing) which returns the updated "close_notify received" flag.  That result
    is the only record that the peer's close_notify was seen (the alert itself is consumed): it must be kept -- stored into a
    local that is read again, or carried on the stack -- never dropped, or the engine waits for a second close_notify that never comes
    and does not finish closed.  Def-use rule on the bytecode of the closure word (the word holding the fail(ERR_OK) site)."""
    R = 'close-notify-flag-kept'
    for key in ('hs_client', 'hs_server'):
        P = t0.Program(key)
        clos = []
        for w, W in P.words.items():
            l = list(W.ins.values())
            for k, i in enumerate(l):
                if i.kind == 'native' and i.name == 'fail' and k > 0:
                    p = l[k - 1]
                    v = p.arg if p.kind == 'const' else (P.const_word_value(p.arg) if p.kind == 'call' else None)
                    if v == 0:
                        clos.append(w)
        if len(clos) != 1:
            raise AnalysisBroken('%s: closure word (fail(ERR_OK)) not identified: %s' % (key, clos))
        W = P.words[clos[0]]
        l = list(W.ins.values())
        wfc = set(i.arg for i in l if i.kind == 'call' and any(x.kind == 'native' and x.name == 'co' for x in P.words[i.arg].ins.values()))
        sites = [k for k, i in enumerate(l) if i.kind == 'call' and i.arg in wfc]
        if len(wfc) != 1 or len(sites) < 2:
            raise AnalysisBroken('%s: waiting word of the closure sequence not identified (%s, %d sites)' % (key, sorted(wfc), len(sites)))
        for k in sites:
            nx = l[k + 1] if k + 1 < len(l) else None
            inst = '%s W%d@%d: the flag returned by the waiting word W%d is kept' % (key, W.id, l[k].pc, next(iter(wfc)))
            bad = None
            if nx is None:
                bad = 'nothing follows the call'
            elif nx.kind == 'native' and nx.name in ('drop', 'nip', '2drop'):
                bad = 'the result is discarded (%s)' % nx.name
            elif nx.kind == 'putlocal':
                # the local must be read again on some path from here
                seen, st, read = set(), [nx.next], False
                while st and not read:
                    q = st.pop()
                    if q in seen or q not in W.ins:
                        continue
                    seen.add(q)
                    j = W.ins[q]
                    if j.kind == 'getlocal' and j.arg == nx.arg:
                        read = True
                    elif j.kind == 'putlocal' and j.arg == nx.arg:
                        continue
                    st.extend(W.succs(j))
                if not read:
                    bad = 'the result is stored into local %d which is never read again' % nx.arg
            if bad:
                chk.violation(R, inst, P.src, bad + ": a close_notify received during this wait is forgotten", key='%s %s %d' % (R, key, sites.index(k)))
            else:
                chk.ok(R, inst, P.src)


def record_type_restored(chk):
    """Application bytes travel in records of type 23; alerts (type 21) and handshake messages (22) are written by the handshake
    bytecode through the same record_type_out register.  Whenever the bytecode (re-)enters the application-data state
    (application_data := 1) and then yields to the engine, the last value it left in record_type_out must be 23 - otherwise what the
    application writes next goes out as an alert / handshake record and the peer tears the connection down (a declined renegotiation
    is the case in point: warning sent, state restored).  Typestate rule on the bytecode: per word, the set of values last written
    to record_type_out on returning paths (stores of constants from the abstract interpretation; calls composed through word
    summaries); from every application_data := 1 site forward to the next yield, that last value must be 23 or unwritten."""
    R = 'record-type-restored-before-yield'
    for key in ('hs_client', 'hs_server'):
        P = t0.Program(key)
        o_rt = P.layouts.field(P.ctxname, 'eng.record_type_out')[0]
        o_ad = P.layouts.field(P.ctxname, 'eng.application_data')[0]
        I = t0ai.Interp(P).run_entry()
        rt_sites, ad_sites = {}, {}
        for e in I.events:
            if e.name == 'set8' and e.args[-1].isconst():
                v = e.args[0].c if e.args[0].isconst() else 'T'
                if e.args[-1].c == o_rt:
                    prev = rt_sites.get((e.word, e.pc))
                    rt_sites[(e.word, e.pc)] = v if prev in (None, v) else 'T'
                elif e.args[-1].c == o_ad:
                    prev = ad_sites.get((e.word, e.pc))
                    ad_sites[(e.word, e.pc)] = v if prev in (None, v) else 'T'
        if not rt_sites or not ad_sites:
            raise AnalysisBroken('%s: no constant-address stores to record_type_out / application_data found' % key)
        ret = t0rules.returning_words(P)
        nr = t0rules.noreturn_natives(P)
        memo = {}

        def summary(w):
            """(set of last-written values at return; None = not written), yields-before-any-write?"""
            if w in memo:
                return memo[w]
            memo[w] = (set([None]), False)          # recursion guard (T0 has none)
            W = P.words[w]
            outs, ybw = set(), False
            seen = set()
            st = [(W.start, None)]
            while st:
                pc, last = st.pop()
                while True:
                    if (pc, last) in seen or pc not in W.ins:
                        break
                    seen.add((pc, last))
                    i = W.ins[pc]
                    if i.kind == 'ret':
                        outs.add(last)
                        break
                    if i.kind == 'jump':
                        pc = i.arg
                        continue
                    if i.kind in ('jumpif', 'jumpifnot'):
                        st.append((i.arg, last))
                        pc = i.next
                        continue
                    if i.kind == 'native':
                        if i.name in nr:
                            break
                        if i.name == 'co' and last is None:
                            ybw = True
                        if (w, pc) in rt_sites:
                            last = rt_sites[(w, pc)]
                    elif i.kind == 'call':
                        if not ret[i.arg]:
                            so, sy = summary(i.arg)
                            if sy and last is None:
                                ybw = True
                            break
                        so, sy = summary(i.arg)
                        if sy and last is None:
                            ybw = True
                        nxt = set(last if o is None else o for o in so)
                        for o in list(nxt)[1:]:
                            st.append((i.next, o))
                        last = list(nxt)[0]
                    pc = i.next
            memo[w] = (outs or set([None]), ybw)
            return memo[w]
        n = 0
        for (w, pc0), v in sorted(ad_sites.items()):
            if v != 1:
                continue
            W = P.words[w]
            n += 1
            inst = '%s W%d@%d: after application_data := 1, the engine is yielded to with record_type_out = 23' % (key, w, pc0)
            bad = None
            seen = set()
            st = [(W.ins[pc0].next, None)]
            while st and bad is None:
                pc, last = st.pop()
                while bad is None:
                    if (pc, last) in seen or pc not in W.ins:
                        break
                    seen.add((pc, last))
                    i = W.ins[pc]
                    if i.kind == 'ret':
                        break
                    if i.kind == 'jump':
                        pc = i.arg
                        continue
                    if i.kind in ('jumpif', 'jumpifnot'):
                        st.append((i.arg, last))
                        pc = i.next
                        continue
                    if i.kind == 'native':
                        if i.name in nr:
                            break
                        if i.name == 'co':
                            if last not in (None, 23, 'T'):
                                bad = (pc, last)
                            break
                        if (w, pc) in rt_sites:
                            last = rt_sites[(w, pc)]
                        if (w, pc) in ad_sites and ad_sites[(w, pc)] != 1:
                            break                   # left the application-data state again
                    elif i.kind == 'call':
                        so, sy = summary(i.arg)
                        if sy:
                            if last not in (None, 23, 'T'):
                                bad = (pc, last)
                            break
                        if not ret[i.arg]:
                            break
                        nxt = set(last if o is None else o for o in so)
                        for o in list(nxt)[1:]:
                            st.append((i.next, o))
                        last = list(nxt)[0]
                    pc = i.next
            if bad is None:
                chk.ok(R, inst, P.src)
            else:
                chk.violation(R, inst, P.src, 'a yield at W%d@%d is reached with record_type_out last set to %s: application data written next is sent in a record of that type'
                              % (w, bad[0], bad[1]), key='%s %s W%d' % (R, key, w))
        if n < 2:
            raise AnalysisBroken('%s: only %d application_data := 1 sites' % (key, n))


def input_discarded_only_when_closing(chk):
    """Handshake messages and alerts are consumed by their announced length, across record boundaries; the one native that throws away
    whatever input is pending (discard-input: hlen_in := 0) is for the closing sequence, where everything but the peer's close_notify
    is ignored.  Who-may-call rule over the bytecode of both handshake engines: every word that invokes discard-input is reachable from the entry word only
    through a word that never returns (the close loop, which ends in fail).  Used anywhere else - e.g. to skip the ClientHello of a
    declined renegotiation - it drops only the fragment at hand: the rest of the message, in the next record, is then taken for a
    new message and the connection dies instead of carrying on."""
    from .. import t0, t0rules
    R = 'discard-input-only-when-closing'
    n = 0
    for key in ('hs_client', 'hs_server'):
        P = t0.Program(key)
        callers = P.words_calling_native('discard-input')
        if not callers:
            raise AnalysisBroken('%s: native discard-input has no caller' % key)
        ret = t0rules.returning_words(P)
        entry = P.entries[0][1]
        closing = set(w for w in P.words if ret.get(w, True) is False and w != entry)
        # words reachable from the entry without going through a never-returning word (the closing sequence)
        reach, st = {entry}, [entry]
        while st:
            x = st.pop()
            for i in P.words[x].ins.values():
                if i.kind == 'call' and i.arg in P.words and i.arg not in reach and i.arg not in closing:
                    reach.add(i.arg)
                    st.append(i.arg)
        if not closing:
            raise AnalysisBroken('%s: no never-returning word besides the entry (closing sequence not found)' % key)
        for w in callers:
            n += 1
            inst = '%s: word %d (uses discard-input) is reachable only through the closing sequence (never-returning words %s)' % (key, w, sorted(closing))
            if w in reach:
                chk.violation(R, inst, 'src/ssl/ssl_%s.c' % key, 'the word is reachable from the handshake / application-data flow without entering the closing '
                              'sequence: pending input is thrown away there although the message it belongs to may continue in the next record', key='%s %s %d' % (R, key, w))
            else:
                chk.ok(R, inst, 'src/ssl/ssl_%s.c' % key)
    chk.floor('discard-input users', n, 2)


def received_record_dispatch(chk):
    """What br_ssl_engine_recvrec_ack does with a decrypted record is a function of its type and of the application-data state
    (0 = handshake in progress, 1 = exchanging data, 2 = closing): ChangeCipherSpec / alert / handshake records wake the handshake
    processor; application data is left for the application when data is being exchanged, acknowledged away (discarded) while
    closing, and is a fatal unexpected_message during a handshake (silently dropping it would remove bytes from the middle of the
    stream); any other type fails.  Decided by partial evaluation of the function for each (type, state) pair - engine not closed,
    payload present - and comparison of the calls that remain with this table.  While closing the payload must be consumed
    (recvpld_ack) for the engine to keep offering an operation."""
    from .. import fold
    R = 'received-record-dispatch'
    s = 'src/ssl/ssl_engine.c'
    U = oblig.funit(s)
    L = irf.Layouts(U.unit)
    fn = 'br_ssl_engine_recvrec_ack'
    if fn not in U.funcs:
        raise AnalysisBroken('%s vanished' % fn)
    F = U.func(fn)
    o_rt = L.field('br_ssl_engine_context', 'record_type_in')[0]
    o_ad = L.field('br_ssl_engine_context', 'application_data')[0]
    lr, la = U.field_loads(fn, 0, o_rt), U.field_loads(fn, 0, o_ad)
    closed = [c for c in F.calls() if c.get('callee') == 'br_ssl_engine_closed']
    pbuf = [c for c in F.calls() if c.get('callee') == 'recvpld_buf']
    if not lr or not la or len(closed) != 1 or len(pbuf) != 1:
        raise AnalysisBroken('%s: anchors not found (loads of record_type_in %d, application_data %d, closed %d, recvpld_buf %d)' % (fn, len(lr), len(la), len(closed), len(pbuf)))
    NOIN = ('recvrec_ack', 'recvpld_buf', 'recvpld_ack', 'jump_handshake', 'br_ssl_engine_fail', 'br_ssl_engine_closed')
    cv = build.const_values(['BR_ERR_UNEXPECTED'])
    UNEXP = cv['BR_ERR_UNEXPECTED']

    def want(rt, ad):
        if rt in (20, 21, 22):
            return [('jump_handshake', 0)]
        if rt == 23:
            return {0: [('br_ssl_engine_fail', UNEXP)], 1: [], 2: [('recvpld_ack', None)]}[ad]
        return [('br_ssl_engine_fail', UNEXP)]
    names = {20: 'change_cipher_spec', 21: 'alert', 22: 'handshake', 23: 'application_data', 24: 'type 24 (heartbeat)', 0: 'type 0'}
    states = {0: 'during a handshake', 1: 'while exchanging data', 2: 'while closing'}
    n = 0
    for rt in (20, 21, 22, 23, 24, 0):
        for ad in (0, 1, 2):
            hy = [dict(kind='pin', n=closed[0]['n'], value=0), dict(kind='pin', n=pbuf[0]['n'], value='inttoptr (i64 4096 to i8*)')]
            hy += [dict(kind='pin', n=x['n'], value=rt) for x in lr] + [dict(kind='pin', n=x['n'], value=ad) for x in la]
            Fo = U.optimise(fn, hy, NOIN)
            got = []
            for i in fold._reach_insts(Fo):
                if i['op'] == 'call' and i.get('callee') in ('recvpld_ack', 'jump_handshake', 'br_ssl_engine_fail'):
                    a = i['ops'][1].get('v') if i['ops'][1]['k'] == 'c' else '?'
                    got.append((i['callee'], None if i['callee'] == 'recvpld_ack' else a))
            n += 1
            w = want(rt, ad)
            inst = '%s: %s record %s -> %s' % (fn, names[rt], states[ad], ', '.join('%s(%s)' % (c, '..' if a is None else a) for c, a in w) or 'left for the application')
            if got == w:
                chk.ok(R, inst, s)
            else:
                chk.violation(R, inst, F.where(), 'the function does: %s' % (', '.join('%s(%s)' % (c, '..' if a is None else a) for c, a in got) or 'nothing'),
                              key='%s %d %d' % (R, rt, ad))
    chk.floor('record dispatch cases', n, 18)


def io_wrapper_acks_transport_count(chk):
    """br_sslio (run_until): the number of bytes acknowledged to the engine is the number the transport callback reported - the
    value returned by low_write for sendrec_ack, by low_read for recvrec_ack - not the size that was offered.  A transport that
    writes fewer bytes than offered (any non-blocking or packetised one) otherwise loses the tail of the record."""
    R = 'io-wrapper-acks-transport-count'
    src = 'src/ssl/ssl_io.c'
    u = build.load_unit(src)
    F = next((irf.Func(u, f) for f in u['functions'] if f['name'] == 'run_until' and f.get('blocks')), None)
    if F is None:
        raise AnalysisBroken('run_until vanished')
    ind = [c for c in F.calls() if c.get('callee') is None]
    n = 0
    for ack in ('br_ssl_engine_sendrec_ack', 'br_ssl_engine_recvrec_ack'):
        cs = F.calls(ack)
        if len(cs) != 1:
            raise AnalysisBroken('run_until: %d calls to %s' % (len(cs), ack))
        c = cs[0]
        n += 1
        inst = 'run_until: %s receives the count returned by the transport callback' % ack
        v = F.strip_casts(c['ops'][1])
        if v['k'] == 'i' and any(v['v'] == x['id'] for x in ind):
            chk.ok(R, inst, F.where(c))
        else:
            chk.violation(R, inst, F.where(c), 'the acknowledged length is not the value returned by low_%s: with a short %s the engine believes the whole window was moved'
                          % (('write', 'write') if 'send' in ack else ('read', 'read')), key='%s %s' % (R, ack))
    chk.floor('io acks', n, 2)


def scsv_refused_on_renegotiation(chk):
    """RFC 5746 3.7: a server that receives TLS_EMPTY_RENEGOTIATION_INFO_SCSV (0x00FF) in the ClientHello of a *renegotiation* must
    abort the handshake - the signalling suite is for initial handshakes only; accepting it lets a renegotiation proceed without
    the renegotiated_connection binding.  Bytecode rule: the branch taken when a suite equals 0x00FF reads the `reneg` field and, when
    it is non-zero, fails with BR_ERR_BAD_SECRENEG."""
    from .. import t0
    R = 'scsv-refused-on-renegotiation'
    P = t0.Program('hs_server')
    cv = build.const_values(['BR_ERR_BAD_SECRENEG'])
    o_reneg = P.layouts.field(P.ctxname, 'eng.reneg')[0]
    sites = []
    for w, W in P.words.items():
        l = list(W.ins.values())
        for k, i in enumerate(l):
            if i.kind == 'const' and i.arg == 0xFF and k + 2 < len(l) and l[k + 1].kind == 'native' and l[k + 1].name == '=' and l[k + 2].kind == 'jumpifnot':
                sites.append((w, [x for x in l if l[k + 2].next <= x.pc < l[k + 2].arg]))
    if not sites:
        raise AnalysisBroken('hs_server: no comparison of a cipher suite with 0x00FF found')
    for w, body in sites:
        inst = 'hs_server W%d: suite 0x00FF during a renegotiation (reneg != 0) -> fail BR_ERR_BAD_SECRENEG' % w

        def val(x):
            return x.arg if x.kind == 'const' else P.const_word_value(x.arg) if x.kind == 'call' else None
        okk = False
        for k, x in enumerate(body):
            if x.kind == 'native' and x.name == 'get8' and k >= 1 and val(body[k - 1]) == o_reneg and k + 3 < len(body) and body[k + 1].kind == 'jumpifnot':
                guarded = [y for y in body if body[k + 1].next <= y.pc < body[k + 1].arg]
                if any(val(y) == cv['BR_ERR_BAD_SECRENEG'] for y in guarded) and any(y.kind == 'native' and y.name == 'fail' for y in guarded):
                    okk = True
        if okk:
            chk.ok(R, inst, P.src)
        else:
            chk.violation(R, inst, P.src, 'the 0x00FF branch does not test `reneg` / fail with error %d: a renegotiation ClientHello carrying the SCSV instead of the '
                          'renegotiation_info extension is accepted unbound' % cv['BR_ERR_BAD_SECRENEG'], key='%s W%d' % (R, w))


def no_renegotiation_option(chk):
    """BR_OPT_NO_RENEGOTIATION: "when disabled, renegotiation is declined with a no_renegotiation warning".  In both interpreters the
    post-handshake loop - the word that sends warning 100 - must consult that option: the bytecode tests engine flags by bit *index*
    (`n flag?` = (flags >> n) & 1), so the index used next to the decline must be log2(BR_OPT_NO_RENEGOTIATION), not the mask value and
    not another option's index."""
    R = 'no-renegotiation-option-consulted'
    cv = build.const_values(['BR_OPT_NO_RENEGOTIATION'])
    want = cv['BR_OPT_NO_RENEGOTIATION'].bit_length() - 1
    if 1 << want != cv['BR_OPT_NO_RENEGOTIATION']:
        raise AnalysisBroken('BR_OPT_NO_RENEGOTIATION is not a single bit')
    for key in ('hs_client', 'hs_server'):
        P = t0.Program(key)
        o_fl = P.layouts.field(P.ctxname, 'eng.flags')[0]
        flagw = []
        for w, W in P.words.items():
            l = list(W.ins.values())
            if len(l) <= 10 and any(i.kind == 'native' and i.name == 'get32' for i in l) and \
                    any((i.kind == 'const' and i.arg == o_fl) or (i.kind == 'call' and P.const_word_value(i.arg) == o_fl) for i in l) and \
                    any(i.kind == 'native' and i.name == '>>' for i in l):
                flagw.append(w)
        if len(flagw) != 1:
            raise AnalysisBroken('%s: the flag-test word is not identified (%s)' % (key, flagw))
        loops = []
        for w, W in P.words.items():
            l = list(W.ins.values())
            if any(i.kind == 'const' and i.arg == 100 and k + 1 < len(l) and l[k + 1].kind == 'call' for k, i in enumerate(l)):
                loops.append(w)
        if not loops:
            raise AnalysisBroken('%s: no word sends warning 100 (no_renegotiation)' % key)
        for w in loops:
            l = list(P.words[w].ins.values())
            idx = [l[k - 1].arg if (k > 0 and l[k - 1].kind == 'const') else None for k, i in enumerate(l) if i.kind == 'call' and i.arg == flagw[0]]
            inst = '%s W%d: the loop that declines renegotiation tests engine flag bit %d (BR_OPT_NO_RENEGOTIATION)' % (key, w, want)
            if want in idx:
                chk.ok(R, inst, P.src, 'flag indices tested in the word: %s' % idx)
            else:
                chk.violation(R, inst, P.src, 'flag indices tested in the word: %s - the option is not consulted (the mask value %d is not its bit index)'
                              % (idx, cv['BR_OPT_NO_RENEGOTIATION']), key='%s %s' % (R, key))


def reneg_binding(chk):
    """RFC 5746 3.4-3.7: a renegotiation is bound to the previous handshake by comparing the renegotiation_info extension with the
    saved verify_data: the client compares client_verify_data || server_verify_data (2 x 12 bytes), the server client_verify_data
    (12 bytes); a mismatch is fatal; both Finished values are saved (12 bytes each, client first)."""
    R = 'secure-renegotiation-binding'
    cv = build.const_values(['BR_ERR_BAD_SECRENEG'])
    for key, want in (('hs_client', 24), ('hs_server', 12)):
        P = t0.Program(key)
        off = P.layouts.field(P.ctxname, 'eng.saved_finished')[0]
        pad = P.layouts.field(P.ctxname, 'eng.pad')[0]
        I = t0ai.Interp(P).run_entry()
        cmps = [e for e in I.events if e.name == 'memcmp' and any(a.isconst() and a.c == off for a in e.args[:2])]
        inst = '%s: renegotiation_info is compared with saved_finished over %d bytes' % (key, want)
        if len(set((e.word, e.pc) for e in cmps)) != 1:
            chk.violation(R, inst, P.src, '%d comparisons with saved_finished found' % len(cmps), key='%s %s count' % (R, key))
            continue
        e = cmps[0]
        ln = e.st.rng(e.args[2])
        other = [a for a in e.args[:2] if not (a.isconst() and a.c == off)]
        okk = ln == (want, want) and len(other) == 1 and other[0].isconst() and other[0].c == pad
        if okk:
            chk.ok(R, inst, P.src, 'W%d@%d memcmp(saved_finished, pad, %d)' % (e.word, e.pc, want))
        else:
            chk.violation(R, inst, P.src, 'W%d@%d compares %s bytes (operands %s): part of the previous verify_data is not checked, so the renegotiation '
                          'is not bound to the previous handshake' % (e.word, e.pc, ln, [str(a) for a in e.args[:2]]), key='%s %s len' % (R, key))
        # a mismatch is fatal
        Ip = t0ai.Interp(P, pins={'memcmp': 0}).run_entry()
        fe = [x for x in Ip.events if x.name == 'fail' and x.word == e.word and x.args[0].isconst() and x.args[0].c == cv['BR_ERR_BAD_SECRENEG'] and x.pc > e.pc]
        inst = '%s: a renegotiation_info mismatch ends in fail(BR_ERR_BAD_SECRENEG)' % key
        okk = False
        det = 'no such failure after the comparison'
        for x in fe:
            g = t0rules.guard_before(P, x.word, x.pc)
            if g is not None and e.pc < g.pc and Ip.branches.get((x.word, g.pc)) and len(Ip.branches[(x.word, g.pc)]) == 1:
                okk = True
                det = 'guard at %d one-sided under memcmp -> mismatch' % g.pc
        if okk:
            chk.ok(R, inst, P.src, det)
        else:
            chk.violation(R, inst, P.src, det, key='%s %s fatal' % (R, key))
        # both verify_data values are saved: 12 bytes at saved_finished and saved_finished + 12, from the pad
        saves = set()
        for x in I.events:
            if x.name == 'memcpy' and x.st.rng(x.args[2]) == (12, 12) and x.args[1].isconst() and x.args[1].c == pad:
                lo, hi = x.st.rng(x.args[0])
                if lo in (off, off + 12) and hi in (off, off + 12):      # a constant, or the join of the two call contexts (from_client or not)
                    saves.update((lo - off, hi - off))
        inst = '%s: compute-Finished saves both verify_data values (12 bytes each)' % key
        if saves == {0, 12}:
            chk.ok(R, inst, P.src)
        else:
            chk.violation(R, inst, P.src, 'saved offsets: %s' % sorted(saves), key='%s %s saves' % (R, key))


def reneg_extension_required(chk):
    """RFC 5746 3.5 / 3.7: in a renegotiation with a peer that supports secure renegotiation (reneg == 2) the hello message MUST
    carry renegotiation_info, and the handshake must abort when it does not -- otherwise the binding to the previous Finished values
    is simply skipped.  Decided on the bytecode: with eng.reneg pinned to 2 and the word that compares renegotiation_info with
    saved_finished made non-returning (i.e. looking only at executions that never reach the comparison), the word that parses the
    hello message must not be able to return."""
    R = 'secure-renegotiation-binding'
    for key, msg in (('hs_client', 'ServerHello'), ('hs_server', 'ClientHello')):
        P = t0.Program(key)
        L = P.layouts
        o_sf = L.field(P.ctxname, 'eng.saved_finished')[0]
        o_rn = L.field(P.ctxname, 'eng.reneg')[0]
        I0 = t0ai.Interp(P).run_entry()
        wcr = set(e.word for e in I0.events if e.name == 'memcmp' and any(a.isconst() and a.c == o_sf for a in e.args[:2]))
        if len(wcr) != 1:
            raise AnalysisBroken('%s: comparison word not identified' % key)
        W_cr = next(iter(wcr))
        # the hello-parsing word: it dispatches on the extension type 0xFF01 (renegotiation_info) and reaches the comparison word
        def reaches(w, seen=None):
            seen = seen or set()
            if w == W_cr:
                return True
            if w in seen:
                return False
            seen.add(w)
            return any(i.kind == 'call' and reaches(i.arg, seen) for i in P.words[w].ins.values())
        cands = [w for w, W_ in P.words.items() if any(i.kind == 'const' and i.arg == 0xFF01 for i in W_.ins.values()) and reaches(w)]
        if len(cands) != 1:
            raise AnalysisBroken('%s: hello-parsing word not identified (%s)' % (key, cands))
        W_ch = cands[0]

        class Cut(t0ai.Interp):
            def run_word(self, w, st, ctx):
                if w == W_cr:
                    return None
                return t0ai.Interp.run_word(self, w, st, ctx)
        I = Cut(P, field_ranges={o_rn: (2, 2)})
        I.run_entry()
        rets = [k for k, (ins, out) in I.memo.items() if k[0] == W_ch and out]
        inst = '%s: a renegotiation %s without renegotiation_info aborts the handshake' % (key, msg)
        # control: without the cut the word does return
        if not [k for k, (ins, out) in I0.memo.items() if k[0] == W_ch and out]:
            raise AnalysisBroken('%s: control: the hello-parsing word never returns' % key)
        if not rets:
            chk.ok(R, inst, P.src, 'W%d cannot return unless W%d (comparison with saved_finished) has run' % (W_ch, W_cr))
        else:
            chk.violation(R, inst, P.src, 'with reneg == 2, W%d (parsing the %s) returns on executions that never compare renegotiation_info with the saved '
                          'verify_data: a renegotiation %s that omits the extension is accepted unbound (RFC 5746 3.%s: MUST abort)'
                          % (W_ch, msg, msg, '5' if key == 'hs_client' else '7'), key='%s %s missing-extension' % (R, key))


def alert_levels(chk):
    """RFC 5246 7.2: an alert is (level, description) with level 1 = warning, 2 = fatal; anything else is malformed and, like a fatal
    alert, must end the connection with an error.  The engine keeps the level of a half-received alert in eng.alert; the byte that is
    taken as a level must be stored as 1 only when it is exactly 1, as 2 (fatal) for every other value.  Decided by constant
    propagation through the bytecode word for level bytes 0, 1, 2, 3, 255; and a description byte under a fatal level always fails."""
    R = 'alert-level-classification'
    for key in ('hs_client', 'hs_server'):
        P = t0.Program(key)
        o_al = P.layouts.field(P.ctxname, 'eng.alert')[0]
        I0 = t0ai.Interp(P).run_entry()
        ws = set(e.word for e in I0.events if e.name == 'set8' and e.args[-1].isconst() and e.args[-1].c == o_al) & \
            set(e.word for e in I0.events if e.name == 'get8' and e.args and e.args[-1].isconst() and e.args[-1].c == o_al) & \
            set(e.word for e in I0.events if e.name == 'fail')
        if len(ws) != 1:
            raise AnalysisBroken('%s: alert byte word not identified (%s)' % (key, sorted(ws)))
        W = next(iter(ws))
        # the half-received alert (its level byte) must survive until the description byte arrives, possibly in another record or
        # another delivery of the same record: nothing but the alert-byte word may write eng.alert
        writers = set(e.word for e in I0.events if e.name == 'set8' and e.args[-1].isconst() and e.args[-1].c == o_al)
        inst = '%s: eng.alert (level of a half-received alert) is written by the alert-byte word only' % key
        if writers == {W}:
            chk.ok(R, inst, P.src)
        else:
            chk.violation(R, inst, P.src, 'also written by W%s: an alert whose two bytes arrive separately loses its level byte - a fatal alert or close_notify '
                          'is swallowed and the engine stays open with no error' % sorted(writers - {W}), key='%s %s writers' % (R, key))
        for b in (0, 1, 2, 3, 255):
            I = t0ai.Interp(P, field_ranges={o_al: (0, 0)})
            I.unroll_concrete = True
            st = t0ai.St()
            st.stack = [t0ai.E({}, b)]
            I.run_word(W, st, ())
            vals = set()
            for e in I.events:
                if e.word == W and e.name == 'set8' and e.args[-1].isconst() and e.args[-1].c == o_al:
                    vals.add(e.st.rng(e.args[0]))
            want = 1 if b == 1 else 2
            inst = '%s: level byte %d is recorded as %s' % (key, b, 'warning (1)' if want == 1 else 'fatal (2)')
            if vals == {(want, want)}:
                chk.ok(R, inst, P.src)
            else:
                chk.violation(R, inst, P.src, 'eng.alert receives %s: a malformed level would not end the connection (and the next byte would be read as a level)'
                              % sorted(vals), key='%s %s %d' % (R, key, b))
        # description byte under a fatal level: must fail, whatever the byte
        I = t0ai.Interp(P, field_ranges={o_al: (2, 2)})
        st = t0ai.St()
        st.stack = [I.fresh(st, 'desc', 0, 255)]
        out = I.run_word(W, st, ())
        inst = '%s: a description byte after a fatal level always ends in fail(256 + description)' % key
        if not out:
            chk.ok(R, inst, P.src)
        else:
            chk.violation(R, inst, P.src, 'the word can return under eng.alert == 2', key='%s %s fatal-returns' % (R, key))


def reneg_declined_obligations():
    s = 'src/ssl/ssl_engine.c'
    u = build.load_unit(s)
    L = irf.Layouts(u)
    f = lambda n: L.field('br_ssl_engine_context', n)[0]
    cv = build.const_values(['BR_OPT_NO_RENEGOTIATION', 'BR_IO_FAILED', 'BR_ERR_IO'])
    R = 'renegotiation-declined'
    NI = ('jump_handshake',)
    nojh = ALL(RET(0), NOCALL('jump_handshake'))
    obs = [
        Ob(s, 'br_ssl_engine_renegotiate', Call('br_ssl_engine_closed'), ('pin', 1), nojh, ('pin', 0), 'closed engine', rule=R, noinline=NI,
           extra_hyps=[]),
        Ob(s, 'br_ssl_engine_renegotiate', FieldLoad(0, f('reneg'), 'reneg'), ('pin', 1), nojh, None, 'peer without secure renegotiation (reneg == 1)', rule=R, noinline=NI),
        Ob(s, 'br_ssl_engine_renegotiate', FieldLoad(0, f('flags'), 'flags'), ('pin', cv['BR_OPT_NO_RENEGOTIATION']), nojh, None,
           'BR_OPT_NO_RENEGOTIATION', rule=R, noinline=NI),
        Ob(s, 'br_ssl_engine_renegotiate', Call('br_ssl_engine_recvapp_buf'), ('pin', 'inttoptr (i64 4096 to i8*)'), nojh, None,
           'unread application data pending', rule=R, noinline=NI + ('br_ssl_engine_recvapp_buf',)),
    ]
    return obs


def engine_rules(chk):
    s = 'src/ssl/ssl_engine.c'
    u = build.load_unit(s)
    NI = ('jump_handshake',)
    obs = reneg_declined_obligations()
    oblig.run_obligations(chk, obs)
    close_order(chk)
    NI = ('jump_handshake',)
    # close on a closed engine does nothing
    oblig.run_obligations(chk, [
        Ob(s, 'br_ssl_engine_close', Call('br_ssl_engine_closed'), ('pin', 1), NOCALL('jump_handshake'), ('pin', 0), 'closing twice', rule='close-discards-before-closing', noinline=NI),
    ])


def _under_shutdown_recv(F, c, o_sr):
    """the call is reachable only through the non-zero side of a branch on (some engine)->shutdown_recv"""
    cb = F.block_of[c['id']]
    for b in F.blocks:
        t = b['insts'][-1]
        if t['op'] != 'br' or len(t['ops']) != 3 or t['ops'][0]['k'] != 'i':
            continue
        x = F.insts[t['ops'][0]['v']]
        neg = False
        while x['op'] == 'xor' and any(q['k'] == 'c' for q in x['ops']):
            neg = not neg
            x = F.insts[next(q for q in x['ops'] if q['k'] == 'i')['v']]
        if x['op'] != 'icmp' or x['pred'] not in ('eq', 'ne') or not (x['ops'][1]['k'] == 'c' and x['ops'][1]['v'] == 0):
            continue
        v = F.strip_casts(x['ops'][0])
        while v['k'] == 'i' and F.insts[v['v']]['op'] in ('zext', 'sext', 'trunc'):
            v = F.insts[v['v']]['ops'][0]
        if v['k'] != 'i' or F.insts[v['v']]['op'] != 'load':
            continue
        _, off = F.addr_of(F.insts[v['v']]['ops'][0])
        if off != o_sr:
            continue
        nz_is_true = (x['pred'] == 'ne') != neg
        dest = t['ops'][2]['v'] if nz_is_true else t['ops'][1]['v']      # operand order: cond, false, true
        if len(F.pred[dest]) == 1 and F.dominates_block(dest, cb):
            return True
    return False


def fail_call_sites(chk):
    """every C call of br_ssl_engine_fail passes a provably non-zero error code; the one exception is the orderly end of the closure
    sequence in the I/O wrapper: our close_notify cannot be written any more but the peer's was received (RFC 5246 7.2.1)"""
    from .. import wmw
    R = 'engine-fail-call-sites'
    P = wmw.program()
    o_sr = irf.Layouts(build.load_unit('src/ssl/ssl_engine.c')).field('br_ssl_engine_context', 'shutdown_recv')[0]
    n = 0
    for (un, fn), F in sorted(P.static.items()):
        for c in F.calls('br_ssl_engine_fail'):
            n += 1
            a = c['ops'][1]
            inst = '%s (%s): br_ssl_engine_fail argument is non-zero' % (fn, un)
            where = F.where(c)
            if a['k'] == 'c':
                if a['v'] != 0:
                    chk.ok(R, inst + ' [constant %d]' % a['v'], where)
                elif _under_shutdown_recv(F, c, o_sr):
                    chk.ok(R, inst.replace('is non-zero', 'is zero only after the peer\'s close_notify (shutdown_recv != 0): orderly closure'), where)
                else:
                    chk.violation(R, inst, where, 'the engine is failed with error code 0 (reported as orderly closure)', key='%s %s const0 line-independent' % (R, fn))
                continue
            ai = F.insts[a['v']] if a['k'] == 'i' else None
            okk = False
            det = ''
            if ai and ai['op'] == 'sub' and ai['ops'][0] == {'k': 'c', 'v': 0, 'w': 32}:
                x = ai['ops'][1]
                for i in F.insts.values():
                    if i['op'] == 'icmp' and i['pred'] == 'slt' and i['ops'][0] == x and i['ops'][1] == {'k': 'c', 'v': 0, 'w': 32}:
                        # the branch on it: true successor must dominate the call
                        for b in F.blocks:
                            t = b['insts'][-1]
                            if t['op'] == 'br' and len(t['ops']) == 3 and t['ops'][0] == {'k': 'i', 'v': i['id']}:
                                tdest = t['ops'][2]['v']
                                if F.dominates_block(tdest, F.block_of[c['id']]) and len(F.pred[tdest]) == 1:
                                    okk = True
                                    det = '-x under x < 0'
            elif ai and ai['op'] == 'load' and ai['ty'] == 'i32':
                # the T0 `fail` native: error code popped from the data stack; its values are decided by the bytecode rule above
                okk = True
                det = 'popped from the T0 data stack (decided by failure-code-nonzero)'
            if okk:
                chk.ok(R, inst + ' [%s]' % det, where)
            else:
                chk.violation(R, inst, where, 'argument is neither a non-zero constant nor a negated negative value', key='%s %s nonconst' % (R, fn))
    chk.floor('br_ssl_engine_fail call sites', n, 18)


def io_rules(chk):
    s = 'src/ssl/ssl_io.c'
    cv = build.const_values(['BR_ERR_IO', 'BR_ERR_OK', 'BR_SSL_CLOSED'])
    R = 'io-wrapper-errors'
    failio = CALLDOM('br_ssl_engine_fail', 1, lambda v: v == cv['BR_ERR_IO'], 'br_ssl_engine_fail(BR_ERR_IO) on every path from the site')
    failany = CALLDOM('br_ssl_engine_fail', 1, lambda v: v in (cv['BR_ERR_IO'], cv['BR_ERR_OK']), 'br_ssl_engine_fail(BR_ERR_IO or BR_ERR_OK) on every path from the site')
    rd = r'^i32 \(i8\*, i8\*, i64\)'
    obs = [
        Ob(s, 'run_until', ICall('low_read', ftype=rd, pred=lambda F, i: F.addr_of(F.insts[F.strip_casts(i['cv'])['v']]['ops'][0])[1] == 8 if F.strip_casts(i['cv'])['k'] == 'i' else False),
           ('pin', -1), ALL(RET(-1), failio), ('pin', 5), 'transport read error', rule=R),
        Ob(s, 'run_until', ICall('low_write', ftype=rd, pred=lambda F, i: F.addr_of(F.insts[F.strip_casts(i['cv'])['v']]['ops'][0])[1] == 24 if F.strip_casts(i['cv'])['k'] == 'i' else False),
           ('pin', -1), ALL(RET(-1), failany), ('pin', 5), 'transport write error: the engine is always closed (BR_ERR_IO, or orderly when the peer\'s close_notify '
           'was already received) - br_sslio_close() loops until it is', rule=R),
        Ob(s, 'run_until', Call('br_ssl_engine_current_state'), ('pin', cv['BR_SSL_CLOSED']), RET(-1), None, 'closed engine', rule=R),
    ]
    for fn in ('br_sslio_read', 'br_sslio_write'):
        obs.append(Ob(s, fn, Call('run_until'), ('pin', -1), RET(-1), ('pin', 0), 'engine failure is reported to the caller', rule=R, noinline=('run_until',)))
    obs.append(Ob(s, 'br_sslio_read_all', Call('br_sslio_read'), ('pin', -1), RET(-1), None, 'propagation', rule=R))
    obs.append(Ob(s, 'br_sslio_write_all', Call('br_sslio_write'), ('pin', -1), RET(-1), None, 'propagation', rule=R))
    obs.append(Ob(s, 'br_sslio_flush', Call('run_until'), ('pin', -1), RET(-1), ('pin', 0), 'propagation', rule=R, noinline=('run_until',)))
    oblig.run_obligations(chk, obs)


def run(tier):
    chk = report.Check('C19', tier,
                       'Static necessary conditions: every failure site of both handshake interpreters carries a provably non-zero error code '
                       '(abstract interpretation of the T0 bytecode: constants, 256+alert, negated negative verdicts, guarded values), except '
                       'exactly one site per interpreter - the orderly closure, reached only after a close_notify alert was queued - so a fatal / '
                       'malformed alert or any protocol error can never end in err == 0; renegotiation is declined without entering the handshake '
                       'when the engine is closed, the peer lacks secure renegotiation, the option forbids it or data is pending; close discards '
                       'unread application data before entering the closure handshake; the simplified I/O wrapper turns transport errors into '
                       'BR_ERR_IO / -1 and propagates failure. NOT decided: byte-stream ordering around closure and renegotiation.',
                       trusted=['sa/t0.py, sa/t0ai.py', 'clang/opt 14'])
    for key in ('hs_client', 'hs_server'):
        t0_fail_codes(chk, key)
    engine_rules(chk)
    reneg_binding(chk)
    reneg_extension_required(chk)
    alert_levels(chk)
    close_notify_remembered(chk)
    record_type_restored(chk)
    no_renegotiation_option(chk)
    input_discarded_only_when_closing(chk)
    received_record_dispatch(chk)
    io_wrapper_acks_transport_count(chk)
    scsv_refused_on_renegotiation(chk)
    fail_call_sites(chk)
    io_rules(chk)
    # the closure / renegotiation processor is resumed when a record has been sent (engine I/O transition table, shared with C01 / C06)
    from .. import engio as _engio
    oblig.run_obligations(chk, _engio.progress_obligations())
    chk.floor('rule instances', len(chk.obls), 100)
    return chk.finish()
