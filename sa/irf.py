"""IR facts layer over irdump JSON: CFG, dominators, loops, def-use, struct layouts."""
import collections


class Func:
    def __init__(self, unit, f):
        self.unit = unit
        self.f = f
        self.name = f['name']
        self.blocks = f['blocks']
        self.insts = {}
        self.block_of = {}
        self.order = {}
        n = 0
        for b in self.blocks:
            for i in b['insts']:
                self.insts[i['id']] = i
                self.block_of[i['id']] = b['id']
                self.order[i['id']] = n
                n += 1
        self.succ = {b['id']: [] for b in self.blocks}
        self.pred = {b['id']: [] for b in self.blocks}
        self.rets = []
        for b in self.blocks:
            t = b['insts'][-1]
            if t['op'] == 'ret':
                self.rets.append(b['id'])
            tops = t['ops']
            if t['op'] == 'br' and len(tops) == 3 and tops[0]['k'] == 'c':
                tops = [tops[2] if tops[0]['v'] != 0 else tops[1]]      # LLVM operand order: cond, false, true
            for o in tops:
                if o['k'] == 'bb' and o['v'] not in self.succ[b['id']]:
                    self.succ[b['id']].append(o['v'])
        for a, ss in self.succ.items():
            for s in ss:
                self.pred[s].append(a)
        self.entry = self.blocks[0]['id'] if self.blocks else None
        self._dom = None
        self._pdom = None
        self._uses = None

    def file(self):
        return self.f.get('file', self.unit.get('_src', '?'))

    def where(self, inst=None):
        fl = self.file()
        for d in ('/src/', '/inc/'):
            k = fl.rfind(d)
            if k >= 0:
                fl = fl[k + 1:]
                break
        if inst is None:
            return '%s:%s' % (fl, self.f.get('line', '?'))
        return '%s:%s' % (fl, inst.get('line', '?'))

    # -- dominators
    @staticmethod
    def _domsets(ids, entry, pred):
        dom = {i: set(ids) for i in ids}
        dom[entry] = {entry}
        ch = True
        while ch:
            ch = False
            for i in ids:
                if i == entry:
                    continue
                ps = [dom[p] for p in pred[i] if p in dom]
                n = (set.intersection(*ps) if ps else set()) | {i}
                if n != dom[i]:
                    dom[i] = n
                    ch = True
        return dom

    def reachable(self):
        seen = {self.entry}
        st = [self.entry]
        while st:
            b = st.pop()
            for s in self.succ[b]:
                if s not in seen:
                    seen.add(s)
                    st.append(s)
        return seen

    def dom(self):
        if self._dom is None:
            ids = [b['id'] for b in self.blocks if b['id'] in self.reachable()]
            pred = {i: [p for p in self.pred[i] if p in ids] for i in ids}
            self._dom = self._domsets(ids, self.entry, pred)
        return self._dom

    def dominates_block(self, a, b):
        return a in self.dom().get(b, ())

    def dominates(self, ia, ib):
        """instruction ia dominates instruction ib"""
        ba, bb = self.block_of[ia], self.block_of[ib]
        if ba == bb:
            return self.order[ia] <= self.order[ib]
        return self.dominates_block(ba, bb)

    def uses(self):
        if self._uses is None:
            u = collections.defaultdict(list)
            for i in self.insts.values():
                for k, o in enumerate(i['ops']):
                    if o['k'] == 'i':
                        u[o['v']].append((i['id'], k))
                if i.get('cv') and i['cv']['k'] == 'i':
                    u[i['cv']['v']].append((i['id'], -1))
                for vo in i.get('var', []) or []:
                    pass
            self._uses = u
        return self._uses

    def calls(self, callee=None):
        res = []
        for b in self.blocks:
            for i in b['insts']:
                if i['op'] == 'call' and not (i.get('callee') or '').startswith('llvm.dbg'):
                    if callee is None or i.get('callee') == callee:
                        res.append(i)
        return res

    def loops_blocks(self):
        """set of blocks that are inside some natural loop"""
        dom = self.dom()
        inloop = set()
        for b in dom:
            for s in self.succ[b]:
                if s in dom[b]:           # back edge b -> s
                    body = {s, b}
                    st = [b]
                    while st:
                        x = st.pop()
                        if x == s:
                            continue
                        for p in self.pred[x]:
                            if p not in body and p in dom:
                                body.add(p)
                                st.append(p)
                    inloop |= body
        return inloop

    def strip_casts(self, o):
        while o['k'] == 'i' and self.insts[o['v']]['op'] in ('bitcast', 'zext', 'sext', 'trunc'):
            o = self.insts[o['v']]['ops'][0]
        return o

    def addr_of(self, o, depth=0):
        """decompose an address operand into (base operand, const offset or None)"""
        off = 0
        while True:
            if o['k'] == 'i':
                i = self.insts[o['v']]
                if i['op'] == 'bitcast':
                    o = i['ops'][0]
                    continue
                if i['op'] == 'getelementptr':
                    if i.get('off') is None or i.get('var'):
                        return i['ops'][0], None
                    off += i['off']
                    o = i['ops'][0]
                    continue
            if o['k'] == 'cegep':
                off += o['off']
                o = o['base']
                continue
            if o['k'] == 'cecast':
                o = o['base']
                continue
            return o, off


class Units:
    """index over several loaded units"""
    def __init__(self, units):
        self.units = units
        self.funcs = {}
        self.static = {}
        self.globals = {}
        for un, d in units.items():
            for g in d['globals']:
                if g['init'] or g['name'] not in self.globals:
                    self.globals[g['name']] = g
            for f in d['functions']:
                if f['decl']:
                    continue
                F = Func(d, f)
                self.static[(un, f['name'])] = F
                if not f['internal'] or f['name'] not in self.funcs:
                    self.funcs[f['name']] = F

    def func(self, name, unit=None):
        if unit is not None and (unit, name) in self.static:
            return self.static[(unit, name)]
        return self.funcs.get(name)


class Layouts:
    """struct layouts from debug info: offsetof / sizeof by field path"""
    def __init__(self, unit):
        self.by_id = {t['id']: t for t in unit['dtypes']}
        self.by_name = {}
        for t in unit['dtypes']:
            if t['name']:
                self.by_name[t['name']] = t
        for td in unit['typedefs']:
            if td['id'] in self.by_id:
                self.by_name.setdefault(td['name'], self.by_id[td['id']])

    def struct(self, name):
        return self.by_name.get(name)

    def field(self, sname, path):
        """path 'a.b.c' -> (offset, size, member)"""
        t = self.by_name[sname]
        off = 0
        m = None
        for p in path.split('.'):
            m = next((x for x in t['members'] if x['name'] == p), None)
            if m is None:
                raise KeyError('%s.%s' % (sname, path))
            off += m['off']
            if m['inner'] in self.by_id:
                t = self.by_id[m['inner']]
        return off, m['size'], m

    def flat_fields(self, sname, prefix='', base=0, out=None, depth=0):
        """all leaf fields (arrays are leaves) with absolute offsets"""
        if out is None:
            out = []
        t = self.by_name[sname] if isinstance(sname, str) else sname
        for m in t['members']:
            inner = self.by_id.get(m['inner'])
            if inner is not None and m['count'] == 0 and depth < 6:
                self.flat_fields(inner, prefix + m['name'] + '.', base + m['off'], out, depth + 1)
            else:
                out.append((base + m['off'], m['size'], prefix + m['name'], m))
        return out

    def field_at(self, sname, off):
        """leaf field containing byte offset"""
        best = None
        for o, s, n, m in self.flat_fields(sname):
            if o <= off < o + max(s, 1):
                if best is None or s < best[1]:
                    best = (o, s, n, m)
        return best
