"""Bounded writes into fixed-size buffers (C05): every bulk write (memcpy / memmove / memset / br_ccopy and reviewed
callee contracts) whose destination is a local array or an array member of a context structure and whose length is not
a constant must be unreachable when the length exceeds the room that is left.

Decided with the FOLD engine: `llvm.assume(len > room)` is planted immediately before the call together with a site marker;
after `opt -O2` of the unit the marker must have disappeared (LLVM derived a contradiction from the guards that dominate the
call).  The set of sites the optimiser can decide on the pinned tree is frozen in rules/bufcopy_sites.json (keyed by function,
destination variable and ordinal -- never by line); a frozen site that stops folding is a violation, a site outside the table
that does not fold is only listed as undecided (the rule is exact, not ranked).
"""
import os, re, json
from concurrent.futures import ThreadPoolExecutor
from . import build, irf, fold, oblig, wmw
from .build import AnalysisBroken

MEM = ('memcpy', 'memmove', 'memset', 'llvm.memcpy', 'llvm.memmove', 'llvm.memset', 'memcpy_P', 'memmove_P')
# callee -> (destination argument, length argument, scale): the callee may write up to scale*len bytes at dst.
# Reviewed: br_ecdsa_asn1_to_raw converts in place and pads r and s to the longer of the two, i.e. up to 2*(sig_len-?) < 2*sig_len bytes
CONTRACTS = {
    'br_ccopy': (1, 3, 1),
    'br_ecdsa_asn1_to_raw': (0, 1, 2),
}
TABLE = os.path.join(build.VERIF, 'rules', 'bufcopy_sites.json')


# (struct, pointer member, capacity member): the pointer member addresses a caller-supplied buffer of <capacity member> bytes
PAIRS = {'br_name_element': ('buf', 'len')}


def _pair_dest(F, L, o):
    """if address operand o is (load X->ptrmember) [+ const], return (key name, X operand, capacity load instruction, const offset)"""
    base, off = F.addr_of(o)
    var = []
    if off is None:
        p = F.strip_casts(o)
        if p['k'] != 'i':
            return None
        g = F.insts[p['v']]
        if g['op'] != 'getelementptr' or g.get('off') is None or len(g.get('var') or []) != 1:
            return None
        base, off0 = F.addr_of(g['ops'][0])
        if off0 is None:
            return None
        off = off0 + g['off']
        var = g['var']
    if base['k'] != 'i' or F.insts[base['v']]['op'] != 'load':
        return None
    ld = F.insts[base['v']]
    p = F.strip_casts(ld['ops'][0])
    if p['k'] != 'i':
        return None
    g = F.insts[p['v']]
    if g['op'] != 'getelementptr' or g.get('off') is None or g.get('var'):
        return None
    X = F.strip_casts(g['ops'][0])
    xty = F.insts[X['v']]['ty'] if X['k'] == 'i' else (F.f['params'][X['v']]['ty'] if X['k'] == 'a' else '')
    sn = _struct_of(xty)
    if sn not in PAIRS or sn not in L.by_name:
        return None
    pf, cf = PAIRS[sn]
    if L.field(sn, pf)[0] != g['off']:
        return None
    coff = L.field(sn, cf)[0]
    caps = []
    for i in F.insts.values():
        if i['op'] != 'load':
            continue
        q = F.strip_casts(i['ops'][0])
        if q['k'] == 'i' and F.insts[q['v']]['op'] == 'getelementptr' and not F.insts[q['v']].get('var') \
                and F.insts[q['v']].get('off') == coff and F.strip_casts(F.insts[q['v']]['ops'][0]) == X:
            caps.append(i)
    return sn, pf, caps, off, var


_prog = None


def _program():
    """all units, compiled WITHOUT the verification hooks: the same IR the FOLD engine rewrites (instruction names must agree)"""
    global _prog
    if _prog is None:
        _prog = irf.Units(build.load_units(build.all_sources(), 'm2r', 'host', hooks=False))
    return _prog


def _kind(cal):
    if cal in CONTRACTS:
        return CONTRACTS[cal]
    if cal.startswith(MEM):
        return (0, 2, 1)
    return None


def _struct_of(ty):
    m = re.match(r'%struct\.([\w.]+)\*$', ty or '')
    return m.group(1) if m else None


def enumerate_sites():
    """[(src, fname, callee, nth-of-callee-in-function, key, room, len operand, extra offset terms)]"""
    P = _program()
    sites = []
    for (un, fn), F in sorted(P.static.items()):
        src = F.file().replace(build.REPO + '/', '')
        if not src.startswith('src/'):
            continue
        unit = P.units[un]
        L = None
        per_callee = {}
        decl = {d['v']: d['var'] for d in F.f.get('declares', [])}
        ordn = {}
        for c in F.calls():
            roomv = None
            cal = c.get('callee')
            if cal is None:
                continue
            k = per_callee.get(cal, 0)
            per_callee[cal] = k + 1
            kd = _kind(cal)
            if kd is None:
                continue
            di, li, scale = kd
            ln = c['ops'][li]
            if ln['k'] == 'c':
                continue
            base, off = F.addr_of(c['ops'][di])
            var = []
            if off is None:
                # one variable-index GEP on top of a constant chain
                o = F.strip_casts(c['ops'][di])
                if o['k'] != 'i':
                    continue
                g = F.insts[o['v']]
                if g['op'] != 'getelementptr' or g.get('off') is None or len(g.get('var') or []) != 1:
                    continue
                base, off0 = F.addr_of(g['ops'][0])
                if off0 is None:
                    continue
                off = off0 + g['off']
                var = g['var']
            room, dest = None, None
            if base['k'] == 'i' and F.insts[base['v']]['op'] == 'alloca':
                a = F.insts[base['v']]
                if a.get('size', -1) <= 0:
                    continue
                room, dest = a['size'] - off, decl.get(a['id'], 'local%d' % a['id'])
            elif base['k'] == 'a':
                sn = _struct_of(F.f['params'][base['v']]['ty'])
                if sn is None:
                    continue
                if L is None:
                    L = irf.Layouts(unit)
                if sn not in L.by_name:
                    continue
                fa = L.field_at(sn, off)
                if fa is None or fa[3]['count'] == 0:
                    continue        # not an array member: a scalar/pointer member is never the target of a variable-length copy
                room, dest = fa[0] + fa[1] - off, '%s.%s' % (sn, fa[2])
            else:
                if L is None:
                    L = irf.Layouts(unit)
                pd = _pair_dest(F, L, c['ops'][di])
                if pd is None:
                    continue
                sn, pf, caps, off, var = pd
                caps = [x for x in caps if F.dominates(x['id'], c['id'])]
                if not caps:
                    continue
                capi = max(caps, key=lambda x: F.order[x['id']])
                room, dest, roomv = 1 << 40, '%s.%s' % (sn, pf), capi['n']
            if room <= 0:
                continue
            okey = (fn, dest, cal.split('.')[1] if cal.startswith('llvm.') else cal)
            n = ordn.get(okey, 0)
            ordn[okey] = n + 1
            key = '%s:%s:%s:%s#%d' % (src, fn, okey[2], dest, n)
            sites.append(dict(src=src, fn=fn, callee=cal, nth=k, key=key, room=room, scale=scale, len=ln, var=var, line=c.get('line'), dest=dest, un=un,
                              roomv=roomv, constoff=off if roomv else 0))
    return sites


def enumerate_stores():
    """stores through one variable-index GEP into a local array / array member: (index*scale + offset + store size) must stay inside"""
    P = _program()
    sites = []
    for (un, fn), F in sorted(P.static.items()):
        src = F.file().replace(build.REPO + '/', '')
        if not src.startswith('src/'):
            continue
        unit = P.units[un]
        L = None
        decl = {d['v']: d['var'] for d in F.f.get('declares', [])}
        ordn = {}
        k = -1
        for i in sorted(F.insts.values(), key=lambda x: x['id']):
            if i['op'] != 'store':
                continue
            k += 1
            roomv = None
            o = F.strip_casts(i['ops'][1])
            if o['k'] != 'i':
                continue
            g = F.insts[o['v']]
            if g['op'] != 'getelementptr' or g.get('off') is None or len(g.get('var') or []) != 1:
                continue
            base, off0 = F.addr_of(g['ops'][0])
            if off0 is None:
                continue
            off = off0 + g['off']
            if base['k'] == 'i' and F.insts[base['v']]['op'] == 'alloca':
                a = F.insts[base['v']]
                if a.get('size', -1) <= 0:
                    continue
                room, dest = a['size'] - off, decl.get(a['id'], 'local%d' % a['id'])
            elif base['k'] == 'a':
                sn = _struct_of(F.f['params'][base['v']]['ty'])
                if sn is None:
                    continue
                if L is None:
                    L = irf.Layouts(unit)
                if sn not in L.by_name:
                    continue
                fa = L.field_at(sn, off)
                if fa is None or fa[3]['count'] == 0:
                    continue
                room, dest = fa[0] + fa[1] - off, '%s.%s' % (sn, fa[2])
            else:
                if L is None:
                    L = irf.Layouts(unit)
                pd = _pair_dest(F, L, i['ops'][1])
                if pd is None:
                    continue
                sn, pf, caps, off, _v = pd
                caps = [x for x in caps if F.dominates(x['id'], i['id'])]
                if not caps:
                    continue
                capi = max(caps, key=lambda x: F.order[x['id']])
                room, dest, roomv = 1 << 40, '%s.%s' % (sn, pf), capi['n']
            okey = (fn, dest)
            n = ordn.get(okey, 0)
            ordn[okey] = n + 1
            key = '%s:%s:store:%s#%d' % (src, fn, dest, n)
            sites.append(dict(src=src, fn=fn, callee='<store>', nth=k, key=key, room=room, scale=1, len=None, lenconst=i.get('size', 1) + (off if roomv else 0),
                              var=g['var'], line=i.get('line'), dest=dest, un=un, roomv=roomv))
    return sites


def _opname(F, o):
    if o['k'] == 'a':
        p = F.f['params'][o['v']]
        return p['n'], p['ty']
    if o['k'] == 'i':
        i = F.insts[o['v']]
        return i['n'], i['ty']
    raise AnalysisBroken('length operand of unexpected kind %s' % o)


def decide(site):
    """True if the site is unreachable under `written bytes > room`"""
    U = oblig.funit(site['src'])
    F = U.func(site['fn'])
    ln, lty = _opname(F, site['len']) if site['len'] is not None else (None, 'i64')
    hyp = dict(kind='before_call', callee=site['callee'], nth=site['nth'], len=ln, lty=lty, room=site['room'] // site['scale'], var=[],
               lenconst=site.get('lenconst', 0), roomv=site.get('roomv'))
    if site.get('roomv') and site.get('constoff'):
        hyp['var'].append((str(site['constoff']), 'i64', 1))
    for (o, sc) in site['var']:
        n, ty = _opname(F, o)
        hyp['var'].append((n, ty, sc))
    Fo = U.optimise(site['fn'], [hyp])
    ms = [i for i in fold._reach_insts(Fo) if i['op'] == 'call' and i.get('callee') == 'verif.site']
    return not ms


def _prebuild(sites, jobs=16):
    srcs = sorted(set(s['src'] for s in sites))
    with ThreadPoolExecutor(jobs) as ex:
        list(ex.map(oblig.funit, srcs))


def check(chk, rule='fixed-buffer-copy-bounded', jobs=16):
    sites = enumerate_sites()
    nbulk = len(sites)
    sites += enumerate_stores()
    _prebuild(sites)
    if nbulk < 60 or len(sites) - nbulk < 100:
        raise AnalysisBroken('only %d variable-length writes into fixed-size buffers found (expected > 60): the enumeration is broken' % len(sites))
    frozen = json.load(open(TABLE))['sites']

    def work(s):
        try:
            return s, decide(s), None
        except AnalysisBroken as e:
            return s, None, e
    with ThreadPoolExecutor(jobs) as ex:
        res = list(ex.map(work, sites))
    seen = set()
    und = []
    for s, okk, err in res:
        if err is not None:
            raise err
        seen.add(s['key'])
        if s.get('roomv'):
            inst = '%s: write #%s through %s beyond the capacity held in its companion length member is unreachable' % (s['fn'], s['key'].rsplit('#', 1)[1] + ('s' if s['callee'] == '<store>' else 'c'), s['dest'])
        elif s['callee'] == '<store>':
            inst = '%s: %s[i] := .. (store #%s) with i beyond the %d bytes left is unreachable' % (s['fn'], s['dest'], s['key'].rsplit('#', 1)[1], s['room'])
        else:
            inst = '%s: %s(%s, .., len) with len > %d bytes left is unreachable' % (s['fn'], s['callee'], s['dest'], s['room'] // s['scale'])
        where = '%s:%s' % (s['src'], s['line'])
        if okk:
            chk.ok(rule, inst, where, 'llvm.assume(len > room) before the call makes the site dead')
        elif s['key'] in frozen:
            chk.violation(rule, inst, where, 'the guards that dominated this write on the reference tree no longer exclude a length larger than the '
                          'destination (%s%s): a longer input overflows it' % (s['dest'], '' if s.get('roomv') else ', %d bytes left' % (s['room'] // s['scale'])), key='%s %s' % (rule, s['key']))
        else:
            und.append(s['key'])
    missing = [k for k in frozen if k not in seen]
    chk.count('bounded-copy sites enumerated', len(sites))
    chk.count('bounded-copy sites undecided (bound depends on arithmetic the optimiser cannot refute)', len(und))
    for k in und:
        chk.notes.append('bounded-copy undecided (not claimed): ' + k)
    # a frozen site that vanished was rewritten: nothing to judge, but the table must not silently shrink below the floor
    chk.floor('frozen bounded-copy sites still present', len(frozen) - len(missing), max(1, int(0.8 * len(frozen))))
    return sites, und


if __name__ == '__main__':
    # regenerate the table from the current tree (reviewed by hand before committing)
    import sys
    sites = enumerate_sites() + enumerate_stores()
    _prebuild(sites)
    out = {}
    with ThreadPoolExecutor(16) as ex:
        for s, okk in zip(sites, ex.map(decide, sites)):
            print('%-6s %s room=%d line=%s' % ('FOLD' if okk else 'open', s['key'], s['room'], s['line']))
            if okk:
                out[s['key']] = dict(room=s['room'] // s['scale'])
    json.dump(dict(sites=out), open(TABLE, 'w'), indent=1, sort_keys=True)
    print(len(out), 'of', len(sites), 'sites decided')
