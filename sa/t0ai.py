"""Abstract interpreter for T0 bytecode (DESIGN 3.4): affine expressions over symbols + interval environment + facts.

Per-word worklist dataflow with joins at merge points, widening at loop heads, context-sensitive word summaries
memoised on the abstract arguments.  Emits `events` (native invocations with abstract arguments) that the rules
inspect; supports hypothesis pins on native results.  Nothing is executed: natives are modelled by name for the
T0 kernel vocabulary and by their IR-derived stack effect otherwise.
"""
import math, itertools, collections
from . import t0
from .build import AnalysisBroken

INF = math.inf
LO32, HI32 = -2 ** 31, 2 ** 32 - 1


class E:
    __slots__ = ('t', 'c', '_h')

    def __init__(s, t=(), c=0):
        s.t = tuple(sorted((k, v) for k, v in dict(t).items() if v != 0))
        s.c = c
        s._h = hash((s.t, s.c))

    def __add__(s, o):
        d = dict(s.t)
        for k, v in o.t:
            d[k] = d.get(k, 0) + v
        return E(d, s.c + o.c)

    def __neg__(s):
        return E({k: -v for k, v in s.t}, -s.c)

    def __sub__(s, o):
        return s + (-o)

    def scale(s, n):
        return E({k: v * n for k, v in s.t}, s.c * n)

    def __eq__(s, o):
        return isinstance(o, E) and s.t == o.t and s.c == o.c

    def __hash__(s):
        return s._h

    def isconst(s):
        return not s.t

    def syms(s):
        return [k for k, _ in s.t]

    def subst(s, m):
        r = E((), s.c)
        for k, v in s.t:
            r = r + (m[k].scale(v) if k in m else E({k: v}))
        return r

    def __repr__(s):
        parts = ['%s%s' % ('' if v == 1 else ('-' if v == -1 else str(v) + '*'), k) for k, v in s.t]
        if s.c or not s.t:
            parts.append(str(s.c))
        return ' + '.join(parts)


def C(n):
    return E((), n)


def S(name):
    return E({name: 1})


class St:
    """abstract state at one program point"""
    def __init__(s):
        s.stack = []
        s.locs = []
        s.env = {}       # sym -> (lo, hi)
        s.facts = {}     # E -> (lo, hi)
        s.preds = {}     # E (boolean symbol) -> predicate tuple
        s.nz = set()     # expressions known to be non-zero
        s.pinned = frozenset()   # symbols that stay live (the arguments of the word being summarised)

    def clone(s):
        n = St()
        n.stack = list(s.stack)
        n.locs = list(s.locs)
        n.env = dict(s.env)
        n.facts = dict(s.facts)
        n.preds = dict(s.preds)
        n.nz = set(s.nz)
        n.pinned = s.pinned
        return n

    def newsym(s, name, lo=LO32, hi=HI32):
        s.env[name] = (lo, hi)
        return S(name)

    def fact_index(s):
        ix = getattr(s, '_fidx', None)
        if ix is not None and ix[0] is s.facts and ix[1] == len(s.facts):
            return ix[2]
        d = {}
        for fe in s.facts:
            for k, _ in fe.t:
                d.setdefault(k, []).append(fe)
        s._fidx = (s.facts, len(s.facts), d)
        return d

    def live(s):
        L = set(s.pinned)
        for e in s.stack:
            L.update(e.syms())
        for e in s.locs:
            L.update(e.syms())
        for e, p in s.preds.items():
            L.update(e.syms())
            L.update(pred_syms(p))
        return L

    def gc(s):
        s.__dict__.pop('_symc', None)
        L = s.live()
        s.preds = {k: v for k, v in s.preds.items() if k in s.stack or k in s.locs}
        L = s.live()
        s.facts = {k: v for k, v in s.facts.items() if all(x in L for x in k.syms())}
        s.nz = set(e for e in s.nz if e in s.stack or e in s.locs)
        s.env = {k: v for k, v in s.env.items() if k in L}
        return s

    def retire(s, names, tag):
        s.__dict__.pop('_symc', None)
        s._retire(names, tag)

    def _retire(s, names, tag):
        """symbols about to be redefined: older live instances become per-slot symbols (no equalities are kept)"""
        names = set(names)
        if not names:
            return

        def fix(e, slot):
            hit = [k for k in e.syms() if k in names]
            if not hit:
                return e
            m = {}
            for k in hit:
                nk = 'o%s.%s.%s' % (tag, slot, k)
                s.env[nk] = s.env.get(k, (LO32, HI32))
                m[k] = S(nk)
            return e.subst(m)
        s.stack = [fix(e, 's%d' % i) for i, e in enumerate(s.stack)]
        s.locs = [fix(e, 'l%d' % i) for i, e in enumerate(s.locs)]
        s.nz = set(e for e in s.nz if not (set(e.syms()) & names))
        s.facts = {k: v for k, v in s.facts.items() if not (set(k.syms()) & names)}
        s.preds = {k: v for k, v in s.preds.items() if not (set(k.syms()) & names) and not (pred_syms(v) & names)}

    def rng(s, e, depth=0):
        lo = hi = e.c
        for k, v in e.t:
            if depth == 0 and s.facts and (len(e.t) > 1 or abs(v) != 1):
                sc = s.__dict__.setdefault('_symc', {})
                ck = (k, len(s.facts))
                if ck in sc and sc[ck][2] == s.env.get(k):
                    l, h = sc[ck][0], sc[ck][1]
                else:
                    l, h = s.rng(S(k), 0)        # the symbol's own range, tightened by the facts it occurs in
                    sc[ck] = (l, h, s.env.get(k))
            else:
                l, h = s.env.get(k, (-INF, INF))
            if v > 0:
                lo += v * l
                hi += v * h
            else:
                lo += v * h
                hi += v * l
        f = s.facts.get(e)
        if f:
            lo = max(lo, f[0])
            hi = min(hi, f[1])
        if depth == 0 and e.t and s.facts:
            et = e.t
            nt = tuple((k, -v) for k, v in et)
            idx = s.fact_index()
            if len(et) == 1:
                cands = idx.get(et[0][0], ())
            else:
                cands = []
                seen_f = set()
                for k, _ in et:
                    for fe in idx.get(k, ()):
                        if id(fe) not in seen_f:
                            seen_f.add(id(fe))
                            cands.append(fe)
            for fe in cands:
                fb = s.facts.get(fe)
                if fb is None:
                    continue
                fl, fh = fb
                if fe.t == et:
                    d = e.c - fe.c
                    lo = max(lo, d + fl)
                    hi = min(hi, d + fh)
                elif fe.t == nt:
                    d = e.c + fe.c
                    lo = max(lo, d - fh)
                    hi = min(hi, d - fl)
                elif len(fe.t) < len(et) and depth == 0:
                    ed = dict(et)
                    for sg in (1, -1):
                        if all(ed.get(k) == sg * v for k, v in fe.t):
                            # e = sg*fe' + rest, fe' = fe - fe.c
                            rest = E({k: v for k, v in et if k not in dict(fe.t)}, e.c - sg * fe.c)
                            rl, rh = s.rng(rest, 1)
                            if sg == 1:
                                lo = max(lo, fl + rl)
                                hi = min(hi, fh + rh)
                            else:
                                lo = max(lo, -fh + rl)
                                hi = min(hi, -fl + rh)
                elif len(fe.t) > len(et):
                    fd = dict(fe.t)
                    for sg in (1, -1):
                        if all(fd.get(k) == sg * v for k, v in et):
                            # fe = sg*(e - e.c) + rest  =>  e = sg*(fe - rest) + e.c
                            rest = E({k: v for k, v in fe.t if k not in dict(et)}, fe.c)
                            rl, rh = s.rng(rest, 1)
                            a, b = fl - rh, fh - rl
                            if sg == 1:
                                lo = max(lo, a + e.c)
                                hi = min(hi, b + e.c)
                            else:
                                lo = max(lo, -b + e.c)
                                hi = min(hi, -a + e.c)
        return lo, hi

    def refine(s, e, lo=-INF, hi=INF):
        """intersect; returns False if infeasible"""
        s.__dict__.pop('_symc', None)
        if e.isconst():
            return lo <= e.c <= hi
        if len(e.t) == 1 and abs(e.t[0][1]) == 1:
            k, v = e.t[0]
            l, h = s.env.get(k, (-INF, INF))
            if v == 1:
                nl, nh = max(l, lo - e.c), min(h, hi - e.c)
            else:
                nl, nh = max(l, e.c - hi), min(h, e.c - lo)
            s.env[k] = (nl, nh)
            return nl <= nh
        l, h = s.facts.get(e, (-INF, INF))
        s.facts[e] = (max(l, lo), min(h, hi))
        l2, h2 = s.rng(e)
        return l2 <= h2


def pred_syms(p):
    k = p[0]
    if k in ('and', 'or'):
        return pred_syms(p[1]) | pred_syms(p[2])
    if k == 'not':
        return pred_syms(p[1])
    if k == 'nz':
        return set(p[1].syms())
    return set(p[1].syms()) | set(p[2].syms())


CMPS = {'<': 'lt', '>': 'gt', '<=': 'le', '>=': 'ge', '=': 'eq', '<>': 'ne'}
UCMPS = {'u<': 'lt', 'u>': 'gt', 'u<=': 'le', 'u>=': 'ge'}
NEG = {'lt': 'ge', 'ge': 'lt', 'gt': 'le', 'le': 'gt', 'eq': 'ne', 'ne': 'eq'}


def apply_pred(st, pred, truth):
    k = pred[0]
    if k == 'and':
        if truth:
            return apply_pred(st, pred[1], True) and apply_pred(st, pred[2], True)
        return True
    if k == 'or':
        if not truth:
            return apply_pred(st, pred[1], False) and apply_pred(st, pred[2], False)
        return True
    if k == 'not':
        return apply_pred(st, pred[1], not truth)
    if k == 'nz':
        e = pred[1]
        lo, hi = st.rng(e)
        if truth:
            st.nz.add(e)
            if lo == 0:
                return st.refine(e, lo=1)
            if hi == 0:
                return st.refine(e, hi=-1)
            return not (lo == 0 and hi == 0)
        if e in st.nz:
            return False
        return st.refine(e, 0, 0)
    op, a, b = pred
    if not truth:
        op = NEG[op]
    d = a - b
    if op == 'lt':
        return st.refine(d, hi=-1)
    if op == 'le':
        return st.refine(d, hi=0)
    if op == 'gt':
        return st.refine(d, lo=1)
    if op == 'ge':
        return st.refine(d, lo=0)
    if op == 'eq':
        return st.refine(d, 0, 0)
    if op == 'ne':
        lo, hi = st.rng(d)
        if lo == 0:
            return st.refine(d, lo=1)
        if hi == 0:
            return st.refine(d, hi=-1)
        return not (lo == 0 and hi == 0)
    return True


def _s32(x):
    return x - (1 << 32) if x >> 31 else x


def _b(v):
    return 0xFFFFFFFF if v else 0


EXACT2 = {
    'and': lambda a, b: a & b, 'or': lambda a, b: a | b, 'xor': lambda a, b: a ^ b,
    '<<': lambda a, b: (a << b) if b < 32 else None, 'u>>': lambda a, b: (a >> b) if b < 32 else None,
    '>>': lambda a, b: (_s32(a) >> b) if b < 32 else None,
    '=': lambda a, b: _b(a == b), '<>': lambda a, b: _b(a != b),
    '<': lambda a, b: _b(_s32(a) < _s32(b)), '>': lambda a, b: _b(_s32(a) > _s32(b)),
    '<=': lambda a, b: _b(_s32(a) <= _s32(b)), '>=': lambda a, b: _b(_s32(a) >= _s32(b)),
    'u<': lambda a, b: _b(a < b), 'u>': lambda a, b: _b(a > b), 'u<=': lambda a, b: _b(a <= b), 'u>=': lambda a, b: _b(a >= b),
}
SIGNED_RESULT = {'=', '<>', '<', '>', '<=', '>=', 'u<', 'u>', 'u<=', 'u>=', '>>'}


class Event:
    __slots__ = ('word', 'pc', 'name', 'args', 'st', 'ctx', 'extra')

    def __init__(s, word, pc, name, args, st, ctx, extra=None):
        s.word, s.pc, s.name, s.args, s.st, s.ctx, s.extra = word, pc, name, args, st, ctx, extra


class Interp:
    def __init__(self, prog, pins=None, native_models=None, max_visits=80, field_ranges=None, split_rets=False):
        self.p = prog
        self.eff = prog.native_effects()
        self.pins = pins or {}          # native name -> constant result(s) pushed
        self.models = native_models or {}
        self.unroll_concrete = False     # execute fully constant states path by path (no joins)
        self.split_rets = split_rets      # keep the exit states of a word's different `ret`s apart (path-sensitive summaries)
        self.field_ranges = field_ranges or {}     # context offset -> (lo, hi) of the byte/half-word stored there (justified invariants)
        self.evmap = {}
        self.branches = {}       # (word, pc of a conditional jump) -> feasible outcomes seen in any context
        self.branches_magic = {}  # same, restricted to states that hold the pinned marker constant (self.magic)
        self.magic = None
        self.banned = {}
        self.cur = [None]
        self.memo = {}
        self.inprogress = set()
        self.max_visits = max_visits
        self.counter = itertools.count()
        self.depth = t0.Depth(prog, self.eff)
        for name, slot in prog.entries:
            self.depth.word(slot)
        self.dips = {}
        self.unmodelled = set()
        self.warnings = []
        self.stats = collections.Counter()

    @property
    def events(self):
        return list(self.evmap.values())

    def emit(self, ev):
        # latest wins: states only grow, so the last execution of (summary, pc) carries the final abstract state
        self.evmap[(self.cur[-1], ev.word, ev.pc, ev.name)] = ev

    # ------------------------------------------------------------ helpers
    def fresh(self, st, tag, lo=LO32, hi=HI32):
        if tag in st.env and tag in st.live():
            st.retire([tag], tag)
        return st.newsym(tag, lo, hi)

    def boolval(self, st, pred, tag):
        tag = tag + '.b'
        if tag in st.env and tag in st.live():
            st.retire([tag], tag)
        v = st.newsym(tag, -1, 0)
        st.preds[v] = pred
        return v

    def pred_of(self, st, v):
        return st.preds.get(v) or ('nz', v)

    def word_dip(self, w):
        """how many caller stack slots word w may read (computed from effects, memoised)"""
        if w in self.dips:
            return self.dips[w]
        self.dips[w] = 0
        W = self.p.words[w]
        best = 0
        seen = {}
        st = [(W.start, 0)]
        while st:
            pc, d = st.pop()
            if pc in seen and seen[pc] <= d:
                continue
            seen[pc] = d
            i = W.ins[pc]
            k = i.kind
            if k == 'ret':
                continue
            if k in ('const', 'getlocal'):
                d += 1
            elif k == 'putlocal':
                best = min(best, d - 1)
                d -= 1
            elif k == 'jump':
                st.append((i.arg, d))
                continue
            elif k in ('jumpif', 'jumpifnot'):
                best = min(best, d - 1)
                d -= 1
                st.append((i.arg, d))
            elif k == 'native':
                e = self.eff[i.arg]['dp']
                best = min(best, d + e['dip'])
                nets = set(e['ret']) | (set() if self.eff[i.arg]['failexit'] else set(e['exit']))
                nets = [x for x in nets if x is not None]
                if not nets:
                    continue
                if i.name in ('roll', 'pick'):
                    best = min(best, d - 8)
                for n in nets[1:]:
                    st.append((i.next, d + n))
                d += nets[0]
            elif k == 'call':
                best = min(best, d + self.word_dip(i.arg))
                net = self.depth.memo.get(i.arg, (None,))[0]
                if net is None:
                    continue
                d += net
            if i.next in W.ins:
                st.append((i.next, d))
        self.dips[w] = best
        return best

    # ------------------------------------------------------------ joins
    def join(self, w, pc, a, b, widen):
        """join state b into a at (w, pc); returns (state, changed)"""
        if a is None:
            return b.clone().gc(), True
        b = b.clone().gc()
        if len(a.stack) != len(b.stack):
            raise AnalysisBroken('%s W%d@%d: stack depth differs at a join (%d vs %d)' % (self.p.key, w, pc, len(a.stack), len(b.stack)))
        n = a.clone()
        changed = False
        for k in b.env:
            if k not in n.env:
                n.env[k] = b.env[k]

        def jslot(x, y, slot):
            nonlocal changed
            if x == y:
                # same expression: hull of env intervals handled below
                return x
            name = 'j%d.%d.%s' % (w, pc, slot)
            lo1, hi1 = a.rng(x)
            lo2, hi2 = b.rng(y)
            lo2, hi2 = max(lo2, LO32), min(hi2, HI32)
            if x == S(name):
                lo1, hi1 = a.env.get(name, (LO32, HI32))
                if lo2 >= lo1 and hi2 <= hi1:
                    return x
            lo, hi = min(lo1, lo2), max(hi1, hi2)
            if widen:
                if lo < lo1 or x != S(name):
                    lo = self.thr_down(w, lo) if widen == 1 else (0 if lo >= 0 else LO32)
                if hi > hi1 or x != S(name):
                    hi = self.thr_up(w, hi) if widen == 1 else HI32
            lo = max(lo, LO32)
            hi = min(hi, HI32)
            changed = True
            n.env[name] = (lo, hi)
            return S(name)
        n.stack = [jslot(x, y, 's%d' % i) for i, (x, y) in enumerate(zip(a.stack, b.stack))]
        n.locs = [jslot(x, y, 'l%d' % i) for i, (x, y) in enumerate(zip(a.locs, b.locs))]
        # linear pair invariants: slots that moved by opposite (or equal) amounts keep their sum (difference)
        xs = a.stack + a.locs
        ys = b.stack + b.locs
        zs = n.stack + n.locs
        moved = [k for k in range(len(xs)) if xs[k] != ys[k]]
        pair_facts = {}
        banned = self.banned.setdefault((self.cur[-1], w, pc), set())
        if 1 <= len(moved) <= 10 and len(xs) <= 48:
            nonconst = [k for k in range(len(xs)) if not (xs[k].isconst() and ys[k].isconst() and xs[k] == ys[k])]
            if len(nonconst) > 16:
                mv = set(moved)
                nonconst = [k for k in nonconst if k in mv] + [k for k in nonconst if k not in mv][-(16 - min(16, len(mv))):]
            for i_ in moved:
                for j_ in nonconst:
                    if j_ == i_:
                        continue
                    coefs = [1, -1]
                    if j_ in moved:
                        di, dj = ys[i_] - xs[i_], ys[j_] - xs[j_]
                        if di.isconst() and dj.isconst() and di.c and dj.c and abs(di.c) != abs(dj.c):
                            # slots advancing by different constant strides (pointer += 2, count -= 1)
                            if di.c % dj.c == 0 and abs(di.c // dj.c) <= 8:
                                coefs.append(-(di.c // dj.c))
                    for sg in coefs:
                        ez = zs[i_] + zs[j_].scale(sg)
                        if ez.isconst() or ez in pair_facts or ez in banned:
                            continue
                        l1, h1 = a.rng(xs[i_] + xs[j_].scale(sg))
                        l2, h2 = b.rng(ys[i_] + ys[j_].scale(sg))
                        l, h = min(l1, l2), max(h1, h2)
                        # keep only what plain interval arithmetic on the joined slots would not give
                        (li, hi_), (lj, hj) = n.rng(zs[i_], 1), n.rng(zs[j_], 1)
                        il, ih = (li + sg * lj, hi_ + sg * hj) if sg > 0 else (li + sg * hj, hi_ + sg * lj)
                        BIG = 1 << 30
                        kl = l if (l > il and abs(l) < BIG) else -INF
                        kh = h if (h < ih and abs(h) < BIG) else INF
                        if kl > -INF or kh < INF:
                            pair_facts[ez] = (kl, kh)
        # shared symbols: interval hull
        for k in list(n.env):
            if k in a.env and k in b.env and not k.startswith('j%d.%d.' % (w, pc)):
                l = min(a.env[k][0], b.env[k][0])
                h = max(a.env[k][1], b.env[k][1])
                if (l, h) != a.env[k]:
                    changed = True
                    n.env[k] = (l, h)
        nf = {}
        # facts about this point's join symbols are facts about the slots: evaluate them on b's slot values
        jm = {}
        pre = 'j%d.%d.' % (w, pc)
        for z, y in zip(zs, ys):
            if len(z.t) == 1 and z.c == 0 and z.t[0][1] == 1 and z.t[0][0].startswith(pre):
                jm[z.t[0][0]] = y
        for e, (l, h) in a.facts.items():
            eb = e.subst(jm) if jm and any(k in jm for k in e.syms()) else e
            l2, h2 = b.rng(eb)
            nl, nh = min(l, l2), max(h, h2)
            if widen:
                if nl < l:
                    nl = -INF
                if nh > h:
                    nh = INF
            if (nl, nh) != (l, h):
                changed = True
                if widen or (nl == -INF and nh == INF):
                    banned.add(e)       # a relation that did not hold up is not proposed again at this point
            if nl > -INF or nh < INF:
                nf[e] = (nl, nh)
        room = 60 - len(nf)
        for ez, (l, h) in sorted(pair_facts.items(), key=lambda kv: (kv[1][0] == -INF) + (kv[1][1] == INF)):
            if room <= 0:
                break
            if (l > -INF or h < INF) and ez not in a.facts and ez not in banned:
                nf[ez] = (l, h)
                changed = True
                room -= 1
        n.facts = nf
        n.preds = {k: v for k, v in a.preds.items() if b.preds.get(k) == v}
        if len(n.preds) != len(a.preds):
            changed = True
        n.nz = a.nz & b.nz
        if len(n.nz) != len(a.nz):
            changed = True
        n.gc()
        return n, changed

    def thresholds(self, w):
        if not hasattr(self, '_thr'):
            self._thr = {}
        if w not in self._thr:
            T = {0, -1, 1, 255, 256, 65535, 65536}
            for i in self.p.words[w].ins.values():
                if i.kind == 'const':
                    T |= {i.arg, i.arg - 1, i.arg + 1}
            self._thr[w] = sorted(T)
        return self._thr[w]

    def thr_down(self, w, v):
        c = [t for t in self.thresholds(w) if t <= v]
        return c[-1] if c else LO32

    def thr_up(self, w, v):
        c = [t for t in self.thresholds(w) if t >= v]
        return c[0] if c else HI32

    # ------------------------------------------------------------ words
    def run_entry(self):
        st = St()
        for name, slot in self.p.entries:
            self.run_word(slot, st, ())
        return self

    def run_word(self, w, st, ctx):
        """abstractly execute word w on state st (its stack top are the arguments).
        returns the output state (joined over all rets) or None if the word never returns"""
        W = self.p.words[w]
        need = -self.word_dip(w)
        if need > len(st.stack):
            # called with fewer known slots than it reads: pad with unknowns below
            pad = need - len(st.stack)
            st = st.clone()
            st.stack = [self.fresh(st, 'under%d' % w) for _ in range(pad)] + st.stack
        # ---- summary key: the abstract arguments
        args = st.stack[len(st.stack) - need:] if need else []
        ivs = [st.rng(a) for a in args]
        rel = []
        if 2 <= len(args) <= 6:
            for i_ in range(len(args)):
                for j_ in range(i_ + 1, len(args)):
                    if args[i_].isconst() or args[j_].isconst():
                        continue
                    for sg in (1, -1):
                        l, h = st.rng(args[i_] + args[j_].scale(sg))
                        (li, hi_), (lj, hj) = ivs[i_], ivs[j_]
                        nl, nh = (li + lj, hi_ + hj) if sg == 1 else (li - hj, hi_ - lj)
                        if l > nl or h < nh:
                            rel.append((i_, j_, sg, l, h))
        key = (w, tuple(ivs), tuple(rel))
        if (w, key) in self.inprogress:
            raise AnalysisBroken('%s: recursive word W%d' % (self.p.key, w))
        summ = self.memo.get(key)
        if summ is None:
            self.stats['summaries'] += 1
            cs = St()
            ins = []
            for k, a in enumerate(args):
                lo, hi = st.rng(a)
                if lo == hi and abs(lo) < (1 << 40):
                    ins.append(C(int(lo)))        # a known constant stays a constant inside the summary
                else:
                    ins.append(cs.newsym('a%d.%d' % (w, k), lo, hi))
            cs.stack = list(ins)
            cs.pinned = frozenset(x.t[0][0] for x in ins if x.t)
            for i_, j_, sg, l, h in rel:
                fe_ = ins[i_] + ins[j_].scale(sg)
                if not fe_.isconst():
                    cs.facts[fe_] = (l, h)
            cs.locs = [C(0)] * W.nloc
            self.inprogress.add((w, key))
            self.cur.append(key)
            try:
                out = self.analyse(w, cs, ctx)
            finally:
                self.inprogress.discard((w, key))
                self.cur.pop()
            summ = (ins, out)
            self.memo[key] = summ
        else:
            self.stats['summary_hits'] += 1
        ins, outl = summ
        if not outl:
            return None
        return [self.instantiate(st, ctx, need, args, ins, out, n) for n, out in enumerate(outl)]

    def instantiate(self, st, ctx, need, args, ins, out, nth):
        # ---- instantiate one exit state of the summary at the call site
        tag = 'r%d.%d.' % (ctx[-1] if ctx else (0, 0))
        if nth:
            tag = tag + 'x%d.' % nth
        m = {}
        for s_, a in zip(ins, args):
            if s_.t:
                m[s_.t[0][0]] = a
        res = st.clone()
        res.stack = st.stack[:len(st.stack) - need] if need else list(st.stack)
        old = [k for k in res.live() if k.startswith(tag)]
        if old:
            # the arguments may mention results of the previous execution of this call site: rename there too
            tmp = St()
            tmp.stack = list(args)
            tmp.env = res.env
            tmp.retire(old, tag.rstrip('.'))
            args = tmp.stack
            res.retire(old, tag.rstrip('.'))

        def conv(e):
            for k in e.syms():
                if k not in m:
                    nk = tag + k
                    m[k] = S(nk)
                    res.env[nk] = out.env.get(k, (LO32, HI32))
            return e.subst(m)
        for e in out.stack:
            res.stack.append(conv(e))
        for fe, (l, h) in out.facts.items():
            ce = conv(fe)
            if not ce.isconst():
                res.refine(ce, l, h)
        for pv, pr in out.preds.items():
            if pv in out.stack:
                res.preds[conv(pv)] = self.conv_pred(pr, conv)
        # refinements the callee made on its arguments (e.g. a check that fails otherwise)
        for s_, a in zip(ins, args):
            if not s_.t:
                continue
            k = s_.t[0][0]
            l, h = out.env.get(k, (LO32, HI32))
            res.refine(a, l, h)
        return res

    def conv_pred(self, pr, conv):
        k = pr[0]
        if k in ('and', 'or'):
            return (k, self.conv_pred(pr[1], conv), self.conv_pred(pr[2], conv))
        if k == 'not':
            return ('not', self.conv_pred(pr[1], conv))
        if k == 'nz':
            return ('nz', conv(pr[1]))
        return (k, conv(pr[1]), conv(pr[2]))

    def analyse(self, w, st0, ctx):
        W = self.p.words[w]
        states = {}
        visits = collections.Counter()
        preds_count = collections.Counter()
        for i in W.ins.values():
            for s_ in W.succs(i):
                preds_count[s_] += 1
        backtargets = set(i.arg for i in W.ins.values() if i.kind in ('jump', 'jumpif', 'jumpifnot') and i.arg <= i.pc)
        work = [(W.start, st0)]
        concrete_seen = set()
        outs = {}
        steps = 0
        while work:
            pc, s = work.pop()
            while True:
                steps += 1
                if steps > 200000:
                    raise AnalysisBroken('%s W%d: abstract interpretation did not converge' % (self.p.key, w))
                if preds_count[pc] > 1 or pc in backtargets:
                    widen = 0
                    if visits[pc] > 3:
                        widen = 1
                    if visits[pc] > 9:
                        widen = 2
                    if visits[pc] > self.max_visits:
                        raise AnalysisBroken('%s W%d@%d: join did not stabilise' % (self.p.key, w, pc))
                    prev = states.get(pc)
                    skip_join = False
                    if self.unroll_concrete and all(x.isconst() for x in s.stack) and all(x.isconst() for x in s.locs):
                        # fully concrete state: execute this path on its own (table scans over the constant data block)
                        ck = (pc, tuple(x.c for x in s.stack), tuple(x.c for x in s.locs))
                        if ck in concrete_seen:
                            break
                        if len(concrete_seen) < 4000:
                            concrete_seen.add(ck)
                            skip_join = True
                    if skip_join:
                        ns, ch = None, True
                    else:
                        ns, ch = self.join(w, pc, prev, s, widen)
                    if not ch:
                        break
                    if skip_join:
                        pass
                    else:
                      visits[pc] += 1
                    if (not skip_join) and pc in backtargets and prev is not None and (prev.stack != ns.stack or prev.locs != ns.locs):
                        # slot identities at the loop head changed (join symbols introduced): states recorded inside the
                        # loop body were computed over the old expressions and would lose every relation; recompute them
                        hi_src = max(j.pc for j in W.ins.values() if j.kind in ('jump', 'jumpif', 'jumpifnot') and j.arg == pc and j.pc >= pc)
                        for q in list(states):
                            if pc < q <= hi_src:
                                del states[q]
                                visits[q] = 0
                        # work items inside the loop were derived from an older head state; the new head state re-flows
                        work[:] = [(q, ws) for q, ws in work if not (pc < q <= hi_src)]
                    if not skip_join:
                        states[pc] = ns
                        s = ns.clone()
                i = W.ins[pc]
                k = i.kind
                if k == 'ret':
                    rk = pc if self.split_rets else -1
                    outs[rk], _ = self.join(w, -1 - (rk if rk > 0 else 0), outs.get(rk), s, False)
                    break
                if k == 'const':
                    s.stack.append(C(i.arg))
                elif k == 'getlocal':
                    s.stack.append(s.locs[i.arg])
                elif k == 'putlocal':
                    s.locs[i.arg] = s.stack.pop()
                elif k == 'jump':
                    pc = i.arg
                    continue
                elif k in ('jumpif', 'jumpifnot'):
                    v = s.stack.pop()
                    p = self.pred_of(s, v)
                    taken = s.clone()
                    t_ok = apply_pred(taken, p, k == 'jumpif')
                    f_ok = apply_pred(s, p, k != 'jumpif')
                    bo = self.branches.setdefault((w, pc), set())
                    if t_ok:
                        bo.add('taken')
                    if f_ok:
                        bo.add('fall')
                    if self.magic is not None and any(x.isconst() and abs(x.c) == self.magic for x in s.stack + s.locs):
                        bm = self.branches_magic.setdefault((w, pc), set())
                        if t_ok:
                            bm.add('taken')
                        if f_ok:
                            bm.add('fall')
                    if t_ok:
                        work.append((i.arg, taken))
                    if not f_ok:
                        break
                elif k == 'native':
                    r = self.native(s, w, pc, i, ctx)
                    if r == 'stop':
                        break
                elif k == 'call':
                    rs = self.run_word(i.arg, s, ctx + ((w, pc),))
                    if not rs:
                        break
                    for extra in rs[1:]:
                        extra.locs = list(s.locs)
                        if i.next in W.ins:
                            work.append((i.next, extra))
                    rs[0].locs = s.locs
                    s = rs[0]
                pc = i.next
                if pc not in W.ins:
                    raise AnalysisBroken('%s W%d: falls off the end' % (self.p.key, w))
        res = [outs[k] for k in sorted(outs)]
        if len(res) > 3:
            j = None
            for o in res:
                j, _ = self.join(w, -1, j, o, False)
            res = [j]
        for o in res:
            o.locs = []
        return res or None

    # ------------------------------------------------------------ natives
    def native(self, st, w, pc, i, ctx):
        name = i.name
        Sx = st.stack
        e = self.eff[i.arg]
        need = -e['dp']['dip']
        if need > len(Sx):
            raise AnalysisBroken('%s W%d@%d: native %s reads %d slots, %d available' % (self.p.key, w, pc, name, need, len(Sx)))
        pop, push = Sx.pop, Sx.append
        tag = 'n%d.%d' % (w, pc)

        def unknown(lo=LO32, hi=HI32, sfx=''):
            return self.fresh(st, tag + sfx, lo, hi)
        if name in self.pins:
            # hypothesis: the native's pushed result(s) are pinned
            args = [Sx[-k] for k in range(need, 0, -1)] if need else []
            self.emit(Event(w, pc, name, args, st.clone(), ctx, 'pinned'))
            net = self.net_of(i)
            pv = self.pins[name]
            pv = pv if isinstance(pv, (list, tuple)) else [pv]
            for _ in range(need):
                pop()
            for k in range(need + net - len(pv)):
                push(unknown())
            for v in pv:
                push(C(v) if isinstance(v, int) else v)
            return None
        if name in self.models:
            return self.models[name](self, st, w, pc, i, ctx)
        if name in EXACT2 and len(Sx) >= 2:
            (la, ha), (lb, hb) = st.rng(Sx[-2]), st.rng(Sx[-1])
            if la == ha and lb == hb and abs(la) < (1 << 33) and abs(lb) < (1 << 33):
                r = EXACT2[name](int(la) & 0xFFFFFFFF, int(lb) & 0xFFFFFFFF)
                if r is not None:
                    pop(); pop()
                    r &= 0xFFFFFFFF
                    push(C(r - (1 << 32) if (r >> 31) and name in SIGNED_RESULT else r))
                    return None
        if name in ('+', '-'):
            b = pop(); a = pop()
            r = a + b if name == '+' else a - b
            lo, hi = st.rng(r)
            if lo < LO32 or hi > HI32:
                r = unknown()
            push(r)
        elif name in CMPS:
            b = pop(); a = pop()
            push(self.boolval(st, (CMPS[name], a, b), tag))
        elif name in UCMPS:
            b = pop(); a = pop()
            la, _ = st.rng(a); lb, _ = st.rng(b)
            if la >= 0 and lb >= 0:
                push(self.boolval(st, (UCMPS[name], a, b), tag))
            else:
                push(unknown(-1, 0))
        elif name == 'and':
            b = pop(); a = pop()
            if a in st.preds and b in st.preds:
                push(self.boolval(st, ('and', st.preds[a], st.preds[b]), tag))
            else:
                la, ha = st.rng(a); lb, hb = st.rng(b)
                cands = [h for l, h in ((la, ha), (lb, hb)) if l >= 0]
                r = unknown(0, min(cands)) if cands else unknown()
                push(r)
        elif name == 'or':
            b = pop(); a = pop()
            if a in st.preds and b in st.preds:
                push(self.boolval(st, ('or', st.preds[a], st.preds[b]), tag))
            else:
                la, ha = st.rng(a); lb, hb = st.rng(b)
                if la >= 0 and lb >= 0 and ha < INF and hb < INF:
                    push(unknown(max(la, lb), (1 << max(int(ha).bit_length(), int(hb).bit_length())) - 1))
                else:
                    push(unknown())
        elif name == 'xor':
            pop(); pop(); push(unknown())
        elif name == 'not':
            a = pop()
            if a in st.preds:
                push(self.boolval(st, ('not', st.preds[a]), tag))
            elif st.rng(a) == (0, 0):
                push(C(-1))
            else:
                # bitwise not: 0 -> -1; used as boolean negation on -1/0 values
                la, ha = st.rng(a)
                if la >= -1 and ha <= 0:
                    push(self.boolval(st, ('not', ('nz', a)), tag))
                else:
                    push(unknown())
        elif name == 'neg':
            a = pop(); push(-a)
        elif name in ('<<', '>>', 'u>>', '*', '/', '%', 'u/', 'u%'):
            b = pop(); a = pop()
            la, ha = st.rng(a); lb, hb = st.rng(b)
            if name == '<<' and b.isconst() and la >= 0 and ha < INF and ha * (1 << b.c) <= HI32:
                push(a.scale(1 << b.c))
            elif name in ('>>', 'u>>') and la >= 0 and b.isconst() and 0 <= b.c < 32:
                push(unknown(int(la) >> b.c, (int(ha) >> b.c) if ha < INF else HI32))
            elif name == '*' and b.isconst() and b.c >= 0 and la >= 0 and ha < INF and ha * b.c <= HI32:
                push(a.scale(b.c))
            elif name in ('%', 'u%') and b.isconst() and b.c > 0 and la >= 0:
                push(unknown(0, b.c - 1))
            elif name in ('/', 'u/') and b.isconst() and b.c > 0 and la >= 0:
                push(unknown(int(la) // b.c, int(ha) // b.c if ha < INF else HI32))
            else:
                push(unknown())
        elif name == 'dup':
            push(Sx[-1])
        elif name == 'drop':
            pop()
        elif name == 'swap':
            Sx[-1], Sx[-2] = Sx[-2], Sx[-1]
        elif name == 'over':
            push(Sx[-2])
        elif name == 'rot':
            Sx[-3], Sx[-2], Sx[-1] = Sx[-2], Sx[-1], Sx[-3]
        elif name == '-rot':
            Sx[-3], Sx[-2], Sx[-1] = Sx[-1], Sx[-3], Sx[-2]
        elif name == 'nip':
            x = pop(); pop(); push(x)
        elif name == 'tuck':
            b = pop(); a = pop(); push(b); push(a); push(b)
        elif name == '2drop':
            pop(); pop()
        elif name == '2dup':
            push(Sx[-2]); push(Sx[-2])
        elif name == 'roll':
            n = pop()
            if not n.isconst() or n.c < 0 or n.c >= len(Sx):
                raise AnalysisBroken('%s W%d@%d: roll with non-constant depth' % (self.p.key, w, pc))
            x = Sx.pop(len(Sx) - 1 - n.c)
            push(x)
        elif name == 'pick':
            n = pop()
            if not n.isconst() or n.c < 0 or n.c >= len(Sx):
                raise AnalysisBroken('%s W%d@%d: pick with non-constant depth' % (self.p.key, w, pc))
            push(Sx[-1 - n.c])
        elif name == 'co':
            self.emit(Event(w, pc, name, [], st.clone(), ctx))
        elif name == 'fail':
            v = pop()
            self.emit(Event(w, pc, name, [v], st.clone(), ctx))
            return 'stop'
        elif name in ('get8', 'get16', 'get32'):
            a = pop()
            self.emit(Event(w, pc, name, [a], st.clone(), ctx))
            hi = {'get8': 255, 'get16': 65535, 'get32': HI32}[name]
            lo = 0
            if a.isconst() and a.c in self.field_ranges:
                lo, hi = self.field_ranges[a.c]
            r = C(lo) if lo == hi else unknown(lo, hi)
            push(r)
        elif name in ('set8', 'set16', 'set32'):
            a = pop(); v = pop()
            self.emit(Event(w, pc, name, [v, a], st.clone(), ctx))
        elif name in ('read-blob-inner', 'read-chunk-native', 'write-blob-chunk'):
            # ( addr len -- addr+c len-c ), 0 <= c <= len; writes [addr, addr+c) unless addr == 0 (shape verified against the IR by the C05 check)
            ln = pop(); a = pop()
            self.emit(Event(w, pc, name, [a, ln], st.clone(), ctx))
            llo, lhi = st.rng(ln)
            c = unknown(0, max(lhi, 0) if lhi < INF else HI32, sfx='.c')
            st.refine(ln - c, lo=0)
            push(a + c)
            push(ln - c)
        elif name in ('data-get8', 'data-get16'):
            a = pop()
            if a.isconst() and 0 <= a.c < len(self.p.data):
                if name == 'data-get8':
                    push(C(self.p.data[a.c]))
                elif a.c + 1 < len(self.p.data):
                    push(C((self.p.data[a.c] << 8) | self.p.data[a.c + 1]))
                else:
                    push(unknown(0, 65535))
            else:
                self.emit(Event(w, pc, name, [a], st.clone(), ctx))
                push(unknown(0, 255 if name == 'data-get8' else 65535))
        else:
            # generic: IR-derived effect, unknown results
            self.unmodelled.add(name)
            args = [Sx[-k] for k in range(need, 0, -1)] if need else []
            self.emit(Event(w, pc, name, args, st.clone(), ctx))
            nets = set(e['dp']['ret']) | (set() if e['failexit'] else set(e['dp']['exit']))
            nets = sorted(x for x in nets if x is not None)
            if not nets:
                return 'stop'
            net = nets[0]
            if len(nets) > 1:
                raise AnalysisBroken('%s: native %s has a path-dependent stack effect %s' % (self.p.key, name, nets))
            for _ in range(need):
                pop()
            vals = e['dp'].get('vals', {})
            for k in range(need + net):
                vr = vals.get(-need + k)
                if vr and vr != 'cycle':
                    push(unknown(max(vr[0], LO32), min(vr[1], HI32), sfx='.%d' % k))
                else:
                    push(unknown(sfx='.%d' % k))
        return None

    def net_of(self, i):
        e = self.eff[i.arg]
        nets = set(e['dp']['ret']) | (set() if e['failexit'] else set(e['dp']['exit']))
        nets = sorted(x for x in nets if x is not None)
        return nets[0] if nets else 0
