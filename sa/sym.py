"""Canonical symbolic form of integer SSA values (for sibling-agreement rules between formulas).

sym(F, operand) -> hashable tree:
   ('aff', ((atom, coef), ...), const)      sums / differences / shifts by constants, flattened and sorted
   atoms: ('var', name) for values that carry a source-variable name (dbg.value) and are not themselves affine,
          ('arg', n), ('op', opcode, child, ...), ('call', callee, child...), ('load', ...), ('v', id)
Width changes (zext / sext / trunc) are transparent: the rules compare the shape of formulas, not their wrap-around.
"""
from .oblig import dbg_values  # noqa: F401  (kept for callers)


def var_names(F):
    names = {}
    for b in F.blocks:
        for i in b['insts']:
            if i['op'] == 'dbgvalue' and i['ops'][0]['k'] in ('i', 'a'):
                names.setdefault((i['ops'][0]['k'], i['ops'][0]['v']), i['var'])
    return names


class Sym:
    def __init__(self, F, leaf_vars=(), max_depth=24):
        self.F = F
        self.names = var_names(F)
        self.leaf_vars = set(leaf_vars)      # variables whose value is kept as an atom even if it is an affine expression
        self.max_depth = max_depth
        self.memo = {}

    def aff(self, d, c=0):
        items = tuple(sorted(((k, v) for k, v in d.items() if v), key=repr))
        return ('aff', items, c)

    def atom(self, a):
        return self.aff({a: 1})

    def sym(self, o, depth=0, top=False):
        F = self.F
        if o['k'] == 'c':
            return self.aff({}, o['v'] if o['v'] is not None else 0)
        if o['k'] == 'a':
            nm = self.names.get(('a', o['v']))
            return self.atom(('var', nm) if nm else ('arg', o['v']))
        if o['k'] != 'i':
            return self.atom(('x', repr(sorted(o.items()))))
        key = o['v']
        if key in self.memo and not top:
            return self.memo[key]
        i = F.insts[key]
        nm = self.names.get(('i', key))
        if nm in self.leaf_vars and not top:
            r = self.atom(('var', nm))
            self.memo[key] = r
            return r
        if depth > self.max_depth:
            return self.atom(('v', key))
        op = i['op']
        r = None
        if op in ('zext', 'sext', 'trunc', 'bitcast', 'freeze'):
            r = self.sym(i['ops'][0], depth + 1)
        elif op in ('add', 'sub'):
            a, b = self.sym(i['ops'][0], depth + 1), self.sym(i['ops'][1], depth + 1)
            sg = 1 if op == 'add' else -1
            d = dict(a[1])
            for k, v in b[1]:
                d[k] = d.get(k, 0) + sg * v
            r = self.aff(d, a[2] + sg * b[2])
        elif op == 'shl' and i['ops'][1]['k'] == 'c':
            a = self.sym(i['ops'][0], depth + 1)
            m = 1 << i['ops'][1]['v']
            r = self.aff({k: v * m for k, v in a[1]}, a[2] * m)
        elif op == 'mul' and any(x['k'] == 'c' for x in i['ops']):
            cst = next(x for x in i['ops'] if x['k'] == 'c')
            oth = next(x for x in i['ops'] if x is not cst)
            a = self.sym(oth, depth + 1)
            r = self.aff({k: v * cst['v'] for k, v in a[1]}, a[2] * cst['v'])
        elif op == 'getelementptr' and i.get('off') is not None:
            a = self.sym(i['ops'][0], depth + 1)
            d = dict(a[1])
            c = a[2] + i['off']
            for vo, sc in i.get('var') or []:
                b = self.sym(vo, depth + 1)
                for k, v in b[1]:
                    d[k] = d.get(k, 0) + v * sc
                c += b[2] * sc
            r = self.aff(d, c)
        elif op == 'phi':
            if nm:
                r = self.atom(('var', nm))
            else:
                r = self.atom(('v', key))
        elif op in ('and', 'or', 'xor', 'lshr', 'ashr', 'shl', 'mul', 'udiv', 'urem', 'select', 'icmp'):
            kids = tuple(self.sym(x, depth + 1) for x in i['ops'])
            if op in ('and', 'or', 'xor', 'mul'):
                kids = tuple(sorted(kids, key=repr))
            r = self.atom(('op', op + (':' + i['pred'] if op == 'icmp' else ''),) + kids)
        elif op == 'call':
            kids = tuple(self.sym(x, depth + 1) for x in i['ops'])
            if nm and not i.get('callee'):
                r = self.atom(('var', nm))
            else:
                r = self.atom(('call', i.get('callee') or 'indirect') + kids)
        elif op == 'load':
            if nm:
                r = self.atom(('var', nm))
            else:
                b, off = F.addr_of(i['ops'][0])
                r = self.atom(('load', repr(sorted(b.items())), off))
        else:
            r = self.atom(('var', nm) if nm else ('v', key))
        if not top:
            self.memo[key] = r
        return r

    def of_var(self, var, which=-1):
        """symbolic value of the (which-th, default last) SSA definition of source variable `var`, expanded one level"""
        defs = []
        for b in self.F.blocks:
            for i in b['insts']:
                if i['op'] == 'dbgvalue' and i['var'] == var and i['ops'][0]['k'] == 'i':
                    if i['ops'][0]['v'] not in defs:
                        defs.append(i['ops'][0]['v'])
        if not defs:
            return None
        return self.sym({'k': 'i', 'v': defs[which]}, top=True)


def subst(t, mapping):
    """replace atoms ('var', a) by ('var', b) throughout"""
    if isinstance(t, tuple):
        if len(t) == 2 and t[0] == 'var' and t[1] in mapping:
            return ('var', mapping[t[1]])
        if t and t[0] == 'aff':
            d = {}
            for k, v in t[1]:
                k2 = subst(k, mapping)
                d[k2] = d.get(k2, 0) + v
            return ('aff', tuple(sorted(((k, v) for k, v in d.items() if v), key=repr)), t[2])
        if t and t[0] == 'op':
            kids = tuple(subst(x, mapping) for x in t[2:])
            if t[1] in ('and', 'or', 'xor', 'mul'):
                kids = tuple(sorted(kids, key=repr))
            return (t[0], t[1]) + kids
        return tuple(subst(x, mapping) for x in t)
    return t


def add_const(t, c):
    return ('aff', t[1], t[2] + c)


def show(t, depth=0):
    if not isinstance(t, tuple):
        return str(t)
    if t and t[0] == 'aff':
        parts = []
        for k, v in t[1]:
            parts.append(('%d*' % v if v != 1 else '') + show(k, depth + 1))
        if t[2] or not parts:
            parts.append(str(t[2]))
        return '(' + ' + '.join(parts) + ')' if len(parts) > 1 else parts[0]
    if t[0] == 'var':
        return t[1]
    if t[0] == 'op':
        return '%s(%s)' % (t[1], ', '.join(show(x, depth + 1) for x in t[2:]))
    if t[0] == 'call':
        return '%s(%s)' % (t[1], ', '.join(show(x, depth + 1) for x in t[2:]))
    return repr(t)
