"""Mutation self-test (DESIGN §9): apply one patch at a time to a scratch copy of /repo, run the relevant check
against it (VERIF_REPO=<copy>) and require exit 1 with a report naming the instance.  Not a registered command."""
import os, sys, re, json, glob, subprocess, shutil, tempfile, time

VERIF = os.path.dirname(os.path.dirname(os.path.abspath(__file__)))


def run(only=None):
    pats = sorted(glob.glob(os.path.join(VERIF, 'selftest', 'mutants', '*.patch')))
    res = []
    base = tempfile.mkdtemp(prefix='verif-selftest-', dir='/tmp')
    try:
        for p in pats:
            name = os.path.basename(p)[:-6]
            pid = name.split('-')[0]
            if only and pid not in only and name not in only:
                continue
            head = open(p).read(2000)
            m = re.search(r'^# expect: (.*)$', head, re.M)
            expect = m.group(1).strip() if m else ''
            d = os.path.join(base, name)
            subprocess.run(['rsync', '-a', '--exclude', 'build', '--exclude', '.git', '/repo/', d + '/'], check=True)
            a = subprocess.run(['patch', '-p1', '-s', '-d', d, '-i', p], capture_output=True, text=True)
            if a.returncode != 0:
                res.append((name, 'PATCH-FAILED', a.stdout[-300:]))
                shutil.rmtree(d)
                continue
            env = dict(os.environ, VERIF_REPO=d, VERIF_SELFTEST='1')
            t = time.time()
            r = subprocess.run([os.path.join(VERIF, 'check'), pid], capture_output=True, text=True, env=env)
            out = r.stdout + r.stderr
            hit = r.returncode == 1 and 'VIOLATION property=%s' % pid in out and (not expect or re.search(expect, out))
            res.append((name, 'DETECTED' if hit else 'MISSED(exit=%d)' % r.returncode, '%.1fs' % (time.time() - t)))
            if not hit:
                print(out[-1500:])
            shutil.rmtree(d)
    finally:
        shutil.rmtree(base, ignore_errors=True)
    for r in res:
        print('%-50s %s %s' % r)
    os.makedirs(os.path.join(VERIF, 'evidence'), exist_ok=True)
    prev = {}
    sp = os.path.join(VERIF, 'selftest', 'last_result.json')
    if os.path.exists(sp):
        prev = json.load(open(sp))
    for n, s, t in res:
        prev[n] = s
    json.dump(prev, open(sp, 'w'), indent=1, sort_keys=True)
    return 0 if all(r[1] == 'DETECTED' for r in res) else 1
