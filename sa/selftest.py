"""Mutation self-test (DESIGN §9): apply one patch at a time to a scratch copy of /repo, run the relevant check
against it (VERIF_REPO=<copy>) and require exit 1 with a report naming the instance.  Not a registered command."""
import os, sys, re, json, glob, subprocess, shutil, tempfile, time

VERIF = os.path.dirname(os.path.dirname(os.path.abspath(__file__)))


def run(only=None):
    pats = sorted(glob.glob(os.path.join(VERIF, 'selftest', 'mutants', '*.patch')))
    res = []
    base = tempfile.mkdtemp(prefix='verif-selftest-', dir='/tmp')
    try:
        for p in pats:
            name = os.path.basename(p)[:-6]
            pid = name.split('-')[0]
            if only and pid not in only and name not in only:
                continue
            head = open(p).read(2000)
            m = re.search(r'^# expect: (.*)$', head, re.M)
            expect = m.group(1).strip() if m else ''
            d = os.path.join(base, name)
            subprocess.run(['rsync', '-a', '--exclude', 'build', '--exclude', '.git', '/repo/', d + '/'], check=True)
            a = subprocess.run(['patch', '-p1', '-s', '-d', d, '-i', p], capture_output=True, text=True)
            if a.returncode != 0:
                res.append((name, 'PATCH-FAILED', a.stdout[-300:]))
                shutil.rmtree(d)
                continue
            env = dict(os.environ, VERIF_REPO=d, VERIF_SELFTEST='1')
            t = time.time()
            r = subprocess.run([os.path.join(VERIF, 'check'), pid], capture_output=True, text=True, env=env)
            out = r.stdout + r.stderr
            hit = r.returncode == 1 and 'VIOLATION property=%s' % pid in out and (not expect or re.search(expect, out))
            res.append((name, 'DETECTED' if hit else 'MISSED(exit=%d)' % r.returncode, '%.1fs' % (time.time() - t)))
            if not hit:
                print(out[-1500:])
            shutil.rmtree(d)
    finally:
        shutil.rmtree(base, ignore_errors=True)
    for r in res:
        print('%-50s %s %s' % r)
    os.makedirs(os.path.join(VERIF, 'evidence'), exist_ok=True)
    prev = {}
    sp = os.path.join(VERIF, 'selftest', 'last_result.json')
    if os.path.exists(sp):
        prev = json.load(open(sp))
    for n, s, t in res:
        prev[n] = s
    json.dump(prev, open(sp, 'w'), indent=1, sort_keys=True)
    return 0 if all(r[1] == 'DETECTED' for r in res) else 1


def run_seeded(only=None):
    """run the property's check against each confirmed seeded change (scratch copy, never /repo itself)"""
    base = tempfile.mkdtemp(prefix='verif-seeded-', dir='/tmp')
    res = []
    try:
        for d0 in sorted(glob.glob(os.path.join(VERIF, 'seeded', '*', 'patch.diff'))):
            name = os.path.basename(os.path.dirname(d0))
            pid = name.split('-')[0]
            if only and pid not in only and name not in only:
                continue
            d = os.path.join(base, name)
            subprocess.run(['rsync', '-a', '--exclude', 'build', '--exclude', '.git', '/repo/', d + '/'], check=True)
            a = subprocess.run(['patch', '-p1', '-s', '-d', d, '-i', d0], capture_output=True, text=True)
            if a.returncode != 0:
                res.append((name, 'PATCH-FAILED', a.stdout[-200:]))
                shutil.rmtree(d)
                continue
            env = dict(os.environ, VERIF_REPO=d, VERIF_SELFTEST='1')
            manifest = json.load(open(os.path.join(VERIF, 'MANIFEST.json')))
            claimed = [c['property_id'] for c in manifest['checks']]
            hits = []
            for q in ([pid] if pid in claimed else []) + [c for c in claimed if c != pid and os.environ.get('VERIF_SEEDED_ALL')]:
                r = subprocess.run([os.path.join(VERIF, 'check'), q], capture_output=True, text=True, env=env)
                if r.returncode == 1 and 'VIOLATION property=%s' % q in r.stdout:
                    lines = [l for l in r.stdout.splitlines() if l.startswith('  ') and ': ' in l and not l.startswith('  rule') and not l.startswith('  analysed')]
                    hits.append((q, lines[:3]))
                elif r.returncode == 2:
                    hits.append((q + '(exit2)', r.stdout.splitlines()[-1:]))
            res.append((name, 'DETECTED by ' + ','.join(h[0] for h in hits) if hits else ('MISSED' if pid in claimed else 'NOT-CLAIMED'), hits))
            shutil.rmtree(d)
    finally:
        shutil.rmtree(base, ignore_errors=True)
    out = {}
    for n, st, hits in res:
        print('%-10s %s' % (n, st))
        for h in hits if isinstance(hits, list) else []:
            for l in h[1]:
                print('      ' + l.strip()[:300])
        out[n] = dict(status=st, reports=hits)
    sp = os.path.join(VERIF, 'seeded', 'last_result.json')
    prev = json.load(open(sp)) if os.path.exists(sp) else {}
    prev.update(out)
    json.dump(prev, open(sp, 'w'), indent=1, sort_keys=True)
    return 0
