"""Build layer: compile database from the real Makefile, IR + JSON facts per unit.

Everything is rebuilt from $VERIF_REPO (default /repo) on every run.
"""
import os, re, json, subprocess, shutil, atexit, tempfile, shlex, sys, time
from concurrent.futures import ThreadPoolExecutor

REPO = os.environ.get('VERIF_REPO', '/repo')
VERIF = os.path.dirname(os.path.dirname(os.path.abspath(__file__)))
IRDUMP = os.path.join(VERIF, 'bin', 'irdump')
GUARD = 'BR_VERIF_HOOKS'

CONFIGS = {
    # as built and tested on the host
    'host': [],
    # force the 32-bit code paths the ESP8266 uses
    'c32': ['-DBR_64=0', '-DBR_INT128=0', '-DBR_UMUL128=0', '-DBR_AES_X86NI=0',
            '-DBR_SSE2=0', '-DBR_RDRAND=0', '-DBR_LOMUL=1'],
    # system-seeder matrix of src/rand/sysrng.c (C20: "library builds with system seeders enabled / all disabled")
    'rnd_getentropy_only': ['-DBR_RDRAND=0', '-DBR_USE_GETENTROPY=1', '-DBR_USE_URANDOM=0'],
    'rnd_urandom_only': ['-DBR_RDRAND=0', '-DBR_USE_GETENTROPY=0', '-DBR_USE_URANDOM=1'],
    'rnd_esp8266': ['-DBR_RDRAND=0', '-DBR_USE_GETENTROPY=0', '-DBR_USE_URANDOM=0', '-DBR_USE_ESP8266_RAND=1'],      # the target of this port
    'rnd_pico': ['-DBR_RDRAND=0', '-DBR_USE_GETENTROPY=0', '-DBR_USE_URANDOM=0', '-DBR_USE_PICO_RAND=1'],
}


class AnalysisBroken(Exception):
    """exit 2: an anchor vanished / tool failed / construct not modelled"""


_work = None


def workdir():
    global _work
    if _work is None:
        base = os.path.join(VERIF, '.work')
        os.makedirs(base, exist_ok=True)
        _work = tempfile.mkdtemp(prefix='w%d-' % os.getpid(), dir=base)
        atexit.register(lambda: shutil.rmtree(_work, ignore_errors=True))
    return _work


_irdump_ok = False
import threading
_irdump_lock = threading.Lock()


def ensure_irdump():
    """bin/irdump is built from tools/irdump.cc (MANIFEST setup_cmd); rebuild it here when it is missing or older than its source"""
    global _irdump_ok
    if _irdump_ok:
        return
    with _irdump_lock:
        if _irdump_ok:
            return
        srcp = os.path.join(VERIF, 'tools', 'irdump.cc')
        if not os.path.exists(IRDUMP) or os.path.getmtime(IRDUMP) < os.path.getmtime(srcp):
            os.makedirs(os.path.dirname(IRDUMP), exist_ok=True)
            fl = subprocess.run(['llvm-config-14', '--cxxflags'], capture_output=True, text=True).stdout.split()
            p = subprocess.run(['clang++'] + fl + ['-fno-rtti', srcp, '-o', IRDUMP, '/usr/lib/llvm-14/lib/libLLVM-14.so'], capture_output=True, text=True)
            if p.returncode != 0:
                raise AnalysisBroken('cannot build tools/irdump.cc: ' + p.stderr[-400:])
        _irdump_ok = True


_db = None


def compile_db():
    """[(src_relpath, [flags])] from `make -n -B lib` of the current tree."""
    global _db
    if _db is not None:
        return _db
    p = subprocess.run(['make', '-C', REPO, '-n', '-B', 'lib'], capture_output=True, text=True)
    if p.returncode != 0:
        raise AnalysisBroken('make -n -B lib failed: ' + p.stderr[-400:])
    seen = {}
    for line in p.stdout.splitlines():
        if ' -c ' not in line:
            continue
        toks = shlex.split(line)
        if not toks or not re.search(r'(^|/)(cc|gcc|clang)[-\d.]*$', toks[0]):
            continue
        src = [t for t in toks if t.endswith('.c')]
        if len(src) != 1:
            continue
        flags = [t for t in toks[1:] if re.match(r'-[DUI]', t) or t.startswith('-std')]
        seen[src[0]] = flags
    if len(seen) < 250:
        raise AnalysisBroken('compile database has only %d units' % len(seen))
    _db = sorted(seen.items())
    return _db


def unit_name(src):
    s = re.sub(r'^src/', '', src)
    return re.sub(r'\.c$', '', s).replace('/', '__')


def _fix_flags(flags):
    out = []
    for f in flags:
        if f.startswith('-I') and not os.path.isabs(f[2:]):
            out.append('-I' + os.path.join(REPO, f[2:]))
        else:
            out.append(f)
    return out


def _run(cmd, **kw):
    p = subprocess.run(cmd, capture_output=True, text=True, **kw)
    if p.returncode != 0:
        raise AnalysisBroken('command failed: %s\n%s' % (' '.join(cmd[:6]), p.stderr[-800:]))
    return p


def build_unit(src, flags, mode='m2r', config='host', hooks=True, outdir=None, want_json=True, extra=()):
    """mode: m2r (O0 + mem2reg, -g) | O2 | Os ; returns (ll_path, json_path)"""
    ensure_irdump()
    outdir = outdir or os.path.join(workdir(), '%s-%s%s' % (mode, config, '-h' if hooks else ''))
    os.makedirs(outdir, exist_ok=True)
    b = unit_name(src)
    ll = os.path.join(outdir, b + '.ll')
    js = os.path.join(outdir, b + '.json')
    if os.path.exists(ll) and (not want_json or os.path.exists(js)):
        return ll, js
    base = ['clang', '-g', '-S', '-emit-llvm', '-w'] + _fix_flags(flags) + CONFIGS[config] + list(extra)
    if hooks:
        base.append('-D' + GUARD)
    srcp = os.path.join(REPO, src)
    if mode == 'm2r':
        raw = ll + '.raw'
        _run(base + ['-O0', '-Xclang', '-disable-O0-optnone', srcp, '-o', raw])
        _run(['opt-14', '-S', '-passes=mem2reg', raw, '-o', ll])
        os.unlink(raw)
    elif mode in ('O2', 'Os', 'O1'):
        _run(base + ['-' + mode, srcp, '-o', ll])
    else:
        raise ValueError(mode)
    if want_json:
        with open(js, 'w') as f:
            p = subprocess.run([IRDUMP, ll], stdout=f, stderr=subprocess.PIPE, text=True)
        if p.returncode != 0:
            raise AnalysisBroken('irdump failed on %s: %s' % (src, p.stderr[-300:]))
    return ll, js


def build_units(srcs=None, mode='m2r', config='host', hooks=True, want_json=True, jobs=16):
    """srcs: iterable of 'src/...c' (None = all). returns {unit_name: (ll, json)}"""
    db = dict(compile_db())
    if srcs is None:
        srcs = list(db)
    missing = [s for s in srcs if s not in db]
    if missing:
        raise AnalysisBroken('units not in the build: %s' % missing)
    res = {}
    with ThreadPoolExecutor(jobs) as ex:
        futs = {s: ex.submit(build_unit, s, db[s], mode, config, hooks, None, want_json) for s in srcs}
        for s, f in futs.items():
            res[unit_name(s)] = f.result()
    return res


_jcache = {}


def load_unit(src, mode='m2r', config='host', hooks=True):
    key = (src, mode, config, hooks)
    if key not in _jcache:
        db = dict(compile_db())
        if src not in db:
            raise AnalysisBroken('unit %s not in the build' % src)
        ll, js = build_unit(src, db[src], mode, config, hooks)
        with open(js) as f:
            d = json.load(f)
        d['_ll'] = ll
        d['_src'] = src
        _jcache[key] = d
    return _jcache[key]


def load_units(srcs, mode='m2r', config='host', hooks=True):
    build_units(srcs, mode, config, hooks)
    return {unit_name(s): load_unit(s, mode, config, hooks) for s in srcs}


def all_sources():
    return [s for s, _ in compile_db()]


def extra_unit(name, ctext, mode='m2r'):
    """compile a small C text against the repo headers (inc/, src/) into a unit: used to give header-only inline functions an IR"""
    key = ('<extra>' + name, mode)
    if key in _jcache:
        return _jcache[key]
    ensure_irdump()
    wd = os.path.join(workdir(), 'extra')
    os.makedirs(wd, exist_ok=True)
    c = os.path.join(wd, name + '.c')
    with open(c, 'w') as f:
        f.write(ctext)
    ll, js = os.path.join(wd, name + '.ll'), os.path.join(wd, name + '.json')
    p = subprocess.run(['clang', '-g', '-S', '-emit-llvm', '-w', '-O0', '-Xclang', '-disable-O0-optnone', '-I' + os.path.join(REPO, 'inc'),
                        '-I' + os.path.join(REPO, 'src'), c, '-o', ll + '.raw'], capture_output=True, text=True)
    if p.returncode:
        raise AnalysisBroken('extra unit %s does not compile: %s' % (name, p.stderr[-400:]))
    p = subprocess.run(['opt-14', '-S', '-passes=mem2reg', ll + '.raw', '-o', ll], capture_output=True, text=True)
    if p.returncode:
        raise AnalysisBroken('opt failed on extra unit %s' % name)
    with open(js, 'w') as f:
        p = subprocess.run([IRDUMP, ll], stdout=f, stderr=subprocess.PIPE, text=True)
    if p.returncode:
        raise AnalysisBroken('irdump failed on extra unit %s' % name)
    d = json.load(open(js))
    d['_ll'] = ll
    d['_src'] = '<extra>' + name
    _jcache[key] = d
    return d


def repo_head():
    try:
        return subprocess.run(['git', '-C', REPO, 'rev-parse', 'HEAD'], capture_output=True, text=True).stdout.strip()
    except Exception:
        return '?'


def const_values(names, includes=('inner.h',), config='host'):
    """Evaluate integer constant expressions (macros, enums, sizeof/offsetof) by compiling a table to IR."""
    wd = workdir()
    src = os.path.join(wd, 'constvals_%d.c' % (abs(hash(tuple(names))) % 10**9))
    with open(src, 'w') as f:
        for inc in includes:
            f.write('#include "%s"\n' % inc)
        f.write('#include <stddef.h>\n')
        for i, n in enumerate(names):
            f.write('const long long verif_cv_%d = (long long)(%s);\n' % (i, n))
    flags = ['-I' + os.path.join(REPO, 'src'), '-I' + os.path.join(REPO, 'inc'), '-DBR_SLOW_MUL15=1'] + CONFIGS[config]
    p = _run(['clang', '-S', '-emit-llvm', '-O0', '-w', '-o', '-', src] + flags)
    vals = {}
    for m in re.finditer(r'@verif_cv_(\d+) = .*? i64 (-?\d+)', p.stdout):
        vals[names[int(m.group(1))]] = int(m.group(2))
    if len(vals) != len(names):
        raise AnalysisBroken('constant table: %d of %d evaluated' % (len(vals), len(names)))
    return vals
