"""Declarative rejection obligations on top of the FOLD engine.

Ob(src, func, site, hyp -> expectation, negative control).  Sites are selected semantically
(callee name, indirect-call type / slot, source variable via debug info), never by line number.
"""
import re
from concurrent.futures import ThreadPoolExecutor
from . import fold, build, irf
from .build import AnalysisBroken

_units = {}


def funit(src, config='host'):
    k = (src, config)
    if k not in _units:
        _units[k] = fold.FoldUnit(src, config)
    return _units[k]


# ------------------------------------------------------------------ site selectors
class Call:
    """result of each direct call to `callee` inside the function (one obligation per site)"""
    def __init__(self, callee, pred=None, together=False, nth=None):
        self.callee, self.pred, self.together, self.nth = callee, pred, together, nth

    def sites(self, U, fname):
        r = [('call %s#%d' % (self.callee, k), i) for k, i in enumerate(U.call_sites(fname, callee=self.callee, pred=self.pred))]
        if self.nth is not None:
            r = r[self.nth:self.nth + 1] if self.nth >= 0 else r[self.nth:][:1]
        return r

    def __str__(self):
        return self.callee + '()'


class ICall:
    """result of each indirect call whose function type matches / whose pointer is loaded from const offset"""
    def __init__(self, name, ftype=None, field=None, pred=None, together=False):
        self.name, self.ftype, self.field, self.pred, self.together = name, ftype, field, pred, together

    def sites(self, U, fname):
        return [('icall %s#%d' % (self.name, k), i) for k, i in
                enumerate(U.call_sites(fname, ftype=self.ftype, field=self.field, pred=self.pred))]

    def __str__(self):
        return '(*%s)()' % self.name


def dbg_values(F, var):
    """[(dbgvalue inst, operand)] for a source variable, in function order"""
    res = []
    for b in F.blocks:
        for i in b['insts']:
            if i['op'] == 'dbgvalue' and i['var'] == var:
                res.append((i, i['ops'][0]))
    return res


class Var:
    """SSA value of source variable `var`: which = 'last' (last assignment in block order),
    'loopexit' (the loop-header phi of the variable; hypothesis is placed at the loop's unique exit target),
    'param' (the parameter itself)"""
    def __init__(self, var, which='last', nth=None):
        self.var, self.which, self.nth = var, which, nth

    def sites(self, U, fname):
        F = U.func(fname)
        dv = dbg_values(F, self.var)
        if not dv:
            return []
        if self.which == 'param':
            for i, o in dv:
                if o['k'] == 'a':
                    return [('var %s' % self.var, dict(n=F.f['params'][o['v']]['n'], ty=F.f['params'][o['v']]['ty'], param=True))]
            return []
        if self.which == 'last':
            for i, o in reversed(dv):
                if o['k'] == 'i':
                    ins = F.insts[o['v']]
                    return [('var %s' % self.var, dict(n=ins['n'], ty=ins['ty'], inst=ins))]
                if o['k'] == 'a':
                    return [('var %s' % self.var, dict(n=F.f['params'][o['v']]['n'], ty=F.f['params'][o['v']]['ty'], param=True))]
            return []
        if self.which == 'loopexit':
            inloop = F.loops_blocks()
            cands = []
            for i, o in dv:
                if o['k'] == 'i' and F.insts[o['v']]['op'] == 'phi' and F.block_of[o['v']] in inloop:
                    if F.insts[o['v']] not in cands:
                        cands.append(F.insts[o['v']])
            if self.nth is not None:
                cands = cands[self.nth:self.nth + 1]
            res = []
            for ph in cands:
                ex = loop_exit_target(F, F.block_of[ph['id']])
                if ex is None:
                    continue
                res.append(('var %s@loopexit' % self.var, dict(n=ph['n'], ty=ph['ty'], inst=ph, at_block=ex)))
            return res[:1]
        raise ValueError(self.which)

    def __str__(self):
        return self.var


class Accum:
    """contributions to an accumulator variable: every definition `var = var OP contribution` (OP = or / and)
    that is not inside a loop; the site is the contribution operand"""
    def __init__(self, var, op):
        self.var, self.op = var, op

    def sites(self, U, fname):
        F = U.func(fname)
        dv = dbg_values(F, self.var)
        rvals = set(o['v'] for i, o in dv if o['k'] == 'i')
        inloop = F.loops_blocks()
        res = []
        seen = set()
        for i, o in dv:
            if o['k'] != 'i' or o['v'] in seen:
                continue
            ins = F.insts[o['v']]
            if ins['op'] != self.op or F.block_of[ins['id']] in inloop:
                continue
            seen.add(o['v'])
            a, b = ins['ops']

            def isacc(x, depth=0):
                if x['k'] == 'c':
                    return True
                if x['k'] != 'i':
                    return False
                if x['v'] in rvals:
                    return True
                xi = F.insts[x['v']]
                return xi['op'] == 'phi' and depth < 2 and any(isacc(y, depth + 1) for y in xi['ops'])
            con = b if isacc(a) else (a if isacc(b) else None)
            if con is None or con['k'] != 'i':
                continue
            ci = F.insts[con['v']]
            res.append(('%s %s= #%d' % (self.var, '|' if self.op == 'or' else '&', len(res)), dict(n=ci['n'], ty=ci['ty'], inst=ci)))
        return res

    def __str__(self):
        return '%s %s= ...' % (self.var, '|' if self.op == 'or' else '&')


def loop_exit_target(F, header):
    """unique block outside the natural loop headed at `header` that the loop exits to"""
    dom = F.dom()
    body = {header}
    for b in dom:
        if header in F.succ[b] and header in dom[b]:
            st = [b]
            body.add(b)
            while st:
                x = st.pop()
                if x == header:
                    continue
                for p in F.pred[x]:
                    if p not in body and p in dom:
                        body.add(p)
                        st.append(p)
    exits = set()
    for b in body:
        for s in F.succ[b]:
            if s not in body:
                exits.add(s)
    if len(exits) != 1:
        return None
    return next(iter(exits))


# ------------------------------------------------------------------ obligations
class Ob:
    def __init__(self, src, func, site, hyp, expect, nc, reason='', config='host', noinline=(), rule=None,
                 min_sites=1, together=False, extra_hyps=(), marker=None, passes='default<O2>'):
        """hyp / nc: ('pin', c) | ('mask', m) | ('assume', pred, value)   value: int or Var(...)
        expect: callable(F) -> (bool, detail)"""
        self.src, self.func, self.site, self.hyp, self.expect, self.nc = src, func, site, hyp, expect, nc
        self.reason, self.config, self.noinline, self.rule = reason, config, tuple(noinline), rule
        self.min_sites, self.together, self.extra_hyps, self.marker = min_sites, together, extra_hyps, marker
        self.passes = passes

    def _mk(self, U, s, h):
        kind = h[0]
        if isinstance(s, dict) and 'id' in s and 'op' in s:      # call instruction
            n, ty = s['n'], s['ty']
            at = None
            param = False
        else:
            n, ty = s['n'], s['ty']
            at = s.get('at_block')
            param = s.get('param', False)
        if kind == 'site':
            return dict(kind='site', n=n)
        if kind == 'pinexpr':       # ('pinexpr', op, A, B)  A/B: int | selector (first site's value)
            def nm(x):
                if isinstance(x, int):
                    return x
                vs = x.sites(U, self.func)
                if not vs:
                    raise AnalysisBroken('operand %s of a relational hypothesis not found in %s' % (x, self.func))
                return vs[0][1]['n']
            return dict(kind='pinexpr', n=n, ty=ty, op=h[1], a=nm(h[2]), b=nm(h[3]))
        if kind == 'pin':
            v = h[1]
            if ty == 'i1':
                v = 'true' if v else 'false'
            if ty.endswith('*') and v == 0:
                v = 'null'
            return dict(kind='pin', n=n, value=v)
        if kind == 'mask':
            return dict(kind='mask', n=n, ty=ty, mask=h[1])
        if kind == 'assume':
            val = h[2]
            if isinstance(val, Var):
                vs = val.sites(U, self.func)
                if not vs:
                    raise AnalysisBroken('variable %s not found in %s' % (val.var, self.func))
                after = None if vs[0][1].get('param') else vs[0][1]['n']
                val = vs[0][1]['n']
            else:
                after = None
            d = dict(kind='assume', n=n, ty=ty, pred=h[1], value=val, param=param)
            if after is not None and param:
                d['after'] = after
            if len(h) > 3:
                d['mask'] = h[3]
            if at is not None:
                d['at_block'] = at
            return d
        raise ValueError(kind)


def _apply_at_block(U, F, hyps):
    """translate 'assume ... at_block' into an assume after the first instruction name of that block"""
    return hyps


def run_obligations(chk, obs, rule_default='fold', jobs=16, missing_is_violation=True):
    """evaluate all obligations; records into chk"""
    tasks = []
    if getattr(chk, 'tier', 'quick') == 'thorough':
        # thorough tier: every obligation is also decided on the 32-bit configuration (the code paths an ESP8266 build takes:
        # BR_64=0, no 128-bit multiplications, BR_LOMUL, no x86 intrinsics) whenever the function is compiled there
        import copy
        extra = []
        for ob in obs:
            if ob.config != 'host':
                continue
            try:
                U2 = funit(ob.src, 'c32')
            except AnalysisBroken:
                continue
            if ob.func in U2.funcs:
                o2 = copy.copy(ob)
                o2.config = 'c32'
                extra.append(o2)
        obs = list(obs) + extra
    for ob in obs:
        U = funit(ob.src, ob.config)
        if ob.func not in U.funcs:
            raise AnalysisBroken('anchor function %s vanished from %s' % (ob.func, ob.src))
        sites = ob.site.sites(U, ob.func)
        rule = ob.rule or rule_default
        F = U.func(ob.func)
        if len(sites) < ob.min_sites:
            inst = '%s: %s %s' % (ob.func, ob.site, _hs(ob.hyp))
            if missing_is_violation:
                chk.violation(rule, inst, F.where(),
                              'expected %d site(s) of %s in %s, found %d: the check is missing (%s)' % (ob.min_sites, ob.site, ob.func, len(sites), ob.reason),
                              key='%s missing-site %s %s' % (rule, ob.func, ob.site))
                continue
            raise AnalysisBroken('site %s vanished from %s' % (ob.site, ob.func))
        if ob.together or getattr(ob.site, 'together', False):
            tasks.append((ob, U, F, rule, 'all ' + str(ob.site), [s for _, s in sites]))
        else:
            for name, s in sites:
                tasks.append((ob, U, F, rule, name, [s]))

    def work(t):
        ob, U, F, rule, name, ss = t
        try:
            def extra():
                r = []
                for x in ob.extra_hyps:
                    xs = x[0].sites(U, ob.func)
                    if not xs:
                        raise AnalysisBroken('site %s of an additional hypothesis vanished from %s' % (x[0], ob.func))
                    for _, s2 in (xs if getattr(x[0], 'together', False) else xs[:1]):
                        r.append(ob._mk(U, s2, x[1]))
                return r
            mk = []
            if ob.marker is not None:
                ms = ob.marker.sites(U, ob.func)
                if not ms:
                    raise AnalysisBroken('marker site %s vanished from %s' % (ob.marker, ob.func))
                mk = [ob._mk(U, ms[0][1], ('site',))]
            hy = mk + [ob._mk(U, s, ob.hyp) for s in ss] + extra()
            hy = [_place(U, F, h) for h in hy]
            Fo = U.optimise(ob.func, hy, ob.noinline, ob.passes)
            okk, det = ob.expect(Fo)
            ncres = None
            if ob.nc is not None:
                hn = mk + [ob._mk(U, s, ob.nc) for s in ss] + extra()
                hn = [_place(U, F, h) for h in hn]
                Fn = U.optimise(ob.func, hn, ob.noinline, ob.passes)
                ncres = ob.expect(Fn)
            return (t, okk, det, ncres, None)
        except AnalysisBroken as e:
            return (t, None, None, None, e)

    with ThreadPoolExecutor(jobs) as ex:
        results = list(ex.map(work, tasks))
    for t, okk, det, ncres, err in results:
        ob, U, F, rule, name, ss = t
        if err is not None:
            raise err
        inst = '%s%s: %s %s => %s' % (ob.func, '' if ob.config == 'host' else ' [%s]' % ob.config, name, _hs(ob.hyp), getattr(ob.expect, 'desc', '?'))
        line = ss[0].get('line') if isinstance(ss[0], dict) and 'line' in ss[0] else (ss[0].get('inst') or {}).get('line')
        where = '%s:%s' % (ob.src, line if line is not None else F.f.get('line'))
        if ncres is not None and ncres[0]:
            # negative control folded as well: the obligation is vacuous -> the rule cannot decide here
            raise AnalysisBroken('negative control also folds for %s (%s): rule is vacuous' % (inst, ncres[1]))
        if okk:
            chk.ok(rule, inst, where, det + ('; negative control %s does not fold' % _hs(ob.nc) if ob.nc else ''))
        else:
            chk.violation(rule, inst, where, 'under hypothesis %s the expectation "%s" does not fold: %s. %s'
                          % (_hs(ob.hyp), getattr(ob.expect, 'desc', '?'), det, ob.reason),
                          key='%s %s%s %s %s' % (rule, ob.func, '' if ob.config == 'host' else '[%s]' % ob.config, name, _hs(ob.hyp)))


def _place(U, F, h):
    if h.get('kind') == 'assume' and 'at_block' in h:
        # place after the first non-phi value-producing instruction... simpler: we emit a marker understood by rewrite
        b = next(x for x in F.blocks if x['id'] == h['at_block'])
        first = None
        for i in b['insts']:
            if i['op'] in ('phi', 'dbgvalue'):
                continue
            first = i
            break
        h = dict(h)
        h['at_inst'] = first
        h['at_label'] = b['n']
    return h


def _hs(h):
    if h is None:
        return ''
    if h[0] == 'pin':
        return '==%s' % (h[1],)
    if h[0] == 'pinexpr':
        return '== %s %s %s' % (h[2], h[1], h[3])
    if h[0] == 'site':
        return ''
    if h[0] == 'mask':
        return '&%d' % h[1]
    if h[0] == 'assume':
        return '%s%s %s' % ('&%d ' % h[3] if len(h) > 3 else '', h[1], h[2])
    return str(h)


# expectation builders with descriptions
def E(fn, desc, *a, **k):
    def f(F):
        return fn(F, *a, **k)
    f.desc = desc
    return f


def RET(c):
    return E(fold.expect_ret_const, 'every ret returns %s' % (c,), c)


def RET_NONZERO():
    return E(fold.expect_ret_nonzero, 'every ret returns a non-zero constant')


def RET_NEG():
    return E(fold.expect_ret_negative, 'every ret returns a negative constant')


def NOCALL(callee):
    return E(fold.expect_no_call, 'no reachable call to %s' % callee, callee)


def CALLDOM(callee, argidx=None, argpred=None, desc=None):
    return E(fold.expect_call_dominates_rets, desc or ('a call to %s dominates every ret' % callee), callee, argidx, argpred)


def ALL(*es):
    def f(F):
        dets = []
        for e in es:
            okk, d = e(F)
            dets.append(d)
            if not okk:
                return False, d
        return True, '; '.join(dets)
    f.desc = ' and '.join(e.desc for e in es)
    return f


# ------------------------------------------------------------------ conjunct rule (structural, loop-aware)
def conj_closure(F, start, mode):
    """Must-propagation of 'the verdict fails' from one accumulator update to the returned value.
    NZ = values that are non-zero whenever the contribution signalled failure; Z = values that are zero then.
    Optimistic fixpoint over or/and/phi/zext and the word primitives EQ0 / EQ(.,0) / NEQ(.,0) / NOT-free paths.
    Returns (ok, detail)."""
    after = _after_blocks(F, start)
    NZ, Z = set(), set()
    (NZ if mode == 'or' else Z).add(start)
    cand_phi = set()
    # optimistic: assume all phis after the site are in the class of any of their operands, then verify
    changed = True

    def cls(o):
        if o['k'] == 'i':
            if o['v'] in NZ:
                return 'NZ'
            if o['v'] in Z:
                return 'Z'
        if o['k'] == 'c' and o['v'] == 0:
            return 'C0'
        if o['k'] == 'null':
            return 'C0'
        return None
    insts = [i for b in F.blocks for i in b['insts'] if b['id'] in after and i['op'] != 'dbgvalue']
    phis = {}
    while changed:
        changed = False
        for i in insts:
            iid = i['id']
            if iid in NZ or iid in Z or iid == start:
                continue
            op = i['op']
            c = [cls(o) for o in i['ops']]
            new = None
            if op == 'or' and 'NZ' in c:
                new = 'NZ'
            elif op in ('and', 'mul') and 'Z' in c:
                new = 'Z'
            elif op in ('zext', 'sext', 'trunc0') and c[0] in ('NZ', 'Z'):
                new = c[0]
            elif op == 'sub' and c[0] == 'C0' and c[1] == 'Z':
                new = 'Z'
            elif op == 'call' and i.get('callee') == 'EQ0' and c[0] == 'NZ':
                new = 'Z'
            elif op == 'call' and i.get('callee') == 'EQ' and (('NZ' in c and 'C0' in c)):
                new = 'Z'
            elif op == 'call' and i.get('callee') == 'NEQ' and (('NZ' in c and 'C0' in c)):
                new = 'NZ'
            elif op == 'phi':
                # optimistic: join of classes of incoming operands that come from after-site blocks
                ks = set()
                for o, inb in zip(i['ops'], i['inb']):
                    if o['k'] == 'i' and o['v'] == iid:
                        continue
                    if inb not in after:
                        continue
                    k = cls(o)
                    if o['k'] == 'i' and o['v'] in phis and k is None:
                        k = 'PENDING'
                    ks.add(k)
                ks.discard('PENDING')
                if ks and ks <= {'NZ'}:
                    new = 'NZ'
                elif ks and ks <= {'Z', 'C0'} and 'Z' in ks:
                    new = 'Z'
            if new == 'NZ':
                NZ.add(iid)
                changed = True
            elif new == 'Z':
                Z.add(iid)
                changed = True
    # loop-carried phis: optimistic pass above may miss header phis whose back-edge operand is classified later;
    # iterate: a phi is in class K if all after-site incoming operands are in K or are the phi itself / other phis being assumed.
    for _ in range(4):
        assumed = {}
        for i in insts:
            if i['op'] == 'phi' and i['id'] not in NZ and i['id'] not in Z:
                assumed[i['id']] = None
        progress = False
        for pid in list(assumed):
            for K, S in (('NZ', NZ), ('Z', Z)):
                trial = set(S) | {pid}
                # propagate locally
                okk = _verify_phi(F, insts, after, pid, K, trial, NZ if K == 'Z' else Z)
                if okk:
                    S.add(pid)
                    progress = True
                    break
        if not progress:
            break
        # re-run forward propagation with the new members
        changed = True
        while changed:
            changed = False
            for i in insts:
                iid = i['id']
                if iid in NZ or iid in Z:
                    continue
                c = [cls(o) for o in i['ops']]
                op = i['op']
                new = None
                if op == 'or' and 'NZ' in c:
                    new = 'NZ'
                elif op in ('and', 'mul') and 'Z' in c:
                    new = 'Z'
                elif op in ('zext', 'sext') and c[0] in ('NZ', 'Z'):
                    new = c[0]
                elif op == 'sub' and c[0] == 'C0' and c[1] == 'Z':
                    new = 'Z'
                elif op == 'call' and i.get('callee') == 'EQ0' and c[0] == 'NZ':
                    new = 'Z'
                elif op == 'call' and i.get('callee') == 'EQ' and 'NZ' in c and 'C0' in c:
                    new = 'Z'
                elif op == 'call' and i.get('callee') == 'NEQ' and 'NZ' in c and 'C0' in c:
                    new = 'NZ'
                elif op == 'phi':
                    ks = set()
                    for o, inb in zip(i['ops'], i['inb']):
                        if (o['k'] == 'i' and o['v'] == iid) or inb not in after:
                            continue
                        ks.add(cls(o))
                    if ks and ks <= {'NZ'}:
                        new = 'NZ'
                    elif ks and ks <= {'Z', 'C0'} and 'Z' in ks:
                        new = 'Z'
                if new:
                    (NZ if new == 'NZ' else Z).add(iid)
                    changed = True
    # edges that cannot be taken when the verdict failed: a branch on (X ==/!= 0) with X in Z (X is 0) or NZ (X is not 0)
    def zclass(o, depth=0):
        k = cls(o)
        if k in ('Z', 'NZ'):
            return k
        if o['k'] == 'i' and depth < 3 and F.insts[o['v']]['op'] in ('zext', 'sext', 'trunc'):
            return zclass(F.insts[o['v']]['ops'][0], depth + 1)
        return None
    dead = set()
    bidx = {b['id']: b for b in F.blocks}
    for b in F.blocks:
        t = b['insts'][-1]
        if t['op'] != 'br' or len(t['ops']) != 3 or t['ops'][0]['k'] != 'i':
            continue
        c = F.insts[t['ops'][0]['v']]
        if c['op'] != 'icmp' or c['pred'] not in ('eq', 'ne'):
            continue
        x, y = c['ops']
        if not (y['k'] in ('c', 'null') and (y.get('v', 0) == 0)):
            continue
        k = zclass(x)
        if k is None:
            continue
        iszero = (k == 'Z')
        # LLVM operand order: cond, false-dest, true-dest
        fdest, tdest = t['ops'][1]['v'], t['ops'][2]['v']
        cond_true = (c['pred'] == 'eq') == iszero
        dead.add((b['id'], fdest if cond_true else tdest))
    live = set()
    st = [F.block_of[start]]
    while st:
        b = st.pop()
        if b in live:
            continue
        live.add(b)
        for s2 in F.succ[b]:
            if (b, s2) not in dead:
                st.append(s2)
    # the start block itself: only instructions after the site matter, which successor edges handle
    after = after & live
    # verdict: every ret after the site returns a Z value or constant 0
    nret = 0
    for b in F.blocks:
        if b['id'] not in after:
            continue
        t = b['insts'][-1]
        if t['op'] != 'ret' or not t['ops']:
            continue
        nret += 1
        o = t['ops'][0]

        def val_ok(o, depth=0):
            if cls(o) in ('Z', 'C0'):
                return True
            if o['k'] == 'i' and F.insts[o['v']]['op'] == 'phi' and depth < 4:
                ph = F.insts[o['v']]
                pb = F.block_of[ph['id']]
                n = 0
                for x, inb in zip(ph['ops'], ph['inb']):
                    if inb not in after or (inb, pb) in dead or pb not in F.succ[inb]:
                        continue
                    n += 1
                    if not val_ok(x, depth + 1):
                        return False
                return n > 0
            return False
        if val_ok(o):
            continue
        return False, 'ret at line %s returns a value that is not forced to 0 by this contribution' % t.get('line')
    if nret == 0:
        return False, 'no ret after the site'
    return True, '%d ret(s) after the site return a value forced to 0' % nret


def _verify_phi(F, insts, after, pid, K, members, other):
    """is phi pid in class K assuming it is: all after-site incoming operands must be in K after local propagation"""
    ph = F.insts[pid]
    S = set(members)
    for _ in range(6):
        ch = False
        for i in insts:
            if i['id'] in S:
                continue
            ops = i['ops']
            inS = [o['k'] == 'i' and o['v'] in S for o in ops]
            if K == 'NZ' and i['op'] == 'or' and any(inS):
                S.add(i['id']); ch = True
            elif K == 'Z' and i['op'] in ('and', 'mul') and any(inS):
                S.add(i['id']); ch = True
            elif i['op'] in ('zext', 'sext') and inS[0]:
                S.add(i['id']); ch = True
        if not ch:
            break
    n = 0
    for o, inb in zip(ph['ops'], ph['inb']):
        if inb not in after:
            continue
        if o['k'] == 'i' and o['v'] == pid:
            continue
        n += 1
        if o['k'] == 'i' and o['v'] in S:
            continue
        if K == 'Z' and o['k'] == 'c' and o['v'] == 0:
            continue
        return False
    return n > 0 and any(o['k'] == 'i' and o['v'] in members and o['v'] != pid for o in ph['ops'])


def _after_blocks(F, start_inst):
    b0 = F.block_of[start_inst]
    seen = set()
    st = list(F.succ[b0])
    while st:
        b = st.pop()
        if b in seen:
            continue
        seen.add(b)
        st.extend(F.succ[b])
    return seen | {b0}


class AccumAll(Accum):
    """like Accum but includes updates inside loops; yields the update instruction itself"""
    def sites(self, U, fname):
        F = U.func(fname)
        dv = dbg_values(F, self.var)
        res, seen = [], set()
        for i, o in dv:
            if o['k'] != 'i' or o['v'] in seen:
                continue
            ins = F.insts[o['v']]
            if ins['op'] != self.op:
                continue
            seen.add(o['v'])
            res.append(('%s %s= #%d' % (self.var, '|' if self.op == 'or' else '&', len(res)), ins))
        return res


def run_conjuncts(chk, specs, rule_default='conjunct'):
    """specs: (src, func, var, op, min_sites, reason[, rule])"""
    for sp in specs:
        src, func, var, op, min_sites, reason = sp[:6]
        rule = sp[6] if len(sp) > 6 else rule_default
        U = funit(src)
        if func not in U.funcs:
            raise AnalysisBroken('anchor function %s vanished from %s' % (func, src))
        F = U.func(func)
        sites = AccumAll(var, op).sites(U, func)
        # number of independent contributions: `r &= a & b` counts as two
        upd = set(i['id'] for _, i in sites)

        def leaves(o, depth=0):
            if o['k'] != 'i' or depth > 6:
                return 1
            j = F.insts[o['v']]
            if j['id'] in upd:
                return 0            # the accumulator chain itself
            if j['op'] == op:
                return sum(leaves(x, depth + 1) for x in j['ops'])
            if j['op'] in ('zext', 'sext', 'trunc'):
                return leaves(j['ops'][0], depth + 1)
            if j['op'] == 'phi' and any(x['k'] == 'i' and x['v'] in upd for x in j['ops']):
                return 0
            return 1
        ncontrib = sum(max(1, sum(leaves(x) for x in i['ops'])) for _, i in sites)
        if __import__('os').environ.get('VERIF_CONJ_DEBUG'):
            print('CONJ', src, func, var, op, 'min', min_sites, 'updates', len(sites), 'contrib', ncontrib)
        eff = max(len(sites), ncontrib - 1)       # the initial value of the accumulator is one of the leaves
        if eff < min_sites:
            chk.violation(rule, '%s: %s %s= ...' % (func, var, '|' if op == 'or' else '&'), F.where(),
                          'expected at least %d contributions to %s, found %d: a check is missing (%s)' % (min_sites, var, eff, reason),
                          key='%s missing-site %s %s' % (rule, func, var))
            continue
        for name, ins in sites:
            okk, det = conj_closure(F, ins['id'], op)
            inst = '%s: %s (line-independent #) is a conjunct of the verdict' % (func, name)
            where = '%s:%s' % (src, ins.get('line'))
            if okk:
                chk.ok(rule, inst, where, det)
            else:
                chk.violation(rule, inst, where, det + '. ' + reason, key='%s %s %s' % (rule, func, name))


class FieldLoad:
    """every load of (param + const offset) inside the function; hypotheses are applied to all of them together"""
    together = True

    def __init__(self, param, off, name, size=None, nth=None):
        self.param, self.off, self.name, self.size, self.nth = param, off, name, size, nth

    def sites(self, U, fname):
        r = [('load %s#%d' % (self.name, k), i) for k, i in enumerate(U.field_loads(fname, self.param, self.off, self.size))]
        if self.nth is not None:
            r = r[self.nth:self.nth + 1]
        return r

    def __str__(self):
        return 'load of ' + self.name


class ByteLoad:
    """nth byte load (program order) whose address is rooted at parameter `param` (a parser reading its input buffer);
    widened=True selects the zext/sext of that load (the integer variable it initialises) instead of the i8 value"""
    def __init__(self, param, nth, name=None, widened=False):
        self.param, self.nth, self.name, self.widened = param, nth, name or 'byte #%d' % nth, widened

    def sites(self, U, fname):
        F = U.func(fname)
        ls = []
        for i in F.insts.values():
            if i['op'] == 'load' and i['ty'] == 'i8':
                if self._rooted(F, i['ops'][0], set()):
                    ls.append(i)
        ls.sort(key=lambda i: F.order[i['id']])
        if self.nth >= len(ls):
            return []
        i = ls[self.nth]
        if self.widened:
            us = [u for u in F.insts.values() if u['op'] in ('zext', 'sext') and u['ops'][0] == {'k': 'i', 'v': i['id']}]
            if len(us) != 1:
                return []
            i = us[0]
        return [('load %s' % self.name, i)]

    def _rooted(self, F, o, seen):
        """address derives from the parameter through GEPs / casts / advancing-pointer phis only"""
        b, _ = F.addr_of(o)
        if b == {'k': 'a', 'v': self.param}:
            return True
        if b['k'] == 'i' and F.insts[b['v']]['op'] == 'phi' and b['v'] not in seen:
            seen.add(b['v'])
            ops = [q for q in F.insts[b['v']]['ops'] if q['k'] in ('i', 'a')]
            return bool(ops) and all(self._rooted(F, q, seen) or (F.addr_of(q)[0] == b) for q in ops)
        return False

    def __str__(self):
        return 'load of ' + self.name


class LocalLoad:
    """loads of the local variable `var` (an alloca that survives mem2reg because its address is taken)"""
    together = True

    def __init__(self, var, nth=None):
        self.var, self.nth = var, nth

    def sites(self, U, fname):
        F = U.func(fname)
        al = None
        for d in F.f.get('declares', []):
            if d['var'] == self.var:
                al = d['v']
        if al is None:
            return []
        r = []
        for i in F.insts.values():
            if i['op'] == 'load':
                p = F.strip_casts(i['ops'][0])
                if p['k'] == 'i' and p['v'] == al:
                    r.append(i)
        r.sort(key=lambda i: F.order[i['id']])
        r = [('load %s#%d' % (self.var, k), i) for k, i in enumerate(r)]
        if self.nth is not None:
            r = r[self.nth:self.nth + 1]
        return r

    def __str__(self):
        return 'load of local ' + self.var
