"""Result collection, evidence files, exit protocol (DESIGN §2)."""
import os, sys, json, time, re
from . import build

VERIF = build.VERIF


def known_findings():
    res = []
    p = os.path.join(VERIF, 'known_findings.txt')
    if os.path.exists(p):
        for line in open(p):
            line = line.strip()
            m = re.match(r'known:\s+property=(\S+)\s+(.*)$', line)
            if m:
                res.append((m.group(1), m.group(2).strip()))
    return res


class Check:
    def __init__(self, pid, tier, explanation, assumptions=(), trusted=()):
        self.pid = pid
        self.tier = tier
        self.t0 = time.time()
        self.explanation = explanation
        self.assumptions = list(assumptions)
        self.trusted = list(trusted)
        self.obls = []          # dicts
        self.analysed = {}      # free-form counters
        self.notes = []
        self.seed = int(os.environ.get('VERIF_SEED', '0') or 0)

    # ---- recording
    def ok(self, rule, instance, where='', detail='', nontrivial=True):
        self.obls.append(dict(rule=rule, instance=instance, where=where, detail=detail, status='ok', nontrivial=nontrivial))

    def violation(self, rule, instance, where='', detail='', key=None, extra=None):
        """key: semantic site key matched against known_findings.txt"""
        self.obls.append(dict(rule=rule, instance=instance, where=where, detail=detail, status='violation',
                              key=key or ('%s %s' % (rule, instance)), nontrivial=True, extra=extra or {}))

    def count(self, name, n=1):
        self.analysed[name] = self.analysed.get(name, 0) + n

    def floor(self, name, got, need):
        """instance floor: fewer instances than confirmed by hand => analysis broken"""
        self.analysed['floor:' + name] = got
        if got < need:
            raise build.AnalysisBroken('rule %s matched %d instances, floor is %d' % (name, got, need))

    def require(self, cond, msg):
        if not cond:
            raise build.AnalysisBroken(msg)

    # ---- finish
    def finish(self):
        wall = time.time() - self.t0
        known = [k for p, k in known_findings() if p == self.pid]
        viol = [o for o in self.obls if o['status'] == 'violation']
        new, kn = [], []
        for v in viol:
            if any(k == v['key'] for k in known):
                kn.append(v)
            else:
                new.append(v)
        os.makedirs(os.path.join(VERIF, 'evidence'), exist_ok=True)
        os.makedirs(os.path.join(VERIF, 'replay'), exist_ok=True)
        import glob as _glob
        for old in _glob.glob(os.path.join(VERIF, 'replay', self.pid + '-*.json')):
            os.unlink(old)
        oks = [o for o in self.obls if o['status'] == 'ok']
        distinct = len(set((o['rule'], o['instance']) for o in self.obls if o['nontrivial']))
        rules = {}
        for o in self.obls:
            rules.setdefault(o['rule'], [0, 0])
            rules[o['rule']][0] += 1
            if o['status'] == 'ok':
                rules[o['rule']][1] += 1
        samples = []
        seenr = set()
        for o in self.obls:
            if o['rule'] in seenr and len(samples) >= 12:
                continue
            if o['rule'] in seenr and sum(1 for s in samples if s['rule'] == o['rule']) >= 2:
                continue
            seenr.add(o['rule'])
            samples.append({k: o[k] for k in ('rule', 'instance', 'where', 'detail', 'status')})
        ev = dict(
            property_id=self.pid, tier=self.tier, seed=self.seed, level='other',
            coverage=dict(
                explanation=self.explanation,
                evaluations=len(self.obls), distinct_nontrivial=distinct,
                rule='one evaluation = one rule instance (function/site/obligation) decided from the IR, T0 bytecode or '
                     'constant tables of the current tree; non-trivial = the site exists, the hypothesis is satisfiable and '
                     'its negative control does not fold, or the table/anchor was found; distinct = distinct (rule, instance) pairs',
                obligations=len(self.obls), discharged=len(oks),
                samples=samples[:40],
                per_rule={r: dict(instances=a, holding=b) for r, (a, b) in sorted(rules.items())},
                analysed=self.analysed,
                exhaustive=False,
                repo_head=build.repo_head(),
                notes=self.notes,
                trusted_base=self.trusted,
            ),
            assumptions=self.assumptions,
            wall_s=round(wall, 2),
            violations=len(new),
            known_findings=len(kn),
        )
        with open(os.path.join(VERIF, 'evidence', self.pid + '.json'), 'w') as f:
            json.dump(ev, f, indent=1, default=str)
        print('%s [%s]: %d rule instances, %d hold, %d known findings, %d violations, %.1fs'
              % (self.pid, self.tier, len(self.obls), len(oks), len(kn), len(new), wall))
        for r, (a, b) in sorted(rules.items()):
            print('  rule %-38s instances=%-4d holding=%d' % (r, a, b))
        for k, v in sorted(self.analysed.items()):
            print('  analysed %s=%s' % (k, v))
        for v in kn:
            print('KNOWN-FINDING: property=%s %s' % (self.pid, v['key']))
        for n, v in enumerate(new):
            rp = os.path.join(VERIF, 'replay', '%s-%d.json' % (self.pid, n))
            with open(rp, 'w') as f:
                json.dump(dict(property=self.pid, **v), f, indent=1, default=str)
            print('  %s: %s %s: %s' % (v['where'], v['rule'], v['instance'], v['detail']))
            print('VIOLATION property=%s replay=%s' % (self.pid, rp))
        return 1 if new else 0
