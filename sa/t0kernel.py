"""Kernel-word semantics check: the modelled natives of sa/t0ai.py are compared with the symbolic effect derived from the IR
of each interpreter's run function (sa/t0.kernel_semantics).  This removes the native *names* from the trusted base."""
from . import t0


def expected(ctxoff):
    C = 'ctx+%d+' % ctxoff if ctxoff else 'ctx+'
    b2 = lambda op: {-2: '%s(s(-2),s(-1))' % op}
    cmp_ = lambda p: {-2: 'neg(zext1(icmp_%s(s(-2),s(-1))))' % p}
    return {
        '+': dict(slots=b2('add')), '-': dict(slots=b2('sub')), '*': dict(slots=b2('mul')),
        'and': dict(slots=b2('and')), 'or': dict(slots=b2('or')), 'xor': dict(slots=b2('xor')),
        '<<': dict(slots=b2('shl')), 'u>>': dict(slots=b2('lshr')), '>>': dict(slots=b2('ashr')),
        '<': dict(slots=cmp_('slt')), '<=': dict(slots=cmp_('sle')), '>': dict(slots=cmp_('sgt')), '>=': dict(slots=cmp_('sge')),
        '=': dict(slots=cmp_('eq')), '<>': dict(slots=cmp_('ne')),
        'u<': dict(slots=cmp_('ult')), 'u<=': dict(slots=cmp_('ule')), 'u>': dict(slots=cmp_('ugt')), 'u>=': dict(slots=cmp_('uge')),
        'not': dict(slots={-1: 'not(s(-1))'}), 'neg': dict(slots={-1: 'neg(s(-1))'}),
        'dup': dict(slots={0: 's(-1)'}), 'drop': dict(slots={}), 'over': dict(slots={0: 's(-2)'}),
        'swap': dict(slots={-2: 's(-1)', -1: 's(-2)'}),
        'get8': dict(slots={-1: 'zext8(load1(%ss(-1)))' % C}), 'get16': dict(slots={-1: 'zext16(load2(%ss(-1)))' % C}),
        'get32': dict(slots={-1: 'load4(%ss(-1))' % C}),
        'set8': dict(slots={}, stores=['store1(%ss(-1))=trunc8(s(-2))' % C]),
        'set16': dict(slots={}, stores=['store2(%ss(-1))=trunc16(s(-2))' % C]),
        'set32': dict(slots={}, stores=['store4(%ss(-1))=s(-2)' % C]),
        'data-get8': dict(slots={-1: 'zext8(load1(@t0_datablock+s(-1)))'}),
        'memcmp': dict(slots={-3: 'neg(zext1(icmp_eq(memcmp(%ss(-3),%ss(-2),s(-1)),0)))' % (C, C)}),
        'eqblob': dict(slots={-3: 'neg(zext1(icmp_eq(memcmp(%ss(-3),%ss(-2),s(-1)),0)))' % (C, C)}),
        'bzero': dict(slots={}, calls=['llvm.memset.p0i8.i64(%ss(-2),0,s(-1),0)' % C]),
        'memcpy': dict(slots={}, calls=['llvm.memcpy.p0i8.p0i8.i64(%ss(-3),%ss(-2),s(-1),0)' % (C, C)]),
        'blobcopy': dict(slots={}, calls=['llvm.memcpy.p0i8.p0i8.i64(%ss(-3),%ss(-2),s(-1),0)' % (C, C)]),
        'strlen': dict(slots={-1: 'strlen(%ss(-1))' % C}),
        'co': dict(slots={}),
    }


def check(chk, key, rule='t0-kernel-semantics'):
    P = t0.Program(key)
    ks = t0.kernel_semantics(P)
    exp = expected(t0.ctx_base_offset(P))
    n = 0
    for name in sorted(set(P.natives.values())):
        if name not in exp:
            continue
        got = ks.get(name)
        e = exp[name]
        inst = '%s: native `%s` has the semantics the bytecode analyses assume' % (key, name)
        if got is None:
            chk.violation(rule, inst, P.src, 'the native is no longer straight-line code: its effect cannot be derived', key='%s %s %s shape' % (rule, key, name))
            continue
        n += 1
        want = (e.get('slots', {}), sorted(e.get('stores', [])), sorted(e.get('calls', [])))
        have = (got['slots'], sorted(got['stores']), sorted(got['calls']))
        if want == have:
            chk.ok(rule, inst, P.src, str(have[0]) + (' ' + str(have[1]) if have[1] else '') + (' ' + str(have[2]) if have[2] else ''))
        else:
            chk.violation(rule, inst, P.src, 'derived effect %s differs from the modelled %s' % (have, want), key='%s %s %s' % (rule, key, name))
    return n
