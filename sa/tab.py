"""TAB engine (DESIGN 3.7): constant tables read from the IR compared with values generated from the standards.
Reference values are computed here from the standards' definitions (Python integers only), never copied from the repo."""
import math
from . import build
from .build import AnalysisBroken


def ints_of_global(unit, name, elem=None):
    g = next((x for x in unit['globals'] if x['name'] == name), None)
    if g is None:
        return None
    out = {}
    es = None
    for it in g['init']:
        if 'ints' in it:
            es = it['es']
            for k, v in enumerate(it['ints']):
                out[it['off'] // es + k] = v
    if es is None:
        # all-zero aggregate
        return [0] * (g['size'] // (elem or 1))
    return [out.get(i, 0) for i in range(g['size'] // es)]


def global_fields(unit, name):
    """[(offset, size, value|ptr-name)] of a struct initialiser"""
    g = next((x for x in unit['globals'] if x['name'] == name), None)
    if g is None:
        return None
    res = []
    for it in g['init']:
        if 'ints' in it:
            for k, v in enumerate(it['ints']):
                res.append((it['off'] + k * it['es'], it['es'], v))
        elif 'ptr' in it:
            p = it['ptr']
            while p.get('k') in ('cegep', 'cecast'):
                p = p['base']
            res.append((it['off'], it['es'], p.get('v')))
    return sorted(res)


# ------------------------------------------------------------------ AES (FIPS 197)
def gmul(a, b):
    r = 0
    while b:
        if b & 1:
            r ^= a
        a <<= 1
        if a & 0x100:
            a ^= 0x11B
        b >>= 1
    return r


def aes_sbox():
    inv = [0] * 256
    for a in range(1, 256):
        for b in range(1, 256):
            if gmul(a, b) == 1:
                inv[a] = b
                break
    S = []
    for x in range(256):
        y = inv[x]
        r = 0
        for i in range(8):
            bit = ((y >> i) ^ (y >> ((i + 4) % 8)) ^ (y >> ((i + 5) % 8)) ^ (y >> ((i + 6) % 8)) ^ (y >> ((i + 7) % 8)) ^ (0x63 >> i)) & 1
            r |= bit << i
        S.append(r)
    return S


def aes_inv_sbox():
    S = aes_sbox()
    iS = [0] * 256
    for i, v in enumerate(S):
        iS[v] = i
    return iS


def aes_rcon(n=10):
    r, out = 1, []
    for _ in range(n):
        out.append(r)
        r = gmul(r, 2)
    return out


def aes_Ssm0():
    S = aes_sbox()
    return [(gmul(s, 2) << 24) | (s << 16) | (s << 8) | gmul(s, 3) for s in S]


def aes_iSsm0():
    iS = aes_inv_sbox()
    return [(gmul(s, 14) << 24) | (gmul(s, 9) << 16) | (gmul(s, 13) << 8) | gmul(s, 11) for s in iS]


# ------------------------------------------------------------------ hashes
def primes(n):
    ps, c = [], 2
    while len(ps) < n:
        if all(c % p for p in ps if p * p <= c):
            ps.append(c)
        c += 1
    return ps


def icbrt(n):
    x = int(round(n ** (1.0 / 3)))
    while x ** 3 > n:
        x -= 1
    while (x + 1) ** 3 <= n:
        x += 1
    return x


def frac_sqrt(p, bits):
    return math.isqrt(p << (2 * bits)) & ((1 << bits) - 1)


def frac_cbrt(p, bits):
    return icbrt(p << (3 * bits)) & ((1 << bits) - 1)


def sha256_K():
    return [frac_cbrt(p, 32) for p in primes(64)]


def sha512_K():
    return [frac_cbrt(p, 64) for p in primes(80)]


def sha256_IV():
    return [frac_sqrt(p, 32) for p in primes(8)]


def sha512_IV():
    return [frac_sqrt(p, 64) for p in primes(8)]


def sha384_IV():
    return [frac_sqrt(p, 64) for p in primes(16)[8:]]


def sha224_IV():
    return [frac_sqrt(p, 64) & 0xFFFFFFFF for p in primes(16)[8:]]


def md5_K():
    # floor(2^32 * abs(sin(i+1))) ; double precision is exact enough for 32 bits here (RFC 1321 table), verified by
    # a high-precision evaluation with integer arithmetic below
    from fractions import Fraction
    out = []
    for i in range(64):
        x = Fraction(i + 1)
        # sin via Taylor series with rational arithmetic, 60 terms
        s, term, k = Fraction(0), x, 1
        for n in range(1, 700, 2):
            s += term
            term = -term * x * x / ((n + 1) * (n + 2))
        out.append(int(abs(s) * (1 << 32)))
    return out


MD5_IV = [0x67452301, 0xEFCDAB89, 0x98BADCFE, 0x10325476]            # RFC 1321 3.3
SHA1_IV = MD5_IV + [0xC3D2E1F0]                                       # FIPS 180-4 5.3.1
SHA1_K = [math.isqrt(k << 60) & 0xFFFFFFFF for k in (2, 3, 5, 10)]   # floor(2^30 * sqrt(k))


def md5_msg_perm():
    """message word index for rounds 2..4 (RFC 1321 3.4): (1+5i) mod 16, (5+3i) mod 16, 7i mod 16"""
    return [(1 + 5 * i) % 16 for i in range(16)] + [(5 + 3 * i) % 16 for i in range(16)] + [(7 * i) % 16 for i in range(16)]


def oid_der(arcs):
    b = [40 * arcs[0] + arcs[1]]
    for a in arcs[2:]:
        chunk = [a & 0x7F]
        a >>= 7
        while a:
            chunk.insert(0, 0x80 | (a & 0x7F))
            a >>= 7
        b += chunk
    return b


DIGEST_OIDS = {
    1: [1, 2, 840, 113549, 2, 5],            # md5
    2: [1, 3, 14, 3, 2, 26],                 # sha1
    3: [2, 16, 840, 1, 101, 3, 4, 2, 4],     # sha224
    4: [2, 16, 840, 1, 101, 3, 4, 2, 1],     # sha256
    5: [2, 16, 840, 1, 101, 3, 4, 2, 2],     # sha384
    6: [2, 16, 840, 1, 101, 3, 4, 2, 3],     # sha512
}

# ------------------------------------------------------------------ curves (SEC 2 / FIPS 186-4 / RFC 7748)
CURVES = {
    'secp256r1': dict(
        p=2**256 - 2**224 + 2**192 + 2**96 - 1,
        b=0x5AC635D8AA3A93E7B3EBBD55769886BC651D06B0CC53B0F63BCE3C3E27D2604B,
        gx=0x6B17D1F2E12C4247F8BCE6E563A440F277037D812DEB33A0F4A13945D898C296,
        gy=0x4FE342E2FE1A7F9B8EE7EB4A7C0F9E162BCE33576B315ECECBB6406837BF51F5,
        n=0xFFFFFFFF00000000FFFFFFFFFFFFFFFFBCE6FAADA7179E84F3B9CAC2FC632551, len=32, id=23),
    'secp384r1': dict(
        p=2**384 - 2**128 - 2**96 + 2**32 - 1,
        b=0xB3312FA7E23EE7E4988E056BE3F82D19181D9C6EFE8141120314088F5013875AC656398D8A2ED19D2A85C8EDD3EC2AEF,
        gx=0xAA87CA22BE8B05378EB1C71EF320AD746E1D3B628BA79B9859F741E082542A385502F25DBF55296C3A545E3872760AB7,
        gy=0x3617DE4A96262C6F5D9E98BF9292DC29F8F41DBD289A147CE9DA3113B5F0B8C00A60B1CE1D7E819D7A431D7C90EA0E5F,
        n=0xFFFFFFFFFFFFFFFFFFFFFFFFFFFFFFFFFFFFFFFFFFFFFFFFC7634D81F4372DDF581A0DB248B0A77AECEC196ACCC52973, len=48, id=24),
    'secp521r1': dict(
        p=2**521 - 1,
        b=0x0051953EB9618E1C9A1F929A21A0B68540EEA2DA725B99B315F3B8B489918EF109E156193951EC7E937B1652C0BD3BB1BF073573DF883D2C34F1EF451FD46B503F00,
        gx=0x00C6858E06B70404E9CD9E3ECB662395B4429C648139053FB521F828AF606B4D3DBAA14B5E77EFE75928FE1DC127A2FFA8DE3348B3C1856A429BF97E7E31C2E5BD66,
        gy=0x011839296A789A3BC0045C8A5FB42C7D1BD998F54449579B446817AFBD17273E662C97EE72995EF42640C550B9013FAD0761353C7086A272C24088BE94769FD16650,
        n=int('01FF' + 'FFFFFFFF' * 7 + 'FFFFFFFA' + '51868783BF2F966B7FCC0148F709A5D03BB5C9B8899C47AEBB6FB71E91386409', 16), len=66, id=25),
}
C25519 = dict(p=2**255 - 19, n=2**252 + 27742317777372353535851937790883648493, u=9, id=29, a24=121665)


def check_curve_refs():
    """sanity of the embedded reference values: generator on curve (a = -3) and n*G is consistent in size"""
    for name, c in CURVES.items():
        p = c['p']
        if (c['gy'] ** 2 - (c['gx'] ** 3 - 3 * c['gx'] + c['b'])) % p != 0:
            raise AnalysisBroken('reference table broken: generator of %s is not on the curve' % name)
        if _ecmul(c['n'], (c['gx'], c['gy']), p) is not None or _ecmul(c['n'] - 1, (c['gx'], c['gy']), p) != (c['gx'], (-c['gy']) % p):
            raise AnalysisBroken('reference table broken: n*G != O for %s' % name)
        if c['n'].bit_length() != p.bit_length():
            raise AnalysisBroken('reference table broken: order size of %s' % name)


def _ecadd(P, Q, p):
    if P is None:
        return Q
    if Q is None:
        return P
    if P[0] == Q[0]:
        if (P[1] + Q[1]) % p == 0:
            return None
        l = (3 * P[0] * P[0] - 3) * pow(2 * P[1], -1, p) % p
    else:
        l = (Q[1] - P[1]) * pow(Q[0] - P[0], -1, p) % p
    x = (l * l - P[0] - Q[0]) % p
    return (x, (l * (P[0] - x) - P[1]) % p)


def _ecmul(k, P, p):
    R = None
    while k:
        if k & 1:
            R = _ecadd(R, P, p)
        P = _ecadd(P, P, p)
        k >>= 1
    return R


def enc_i15(x, bitlen=None):
    """BearSSL i15 encoding: header = announced bit length code, then 15-bit little-endian words"""
    bl = x.bit_length() if bitlen is None else bitlen
    n = (bl + 14) // 15
    hdr = ((bl // 15) << 4) + (bl % 15)
    return [hdr] + [(x >> (15 * i)) & 0x7FFF for i in range(n)]


def enc_i31(x, bitlen=None):
    bl = x.bit_length() if bitlen is None else bitlen
    n = (bl + 30) // 31
    hdr = ((bl // 31) << 5) + (bl % 31)
    return [hdr] + [(x >> (31 * i)) & 0x7FFFFFFF for i in range(n)]


def be_bytes(x, n):
    return list(x.to_bytes(n, 'big'))
