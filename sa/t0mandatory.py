"""Mandatory checks of the T0 decoders / handshake words: failure sites whose guarding test lies on every path from the start of its
word to the word's end.  The reviewed tree's set (program, error code) -> number of such sites is frozen in rules/t0_mandatory.json;
a test that becomes avoidable (moved under a condition, skipped by a new jump) or disappears is reported."""
import json, os, collections
from . import t0, t0ai, t0rules, build
from .build import AnalysisBroken

PROGRAMS = ('x509_minimal', 'x509_decoder', 'skey_decoder', 'pkey_decoder', 'hs_client', 'hs_server')


def survey(key):
    P = t0.Program(key)
    I = t0ai.Interp(P).run_entry()
    sites = sorted(set((e.word, e.pc, e.args[0].c) for e in I.events if e.name == 'fail' and e.args and e.args[0].isconst()))
    out = collections.Counter()
    where = collections.defaultdict(list)
    for w, pc, code in sites:
        W = P.words[w]
        g = t0rules.guard_before(P, w, pc)
        if g is None:
            continue
        seen, st, reach = set(), [W.start], False
        while st:
            q = st.pop()
            if q in seen or q == g.pc or q not in W.ins:
                continue
            seen.add(q)
            i = W.ins[q]
            if i.kind == 'ret':
                reach = True
                break
            st.extend(W.succs(i))
        if not reach and any(i.kind == 'ret' for i in W.ins.values()):
            out[code] += 1
            where[code].append('W%d@%d' % (w, pc))
    return P, out, where


def check(chk, keys, rule='t0-mandatory-checks'):
    ref = json.load(open(os.path.join(build.VERIF, 'rules', 't0_mandatory.json')))
    for key in keys:
        P, out, where = survey(key)
        r = ref.get(key, {})
        n = 0
        for code, cnt in sorted(r.items(), key=lambda kv: int(kv[0])):
            n += 1
            have = out.get(int(code), 0)
            inst = '%s: %d unavoidable test(s) reporting error %s' % (key, cnt, code)
            if have >= cnt:
                chk.ok(rule, inst, P.src, ', '.join(where[int(code)][:4]))
            else:
                chk.violation(rule, inst, P.src, 'only %d test(s) reporting error %s are still on every path through their word (%s): a mandatory check has '
                              'become conditional or was removed' % (have, code, ', '.join(where[int(code)]) or 'none'), key='%s %s %s' % (rule, key, code))
        if n == 0:
            raise AnalysisBroken('%s: no reference entries for %s' % (rule, key))


if __name__ == '__main__':
    ref = {}
    for key in PROGRAMS:
        P, out, where = survey(key)
        ref[key] = {str(c): n for c, n in sorted(out.items())}
        print(key, ref[key])
    json.dump(ref, open(os.path.join(build.VERIF, 'rules', 't0_mandatory.json'), 'w'), indent=1, sort_keys=True)
