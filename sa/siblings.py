"""Sibling agreement between the i15 and the i31 implementation of the same function: the two files are maintained as word-size
variants of one another, so they must make the same calls in the same order (names normalised).  A call that was dropped, added or
moved in one of them only is reported.  Pairs that legitimately differ are listed with the reason."""
import re, collections
from . import build, wmw
from .build import AnalysisBroken

EXCEPT = {
    'br_i15_encode': 'i31 uses a helper for the 31-bit word split',
    'br_i15_moddiv': 'different co-reduction strategy per word size',
    'br_i15_muladd_small': 'i15 has no divrem helper call',
    'br_rsa_i15_keygen': 'i31 is a thin wrapper around br_rsa_i31_keygen_inner',
}


def _norm(n):
    n = re.sub(r'i15|i31', 'iXX', n)
    n = re.sub(r'ninv15|ninv31', 'ninv', n)
    n = re.sub(r'^llvm\.(mem\w+)\..*', r'\1', n)
    return n


def _seq(F):
    return [_norm(c['callee']) for c in sorted(F.calls(), key=lambda c: c['id'])
            if c.get('callee') and not c['callee'].startswith('llvm.dbg') and not c['callee'].startswith('llvm.lifetime') and not c['callee'].startswith('br_verif')]


def check(chk, dirs, rule='sibling-call-sequence', floor=5):
    P = wmw.program()
    byfile = collections.defaultdict(dict)
    for (un, fn), F in P.static.items():
        byfile[F.file().replace(build.REPO + '/', '')][fn] = F
    n = 0
    for f, fs in sorted(byfile.items()):
        if 'i15' not in f or not any(f.startswith(d) for d in dirs):
            continue
        g = f.replace('i15', 'i31')
        if g not in byfile:
            continue
        for fn, A in sorted(fs.items()):
            gn = fn.replace('i15', 'i31')
            if gn not in byfile[g] or fn in EXCEPT:
                continue
            B = byfile[g][gn]
            sa, sb = _seq(A), _seq(B)
            n += 1
            inst = '%s / %s make the same calls in the same order' % (fn, gn)
            if sa == sb:
                chk.ok(rule, inst, f, '%d calls' % len(sa))
            else:
                k = next((j for j in range(min(len(sa), len(sb))) if sa[j] != sb[j]), min(len(sa), len(sb)))
                chk.violation(rule, inst, f, 'call #%d differs: %s has %s, %s has %s (%d vs %d calls): a step was dropped, added or moved in one of the two word-size variants'
                              % (k, fn, sa[k] if k < len(sa) else 'nothing', gn, sb[k] if k < len(sb) else 'nothing', len(sa), len(sb)), key='%s %s' % (rule, fn))
    chk.floor('i15/i31 sibling pairs compared', n, floor)


# ---------------------------------------------------------------- further variant families (reference: pairs that agree on the reviewed tree)
GROUPS = {
    'm15/m31': ('m15', 'm31', ('src/ec/',)),
    'm62/m64': ('m62', 'm64', ('src/ec/',)),
    'aes_big/aes_small': ('aes_big', 'aes_small', ('src/symcipher/',)),
    'i31/i32': ('i31', 'i32', ('src/int/', 'src/rsa/')),
}


def _pairs(group):
    a, b, dirs = GROUPS[group]
    P = wmw.program()
    byfile = collections.defaultdict(dict)
    for (un, fn), F in P.static.items():
        byfile[F.file().replace(build.REPO + '/', '')][fn] = F

    def norm(n):
        n = re.sub(r'^llvm\.(mem\w+)\..*', r'\1', n)
        return n.replace(a, 'XX').replace(b, 'XX')

    def seq(F):
        return [norm(c['callee']) for c in sorted(F.calls(), key=lambda c: c['id'])
                if c.get('callee') and not c['callee'].startswith(('llvm.dbg', 'llvm.lifetime', 'br_verif'))]
    out = {}
    for f, fs in sorted(byfile.items()):
        if a not in f or not any(f.startswith(d) for d in dirs):
            continue
        g = f.replace(a, b)
        if g == f or g not in byfile:
            continue
        for fn, A in sorted(fs.items()):
            gn = fn.replace(a, b)
            if gn in byfile[g]:
                out['%s:%s' % (f, fn)] = (seq(A), seq(byfile[g][gn]), gn)
    return out


def check_group(chk, group, rule='sibling-call-sequence', floor=5):
    """variant files of one algorithm (15/31-bit limbs, 62/64-bit, table sizes, word sizes): the functions that made the same calls in
    the same order on the reviewed tree (rules/sibling_pairs.json) must still do so: a step dropped, added or moved in one variant only
    is a divergence between implementations that must compute the same function"""
    import json, os
    ref = json.load(open(os.path.join(build.VERIF, 'rules', 'sibling_pairs.json')))[group]
    cur = _pairs(group)
    n = 0
    for key in ref:
        if key not in cur:
            continue            # function renamed / removed: nothing to compare
        sa, sb, gn = cur[key]
        n += 1
        fn = key.split(':')[1]
        inst = '%s / %s (%s) make the same calls in the same order' % (fn, gn, group)
        if sa == sb:
            chk.ok(rule, inst, key.split(':')[0], '%d calls' % len(sa))
        else:
            k = next((j for j in range(min(len(sa), len(sb))) if sa[j] != sb[j]), min(len(sa), len(sb)))
            chk.violation(rule, inst, key.split(':')[0], 'call #%d differs: %s has %s, %s has %s (%d vs %d calls): a step was dropped, added or moved in one variant only'
                          % (k, fn, sa[k] if k < len(sa) else 'nothing', gn, sb[k] if k < len(sb) else 'nothing', len(sa), len(sb)), key='%s %s %s' % (rule, group, fn))
    chk.floor('%s sibling pairs compared' % group, n, floor)


if __name__ == '__main__':
    import json, os
    out = {}
    for g in GROUPS:
        out[g] = sorted(k for k, (sa, sb, gn) in _pairs(g).items() if sa == sb and len(sa) > 0)
        print(g, len(out[g]))
    json.dump(out, open(os.path.join(build.VERIF, 'rules', 'sibling_pairs.json'), 'w'), indent=1)
