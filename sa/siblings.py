"""Sibling agreement between the i15 and the i31 implementation of the same function: the two files are maintained as word-size
variants of one another, so they must make the same calls in the same order (names normalised).  A call that was dropped, added or
moved in one of them only is reported.  Pairs that legitimately differ are listed with the reason."""
import re, collections
from . import build, wmw
from .build import AnalysisBroken

EXCEPT = {
    'br_i15_encode': 'i31 uses a helper for the 31-bit word split',
    'br_i15_moddiv': 'different co-reduction strategy per word size',
    'br_i15_muladd_small': 'i15 has no divrem helper call',
    'br_rsa_i15_keygen': 'i31 is a thin wrapper around br_rsa_i31_keygen_inner',
}


def _norm(n):
    n = re.sub(r'i15|i31', 'iXX', n)
    n = re.sub(r'ninv15|ninv31', 'ninv', n)
    n = re.sub(r'^llvm\.(mem\w+)\..*', r'\1', n)
    return n


def _seq(F):
    return [_norm(c['callee']) for c in sorted(F.calls(), key=lambda c: c['id'])
            if c.get('callee') and not c['callee'].startswith('llvm.dbg') and not c['callee'].startswith('llvm.lifetime') and not c['callee'].startswith('br_verif')]


def check(chk, dirs, rule='sibling-call-sequence', floor=5):
    P = wmw.program()
    byfile = collections.defaultdict(dict)
    for (un, fn), F in P.static.items():
        byfile[F.file().replace(build.REPO + '/', '')][fn] = F
    n = 0
    for f, fs in sorted(byfile.items()):
        if 'i15' not in f or not any(f.startswith(d) for d in dirs):
            continue
        g = f.replace('i15', 'i31')
        if g not in byfile:
            continue
        for fn, A in sorted(fs.items()):
            gn = fn.replace('i15', 'i31')
            if gn not in byfile[g] or fn in EXCEPT:
                continue
            B = byfile[g][gn]
            sa, sb = _seq(A), _seq(B)
            n += 1
            inst = '%s / %s make the same calls in the same order' % (fn, gn)
            if sa == sb:
                chk.ok(rule, inst, f, '%d calls' % len(sa))
            else:
                k = next((j for j in range(min(len(sa), len(sb))) if sa[j] != sb[j]), min(len(sa), len(sb)))
                chk.violation(rule, inst, f, 'call #%d differs: %s has %s, %s has %s (%d vs %d calls): a step was dropped, added or moved in one of the two word-size variants'
                              % (k, fn, sa[k] if k < len(sa) else 'nothing', gn, sb[k] if k < len(sb) else 'nothing', len(sa), len(sb)), key='%s %s' % (rule, fn))
    chk.floor('i15/i31 sibling pairs compared', n, floor)
