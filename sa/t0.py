"""T0 bytecode layer (DESIGN 3.4): decode the generated interpreters from the compiled unit, derive native
stack effects from the IR of the run function, compute stack depths, and provide word CFGs for dataflow rules.

Inputs are the *evaluated* bytes of t0_codeblock / t0_datablock / t0_caddr (from the IR: every T0_INTx(expr) is a
compile-time constant) plus, from the C text, only the native names (`case N: { /* name */`), T0_INTERPRETED and
T0_DEFENTRY.  The .t0 sources are never read.
"""
import re, os, urllib.parse, collections
from . import build, irf
from .build import AnalysisBroken

INTERPRETERS = {
    'x509_minimal': ('src/x509/x509_minimal.c', 'br_x509_minimal_run', 'br_x509_minimal_context'),
    'x509_decoder': ('src/x509/x509_decoder.c', 'br_x509_decoder_run', 'br_x509_decoder_context'),
    'skey_decoder': ('src/x509/skey_decoder.c', 'br_skey_decoder_run', 'br_skey_decoder_context'),
    'pkey_decoder': ('src/x509/pkey_decoder.c', 'br_pkey_decoder_run', 'br_pkey_decoder_context'),
    'pemdec': ('src/codec/pemdec.c', 'br_pem_decoder_run', 'br_pem_decoder_context'),
    'hs_client': ('src/ssl/ssl_hs_client.c', 'br_ssl_hs_client_run', 'br_ssl_client_context'),
    'hs_server': ('src/ssl/ssl_hs_server.c', 'br_ssl_hs_server_run', 'br_ssl_server_context'),
}

BUILTIN = {0: 'ret', 1: 'const', 2: 'getlocal', 3: 'putlocal', 4: 'jump', 5: 'jumpif', 6: 'jumpifnot'}


class Ins:
    __slots__ = ('pc', 'kind', 'arg', 'next', 'name')

    def __init__(self, pc, kind, arg, nxt, name=None):
        self.pc, self.kind, self.arg, self.next, self.name = pc, kind, arg, nxt, name

    def __repr__(self):
        return '%d:%s(%s)' % (self.pc, self.name or self.kind, self.arg)


class Program:
    def __init__(self, key, config='host'):
        self.key = key
        self.src, self.runfn, self.ctxname = INTERPRETERS[key]
        self.unit = build.load_unit(self.src, 'm2r', config, hooks=True)
        self.text = open(os.path.join(build.REPO, self.src)).read()
        g = {x['name']: x for x in self.unit['globals']}
        for n in ('t0_codeblock', 't0_caddr'):
            if n not in g:
                raise AnalysisBroken('%s: global %s not found' % (self.src, n))
        self.code = self._ints(g['t0_codeblock'])
        self.caddr = self._ints(g['t0_caddr'])
        self.data = self._ints(g['t0_datablock']) if 't0_datablock' in g else []
        self.natives = dict(BUILTIN)
        for m in re.finditer(r'case (\d+): \{\s*/\* (.*?) \*/', self.text):
            self.natives[int(m.group(1))] = urllib.parse.unquote(m.group(2))
        m = re.search(r'#define T0_INTERPRETED\s+(\d+)', self.text)
        if not m:
            raise AnalysisBroken('%s: T0_INTERPRETED not found' % self.src)
        self.interp = int(m.group(1))
        self.entries = [(n, int(s)) for n, s in re.findall(r'^T0_DEFENTRY\((\w+), (\d+)\)', self.text, re.M)]
        if not self.entries:
            raise AnalysisBroken('%s: no T0_DEFENTRY' % self.src)
        if sorted(k for k in self.natives) != list(range(self.interp)):
            raise AnalysisBroken('%s: native table has holes (%d names for %d slots)' % (self.src, len(self.natives), self.interp))
        self.words = {}
        self._decode()
        self.layouts = irf.Layouts(self.unit)

    @staticmethod
    def _ints(g):
        size = g['size']
        out = {}
        es = 1
        for it in g['init']:
            if 'ints' in it:
                es = it['es']
                for k, v in enumerate(it['ints']):
                    out[(it['off'] // es) + k] = v
        n = size // es
        return [out.get(i, 0) for i in range(n)]

    def u7(self, p):
        x = 0
        while True:
            y = self.code[p]
            p += 1
            x = (x << 7) | (y & 0x7f)
            if y < 0x80:
                return x, p

    def s7(self, p):
        neg = (self.code[p] >> 6) & 1
        x = -neg & 0xffffffff
        while True:
            y = self.code[p]
            p += 1
            x = ((x << 7) | (y & 0x7f)) & 0xffffffff
            if y < 0x80:
                if x & 0x80000000:
                    x -= 1 << 32
                return x, p

    def _decode(self):
        for wi, a in enumerate(self.caddr):
            end = self.caddr[wi + 1] if wi + 1 < len(self.caddr) else len(self.code)
            nloc, p = self.u7(a)
            ins = collections.OrderedDict()
            while p < end:
                p0 = p
                op = self.code[p]
                p += 1
                if op >= self.interp:
                    ins[p0] = Ins(p0, 'call', op, p)
                elif op == 1:
                    v, p = self.s7(p)
                    ins[p0] = Ins(p0, 'const', v, p)
                elif op in (2, 3):
                    v, p = self.u7(p)
                    ins[p0] = Ins(p0, 'getlocal' if op == 2 else 'putlocal', v, p)
                elif op in (4, 5, 6):
                    v, p = self.s7(p)
                    ins[p0] = Ins(p0, ('jump', 'jumpif', 'jumpifnot')[op - 4], p + v, p)
                elif op == 0:
                    ins[p0] = Ins(p0, 'ret', None, p)
                else:
                    ins[p0] = Ins(p0, 'native', op, p, self.natives[op])
            w = wi + self.interp
            self.words[w] = Word(w, nloc, ins)
        for w in self.words.values():
            for i in w.ins.values():
                if i.kind in ('jump', 'jumpif', 'jumpifnot') and i.arg not in w.ins:
                    raise AnalysisBroken('%s: W%d jump target %d outside the word' % (self.key, w.id, i.arg))
                if i.kind == 'call' and i.arg not in self.words:
                    raise AnalysisBroken('%s: W%d calls unknown word %d' % (self.key, w.id, i.arg))

    # ---- helpers for semantic identification
    def native_id(self, name):
        ids = [k for k, v in self.natives.items() if v == name]
        return ids[0] if len(ids) == 1 else None

    def words_calling_native(self, name):
        return [w.id for w in self.words.values() if any(i.kind == 'native' and i.name == name for i in w.ins.values())]

    def words_calling_word(self, wid):
        return [w.id for w in self.words.values() if any(i.kind == 'call' and i.arg == wid for i in w.ins.values())]

    def reachable_words(self, entry=None):
        entry = entry if entry is not None else self.entries[0][1]
        seen = set()
        st = [entry]
        while st:
            w = st.pop()
            if w in seen:
                continue
            seen.add(w)
            for i in self.words[w].ins.values():
                if i.kind == 'call':
                    st.append(i.arg)
        return seen

    def const_word_value(self, wid):
        """value of a word that is just `const(v) ret` (T0 `addr-xxx` / constants), else None"""
        w = self.words[wid]
        l = list(w.ins.values())
        if len(l) == 2 and l[0].kind == 'const' and l[1].kind == 'ret':
            return l[0].arg
        return None

    # ---- native stack effects from the IR of the run function
    def native_effects(self):
        if hasattr(self, '_eff'):
            return self._eff
        f = next((x for x in self.unit['functions'] if x['name'] == self.runfn and not x['decl']), None)
        if f is None:
            raise AnalysisBroken('%s: run function %s not found' % (self.key, self.runfn))
        F = irf.Func(self.unit, f)
        self._eff = derive_effects(F, self)
        return self._eff


class Word:
    def __init__(self, wid, nloc, ins):
        self.id, self.nloc, self.ins = wid, nloc, ins
        self.start = next(iter(ins)) if ins else None

    def succs(self, i):
        if i.kind == 'ret':
            return []
        if i.kind == 'jump':
            return [i.arg]
        if i.kind in ('jumpif', 'jumpifnot'):
            return [i.arg, i.next]
        return [i.next] if i.next in self.ins else []


# ---------------------------------------------------------------------------------------------
def derive_effects(F, prog):
    """per native opcode: dict(dp=set of net deltas on return to the dispatcher, dp_exit=set of deltas at co-exit,
    peak=max data-stack slot written above entry (+1), dip=lowest slot read/written below entry, rp..., noreturn)"""
    # entry loads of ctx->dp (off 0) and ctx->rp (off 8)
    roots = {}
    for i in F.insts.values():
        if i['op'] == 'load' and F.block_of[i['id']] == F.entry:
            base, off = F.addr_of(i['ops'][0])
            if base['k'] == 'a' and base['v'] == 0 and off in (0, 8) and i['ty'] == 'i32*':
                roots['dp' if off == 0 else 'rp'] = i['id']
    if set(roots) != {'dp', 'rp'}:
        raise AnalysisBroken('%s: cannot find the loads of ctx->dp / ctx->rp' % prog.key)
    # exit stores
    exits = {}
    for i in F.insts.values():
        if i['op'] == 'store' and i['ops'][0]['k'] == 'i' and F.insts[i['ops'][0]['v']]['ty'] == 'i32*':
            base, off = F.addr_of(i['ops'][1])
            if base['k'] == 'a' and base['v'] == 0 and off in (0, 8):
                exits['dp' if off == 0 else 'rp'] = i
    if set(exits) != {'dp', 'rp'}:
        raise AnalysisBroken('%s: cannot find the exit stores of dp / rp' % prog.key)
    # header phis
    H = {}
    for k, r in roots.items():
        hs = [i for i in F.insts.values() if i['op'] == 'phi' and any(o['k'] == 'i' and o['v'] == r for o in i['ops'])]
        if len(hs) != 1:
            raise AnalysisBroken('%s: %d header phis for %s' % (prog.key, len(hs), k))
        H[k] = hs[0]
    hb = F.block_of[H['dp']['id']]
    if F.block_of[H['rp']['id']] != hb:
        raise AnalysisBroken('%s: dp and rp header phis in different blocks' % prog.key)
    # dispatch switch
    sw = [i for i in F.insts.values() if i['op'] == 'switch']
    sw.sort(key=lambda i: -len(i['ops']))
    if not sw or len(sw[0]['ops']) < 2 * 10:
        raise AnalysisBroken('%s: dispatch switch not found' % prog.key)
    sw = sw[0]
    ops = sw['ops']
    cases = {}
    for k in range(2, len(ops), 2):
        cases[ops[k]['v']] = ops[k + 1]['v']
    if sorted(cases) != list(range(prog.interp)):
        raise AnalysisBroken('%s: dispatch switch covers %d cases, T0_INTERPRETED is %d' % (prog.key, len(cases), prog.interp))
    # T0_ENTER block: the other successor of the `t0x < T0_INTERPRETED` branch
    swb = F.block_of[sw['id']]
    enter = None
    for p in F.pred[swb]:
        t = F.blocks_by_id[p]['insts'][-1] if hasattr(F, 'blocks_by_id') else None
    bid = {b['id']: b for b in F.blocks}
    for p in F.pred[swb]:
        t = bid[p]['insts'][-1]
        if t['op'] == 'br' and len(t['ops']) == 3:
            other = [o['v'] for o in t['ops'][1:] if o['v'] != swb]
            if other:
                enter = other[0]
    exitb = F.block_of[exits['dp']['id']]

    def region(start):
        seen = set()
        st = [start]
        while st:
            b = st.pop()
            if b in seen:
                continue
            seen.add(b)
            if b == hb or b == exitb:
                continue
            st.extend(F.succ[b])
        return seen

    def deltas(v, R, which, memo, stack):
        """set of deltas (in slots) of pointer value v relative to the header phi, None element = unknown"""
        if v['k'] != 'i':
            return {None}
        vid = v['v']
        if vid == H[which]['id']:
            return {0}
        if vid in memo:
            return memo[vid]
        if vid in stack:
            return set()
        i = F.insts[vid]
        stack = stack | {vid}
        if i['op'] == 'bitcast':
            r = deltas(i['ops'][0], R, which, memo, stack)
        elif i['op'] == 'getelementptr':
            if i.get('var') or i.get('off') is None:
                r = {None}
            else:
                r = set((d + i['off'] // 4) if d is not None else None for d in deltas(i['ops'][0], R, which, memo, stack))
        elif i['op'] == 'phi':
            r = set()
            for o, inb in zip(i['ops'], i['inb']):
                if inb in R and inb != hb and F.block_of[vid] in F.succ[inb]:
                    r |= deltas(o, R, which, memo, stack)
        else:
            r = {None}
        memo[vid] = r
        return r

    # blocks that record a failure: call of br_ssl_engine_fail, or a store to CTX->err
    erroff = None
    try:
        eo = prog.layouts.field(prog.ctxname, 'err')[0]
        co = prog.layouts.field(prog.ctxname, 'cpu')[0]
        erroff = eo - co
    except KeyError:
        pass
    failblocks = set()
    for i in F.insts.values():
        if i['op'] == 'call' and i.get('callee') == 'br_ssl_engine_fail':
            failblocks.add(F.block_of[i['id']])
        if i['op'] == 'store' and erroff is not None:
            base, off = F.addr_of(i['ops'][1])
            if base['k'] == 'a' and base['v'] == 0 and off == erroff:
                failblocks.add(F.block_of[i['id']])

    def exit_only_after_fail(start):
        seen = set()
        st = [start]
        while st:
            b = st.pop()
            if b in seen or b in failblocks:
                continue
            seen.add(b)
            if b == exitb:
                return False
            if b == hb:
                continue
            st.extend(F.succ[b])
        return True

    eff = {}
    targets = dict(cases)
    targets['enter'] = enter
    for opc, tb in targets.items():
        if tb is None:
            continue
        R = region(tb)
        e = {}
        for which in ('dp', 'rp'):
            memo = {}
            back = set()
            for o, inb in zip(H[which]['ops'], H[which]['inb']):
                if inb in R and inb != hb and not (o['k'] == 'i' and o['v'] == roots[which]):
                    back |= deltas(o, R, which, memo, frozenset())
            ex = set()
            if exitb in R:
                ev = exits[which]['ops'][0]
                ex = deltas(ev, R | {exitb}, which, memo, frozenset())
            peak, dip = 0, 0
            unknown_addr = 0
            vals = {}
            for b in R:
                if b in (hb,):
                    continue
                for i in bid[b]['insts']:
                    a = None
                    if i['op'] == 'load' and i['ty'] == 'i32':
                        a = i['ops'][0]
                    elif i['op'] == 'store' and i['size'] == 4:
                        a = i['ops'][1]
                    if a is None:
                        continue
                    ds = deltas(a, R, which, memo, frozenset())
                    for d in ds:
                        if d is None:
                            continue
                        if i['op'] == 'store':
                            peak = max(peak, d + 1)
                            if which == 'dp':
                                vr = value_range(F, i['ops'][0])
                                if d in vals:
                                    o = vals[d]
                                    vals[d] = None if (o is None or vr is None) else (min(o[0], vr[0]), max(o[1], vr[1]))
                                else:
                                    vals[d] = vr
                        dip = min(dip, d)
            e[which] = dict(ret=back, exit=ex, peak=peak, dip=dip)
            if which == 'dp':
                e[which]['vals'] = vals
        e['failexit'] = (exitb in R) and exit_only_after_fail(tb)
        eff[opc] = e
    return eff


def value_range(F, o, depth=0, seen=None):
    """sound integer range of an i32 value pushed on the data stack, from the shape of its computation; None = unknown"""
    if o['k'] == 'c':
        return (o['v'], o['v']) if o['v'] is not None else None
    if o['k'] != 'i' or depth > 8:
        return None
    seen = seen or set()
    if o['v'] in seen:
        return 'cycle'
    i = F.insts[o['v']]
    op = i['op']
    if op == 'zext':
        src = i['ops'][0]
        w = None
        if src['k'] == 'i':
            m = F.insts[src['v']]['ty']
            if m in ('i1', 'i8', 'i16'):
                w = int(m[1:])
        elif src['k'] == 'a':
            return None
        if w is None:
            return None
        return (0, (1 << w) - 1)
    if op == 'sext':
        src = i['ops'][0]
        if src['k'] == 'i' and F.insts[src['v']]['ty'] == 'i1':
            return (-1, 0)
        if src['k'] == 'i' and F.insts[src['v']]['ty'] == 'i8':
            return (-128, 127)
        return None
    if op == 'sub' and i['ops'][0] == {'k': 'c', 'v': 0, 'w': 32}:
        r = value_range(F, i['ops'][1], depth + 1, seen)
        if r and r != 'cycle':
            return (-r[1], -r[0])
        return None
    if op == 'and':
        for a in i['ops']:
            if a['k'] == 'c' and a['v'] is not None and a['v'] >= 0:
                return (0, a['v'])
        rs = [value_range(F, a, depth + 1, seen) for a in i['ops']]
        c = [r[1] for r in rs if r and r != 'cycle' and r[0] >= 0]
        return (0, min(c)) if c else None
    if op == 'lshr' and i['ops'][1]['k'] == 'c' and 0 < i['ops'][1]['v'] < 32 and i['ty'] == 'i32':
        return (0, (1 << (32 - i['ops'][1]['v'])) - 1)
    if op in ('select', 'phi'):
        ops = i['ops'][1:] if op == 'select' else i['ops']
        lo, hi = None, None
        for a in ops:
            r = value_range(F, a, depth + 1, seen | {o['v']})
            if r == 'cycle':
                continue
            if r is None:
                return None
            lo = r[0] if lo is None else min(lo, r[0])
            hi = r[1] if hi is None else max(hi, r[1])
        return (lo, hi) if lo is not None else None
    if op == 'icmp':
        return (0, 1)
    return None


# ---------------------------------------------------------------------------------------------
class Depth:
    """exhaustive stack-depth analysis over all words reachable from the entry"""
    def __init__(self, prog, eff, noreturn=('fail',)):
        self.p = prog
        self.eff = eff
        self.noreturn = set(noreturn)
        self.memo = {}
        self.problems = []
        self.active = []

    def native(self, i, lastconst):
        """-> (dip, peak, [net deltas], returns?)"""
        e = self.eff[i.arg]
        name = i.name
        dp = e['dp']
        nets = set(dp['ret']) | (set() if e['failexit'] else set(dp['exit']))
        if not nets and e['failexit']:
            return dp['dip'], dp['peak'], [], e
        if None in nets or not nets:
            self.problems.append(('unknown-effect', name, sorted(str(x) for x in nets)))
            nets = set(x for x in nets if x is not None) or {0}
        return dp['dip'], dp['peak'], sorted(nets), e

    def word(self, w):
        if w in self.memo:
            return self.memo[w]
        if w in self.active:
            self.problems.append(('recursion', 'W%d' % w, [x for x in self.active]))
            return (0, 0, 0)
        self.active.append(w)
        W = self.p.words[w]
        seen = {}
        net = [None]
        peak = [0]
        rmax = [W.nloc + 1]
        rnative = [0]
        stack = [(W.start, 0)]
        while stack:
            pc, d = stack.pop()
            while True:
                if pc in seen:
                    if seen[pc] != d:
                        self.problems.append(('imbalance', 'W%d@%d' % (w, pc), [seen[pc], d]))
                    break
                seen[pc] = d
                i = W.ins[pc]
                k = i.kind
                if k == 'ret':
                    if net[0] is None:
                        net[0] = d
                    elif net[0] != d:
                        self.problems.append(('ret-imbalance', 'W%d' % w, [net[0], d]))
                    break
                if k == 'const' or k == 'getlocal':
                    d += 1
                elif k == 'putlocal':
                    d -= 1
                elif k == 'jump':
                    pc = i.arg
                    peak[0] = max(peak[0], d)
                    continue
                elif k in ('jumpif', 'jumpifnot'):
                    d -= 1
                    stack.append((i.arg, d))
                elif k == 'native':
                    dip, pk, nets, e = self.native(i, None)
                    peak[0] = max(peak[0], d + pk)
                    rmax[0] = max(rmax[0], W.nloc + 1 + e['rp']['peak'])
                    if not nets:
                        break
                    for n2 in nets[1:]:
                        stack.append((i.next, d + n2))
                    d += nets[0]
                elif k == 'call':
                    n, pk, rm = self.word(i.arg)
                    peak[0] = max(peak[0], d + pk)
                    rmax[0] = max(rmax[0], W.nloc + 1 + rm)
                    if n is None:
                        break
                    d += n
                peak[0] = max(peak[0], d)
                pc = i.next
                if pc not in W.ins:
                    self.problems.append(('fall-off-end', 'W%d' % w, [pc]))
                    break
        self.active.pop()
        self.memo[w] = (net[0], peak[0], rmax[0])
        return self.memo[w]


# ---------------------------------------------------------------------------------------------
def kernel_semantics(prog):
    """Symbolic effect of every straight-line native on the data stack, derived from the IR of its case body:
    {native name: {slot delta: expression string}} and {'stores': [...]} for context stores.  slot s(-1) = top of stack on entry."""
    f = next((x for x in prog.unit['functions'] if x['name'] == prog.runfn and not x['decl']), None)
    F = irf.Func(prog.unit, f)
    roots = {}
    for i in F.insts.values():
        if i['op'] == 'load' and F.block_of[i['id']] == F.entry and i['ty'] == 'i32*':
            base, off = F.addr_of(i['ops'][0])
            if base == {'k': 'a', 'v': 0} and off == 0:
                roots['dp'] = i['id']
    H = [i for i in F.insts.values() if i['op'] == 'phi' and any(o == {'k': 'i', 'v': roots['dp']} for o in i['ops'])][0]
    hb = F.block_of[H['id']]
    sw = sorted([i for i in F.insts.values() if i['op'] == 'switch'], key=lambda i: -len(i['ops']))[0]
    ops = sw['ops']
    cases = {ops[k]['v']: ops[k + 1]['v'] for k in range(2, len(ops), 2)}
    bid = {b['id']: b for b in F.blocks}

    def pdelta(o, depth=0):
        """delta (in slots) of a pointer into the data stack relative to dp on entry of the native; None if not such a pointer"""
        if o['k'] != 'i' or depth > 12:
            return None
        if o['v'] == H['id']:
            return 0
        i = F.insts[o['v']]
        if i['op'] == 'bitcast':
            return pdelta(i['ops'][0], depth + 1)
        if i['op'] == 'getelementptr' and not i.get('var') and i.get('off') is not None:
            d = pdelta(i['ops'][0], depth + 1)
            return None if d is None else d + i['off'] // 4
        return None

    def expr(o, depth=0):
        if o['k'] == 'c':
            return str(o['v'])
        if o['k'] == 'null':
            return '0'
        if o['k'] == 'a':
            return 'ctx' if o['v'] == 0 else 'arg%d' % o['v']
        if o['k'] in ('g', 'f'):
            return '@' + o['v']
        if o['k'] in ('cegep', 'cecast'):
            return expr(o['base'], depth + 1) + ('+%d' % o['off'] if o.get('off') else '')
        if o['k'] != 'i' or depth > 14:
            return '?'
        i = F.insts[o['v']]
        op = i['op']
        if op == 'load':
            d = pdelta(i['ops'][0])
            if d is not None:
                return 's(%d)' % d
            return 'load%d(%s)' % (i['size'], expr(i['ops'][0], depth + 1))
        if op in ('zext', 'sext', 'trunc'):
            src = i['ops'][0]
            sty = F.insts[src['v']]['ty'] if src['k'] == 'i' else None
            inner = expr(src, depth + 1)
            if op == 'trunc' or sty in (None, 'i32', 'i64'):
                return inner if op != 'trunc' or i['ty'] in ('i32', 'i64') else 'trunc%s(%s)' % (i['ty'][1:], inner)
            return '%s%s(%s)' % (op, sty[1:], inner)
        if op in ('bitcast', 'inttoptr', 'ptrtoint'):
            return expr(i['ops'][0], depth + 1)
        if op == 'sub' and i['ops'][0]['k'] == 'c' and i['ops'][0]['v'] == 0:
            return 'neg(%s)' % expr(i['ops'][1], depth + 1)
        if op == 'xor' and i['ops'][1]['k'] == 'c' and i['ops'][1]['v'] == -1:
            return 'not(%s)' % expr(i['ops'][0], depth + 1)
        if op in ('add', 'sub', 'mul', 'and', 'or', 'xor', 'shl', 'lshr', 'ashr', 'udiv', 'sdiv', 'urem', 'srem'):
            return '%s(%s,%s)' % (op, expr(i['ops'][0], depth + 1), expr(i['ops'][1], depth + 1))
        if op == 'icmp':
            return 'icmp_%s(%s,%s)' % (i['pred'], expr(i['ops'][0], depth + 1), expr(i['ops'][1], depth + 1))
        if op == 'getelementptr':
            base = expr(i['ops'][0], depth + 1)
            parts = [base]
            if i.get('off'):
                parts.append(str(i['off']))
            for vo, sc in i.get('var') or []:
                parts.append(('%d*' % sc if sc != 1 else '') + expr(vo, depth + 1))
            return '+'.join(parts) if len(parts) > 1 else base
        if op == 'call':
            return '%s(%s)' % (i.get('callee') or 'icall', ','.join(expr(a, depth + 1) for a in i['ops']))
        if op == 'select':
            return 'select(%s,%s,%s)' % tuple(expr(a, depth + 1) for a in i['ops'])
        return '?' + op

    res = {}
    for opc, tb in cases.items():
        name = prog.natives[opc]
        # straight-line natives only: follow unique successors until the header / latch
        blocks = []
        b = tb
        okk = True
        seen = set()
        while b != hb and b not in seen:
            seen.add(b)
            blocks.append(b)
            if len(F.succ[b]) != 1:
                okk = False
                break
            b = F.succ[b][0]
            if len(F.pred[b]) > 1:
                break          # merged into the shared latch
        if not okk:
            continue
        slots, stores, calls = {}, [], []
        for b in blocks:
            for i in bid[b]['insts']:
                if i['op'] == 'store':
                    d = pdelta(i['ops'][1])
                    if d is not None:
                        slots[d] = expr(i['ops'][0])
                    else:
                        a = expr(i['ops'][1])
                        if a.startswith('ctx'):
                            stores.append('store%d(%s)=%s' % (i['size'], a, expr(i['ops'][0])))
                elif i['op'] == 'call' and not (i.get('callee') or '').startswith('llvm.dbg') and i['ty'] == 'void':
                    calls.append(expr({'k': 'i', 'v': i['id']}))
        res[name] = dict(slots=slots, stores=stores, calls=calls)
    return res


def ctx_base_offset(prog):
    """offset applied to arg0 (the cpu sub-structure) to reach the context: CTX = (ctx *)((char *)t0ctx - offsetof(ctx, cpu))"""
    pre = 'eng.' if prog.key.startswith('hs_') else ''
    return -prog.layouts.field(prog.ctxname, pre + 'cpu')[0]
