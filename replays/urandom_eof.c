/* Replay of the C20 finding: seeder_urandom() (src/rand/sysrng.c) loops forever when read() on /dev/urandom returns 0 (end of
 * file: an empty regular file in a broken chroot / container image): len == 0 neither advances the fill count nor leaves the loop,
 * so the engine spins inside br_ssl_engine_init_rand instead of reporting BR_ERR_NO_RANDOM.
 * sysrng.c is compiled with only the urandom seeder enabled and open() is interposed so that "/dev/urandom" is an empty file.
 * See run_urandom_eof.sh.  exit 0 = the seeder reports failure, 1 = it is still spinning after 3 s. */
#define _GNU_SOURCE
#include <stdio.h>
#include <stdlib.h>
#include <string.h>
#include <signal.h>
#include <unistd.h>
#include <fcntl.h>
#include "bearssl.h"

static char empty[64];

int open(const char *path, int flags, ...)
{
	if (strcmp(path, "/dev/urandom") == 0) {
		path = empty;
	}
	return openat(AT_FDCWD, path, flags, 0600);
}

static void on_alarm(int sig)
{
	(void)sig;
	printf("DEFECT: seeder still spinning after 3 s on EOF from /dev/urandom\n");
	unlink(empty);
	_exit(1);
}

int main(void)
{
	br_hmac_drbg_context rng;
	br_prng_seeder sd;
	const char *name;
	int f, r;

	setvbuf(stdout, NULL, _IONBF, 0);
	strcpy(empty, "/tmp/verif_empty_urandom_XXXXXX");
	f = mkstemp(empty);
	close(f);
	br_hmac_drbg_init(&rng, &br_sha256_vtable, NULL, 0);
	sd = br_prng_seeder_system(&name);
	printf("seeder: %s\n", name);
	signal(SIGALRM, on_alarm);
	alarm(3);
	r = sd(&rng.vtable);
	unlink(empty);
	printf("seeder returned %d (expected 0)\n", r);
	return r != 0;
}
