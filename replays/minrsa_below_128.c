/* Replay of the C04 finding: br_x509_minimal_set_minrsa() with a byte length below 128 makes every RSA certificate fail with
 * BR_ERR_X509_WEAK_PUBLIC_KEY: min_rsa_size is an int16_t holding (byte_length - 128), negative for byte_length < 128, but the
 * bytecode reads it with the unsigned get16 accessor, so a 64-byte minimum becomes a 65600-byte one.
 * Run from /repo (uses test/x509): cc -I/repo/inc minrsa_below_128.c /repo/build/libbearssl.a ; exit 0 = all four minimums accept the
 * 2048-bit test chain, 1 = defect. */
#include <stdio.h>
#include <stdlib.h>
#include <string.h>
#include "bearssl.h"

static unsigned char *rd(const char *n, size_t *len)
{
	FILE *f = fopen(n, "rb"); unsigned char *b = malloc(8192);
	if (!f) { perror(n); exit(2); }
	*len = fread(b, 1, 8192, f); fclose(f); return b;
}
static unsigned char dn[512]; static size_t dnlen;
static void app(void *c, const void *b, size_t l)
{ (void)c; memcpy(dn + dnlen, b, l); dnlen += l; }

static unsigned run(int minrsa)
{
	static const char *names[] = { "test/x509/ee.crt",
		"test/x509/ica2.crt", "test/x509/ica1.crt" };
	br_x509_decoder_context dc; br_x509_pkey *pk;
	br_x509_trust_anchor ta; br_x509_minimal_context xc;
	static unsigned char n[512], e[8]; size_t l; unsigned char *c; int i;

	dnlen = 0;
	c = rd("test/x509/root.crt", &l);
	br_x509_decoder_init(&dc, app, NULL, 0, NULL);
	br_x509_decoder_push(&dc, c, l);
	pk = br_x509_decoder_get_pkey(&dc);
	if (!pk) exit(2);
	memcpy(n, pk->key.rsa.n, pk->key.rsa.nlen);
	memcpy(e, pk->key.rsa.e, pk->key.rsa.elen);
	ta.dn.data = dn; ta.dn.len = dnlen; ta.flags = BR_X509_TA_CA;
	ta.pkey.key_type = BR_KEYTYPE_RSA;
	ta.pkey.key.rsa.n = n; ta.pkey.key.rsa.nlen = pk->key.rsa.nlen;
	ta.pkey.key.rsa.e = e; ta.pkey.key.rsa.elen = pk->key.rsa.elen;
	br_x509_minimal_init(&xc, &br_sha256_vtable, &ta, 1);
	br_x509_minimal_set_hash(&xc, br_sha256_ID, &br_sha256_vtable);
	br_x509_minimal_set_rsa(&xc, &br_rsa_i31_pkcs1_vrfy);
	/* 2016-08-30 18:00:00 UTC, as in test/x509/alltests.txt */
	br_x509_minimal_set_time(&xc, 17043 + 719528, 64800);
	if (minrsa) br_x509_minimal_set_minrsa(&xc, minrsa);
	xc.vtable->start_chain(&xc.vtable, "www.example.com");
	for (i = 0; i < 3; i ++) {
		c = rd(names[i], &l);
		xc.vtable->start_cert(&xc.vtable, l);
		xc.vtable->append(&xc.vtable, c, l);
		xc.vtable->end_cert(&xc.vtable);
	}
	return xc.vtable->end_chain(&xc.vtable);
}

int main(void)
{
	unsigned a = run(0), b = run(256), c = run(100), d = run(64), e = run(300);
	printf("default minimum (128 bytes): status %u\n", a);
	printf("minimum 256 bytes (all keys are 2048 bits): status %u\n", b);
	printf("minimum 100 bytes: status %u (expected 0)\n", c);
	printf("minimum  64 bytes: status %u (expected 0)\n", d);
	printf("minimum 300 bytes: status %u (expected 60, the keys are 256 bytes)\n", e);
	return (a == 0 && b == 0 && c == 0 && d == 0 && e == 60) ? 0 : 1;
}
