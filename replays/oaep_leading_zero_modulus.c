/*
 * Defect in the UNMODIFIED code (not part of the seeded patch):
 * br_rsa_oaep_pad() computes the "actual modulus length" by stripping
 * TRAILING zero bytes (pk->n[k - 1]) instead of LEADING ones, so a public
 * key whose modulus field carries a leading 0x00 byte (as produced by many
 * DER decoders that keep the INTEGER sign byte) cannot be used for OAEP
 * encryption: the padded length is nlen (with the zero), and the public-key
 * core then rejects it (xlen != stripped nlen) -> encrypt returns 0.
 * All other operations (public op, PKCS#1 verify, PSS verify) accept such
 * a key.  Exit 0 = no defect, 1 = defect reproduced.
 */
#include <stdio.h>
#include <string.h>
#include "bearssl.h"

int
main(void)
{
	br_hmac_drbg_context rng;
	unsigned char kbuf_priv[BR_RSA_KBUF_PRIV_SIZE(1024)];
	unsigned char kbuf_pub[BR_RSA_KBUF_PUB_SIZE(1024)];
	unsigned char n2[130], out[160], x[130];
	br_rsa_private_key sk;
	br_rsa_public_key pk, pk2;
	size_t l1, l2;

	br_hmac_drbg_init(&rng, &br_sha256_vtable, "seed", 4);
	if (!br_rsa_i31_keygen(&rng.vtable, &sk, kbuf_priv, &pk, kbuf_pub,
		1024, 65537))
	{
		printf("keygen failed\n");
		return 2;
	}
	/* Same key, modulus encoded with one leading zero byte. */
	n2[0] = 0x00;
	memcpy(n2 + 1, pk.n, pk.nlen);
	pk2 = pk;
	pk2.n = n2;
	pk2.nlen = pk.nlen + 1;

	/* The raw public operation accepts the leading zero. */
	memset(x, 0x33, pk.nlen);
	x[0] = 0;
	printf("raw public op with leading-zero modulus: %s\n",
		br_rsa_i31_public(x, pk.nlen, &pk2) ? "accepted" : "rejected");

	l1 = br_rsa_i31_oaep_encrypt(&rng.vtable, &br_sha256_vtable,
		NULL, 0, &pk, out, sizeof out, "hello", 5);
	l2 = br_rsa_i31_oaep_encrypt(&rng.vtable, &br_sha256_vtable,
		NULL, 0, &pk2, out, sizeof out, "hello", 5);
	printf("OAEP encrypt, canonical modulus   : returned %u\n", (unsigned)l1);
	printf("OAEP encrypt, leading-zero modulus: returned %u\n", (unsigned)l2);
	if (l1 != pk.nlen) {
		printf("unexpected: canonical key failed\n");
		return 2;
	}
	if (l2 != pk.nlen) {
		printf("DEFECT: OAEP encryption fails when the modulus has a leading zero byte\n");
		return 1;
	}
	printf("no defect\n");
	return 0;
}
