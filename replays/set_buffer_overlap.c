/* Replay of the C06 finding: br_ssl_engine_set_buffer(.., bidi = 1) places the output area at buf + w instead of
 * buf + buf_len - w, so the input and output areas overlap (and the tail of the caller's buffer is unused).
 * cc -I/repo/inc set_buffer_overlap.c /repo/build/libbearssl.a ; exit 0 = disjoint for all sizes tried, 1 = overlap. */
#include <stdio.h>
#include <stdlib.h>
#include "bearssl.h"

int main(void)
{
	static const size_t sizes[] = { 1434, 2000, 4000, 16709 + 597, BR_SSL_BUFSIZE_BIDI };
	size_t k;
	int bad = 0;

	for (k = 0; k < sizeof sizes / sizeof sizes[0]; k ++) {
		br_ssl_client_context cc;
		br_x509_minimal_context xc;
		unsigned char *buf = malloc(sizes[k]);
		unsigned char *i0, *i1, *o0, *o1;

		br_ssl_client_init_full(&cc, &xc, NULL, 0);
		br_ssl_engine_set_buffer(&cc.eng, buf, sizes[k], 1);
		i0 = cc.eng.ibuf; i1 = i0 + cc.eng.ibuf_len;
		o0 = cc.eng.obuf; o1 = o0 + cc.eng.obuf_len;
		printf("buf_len=%5u  in=[%5ld,%5ld)  out=[%5ld,%5ld)  %s\n", (unsigned)sizes[k],
			(long)(i0 - buf), (long)(i1 - buf), (long)(o0 - buf), (long)(o1 - buf),
			(o0 < i1 && i0 < o1) ? "OVERLAP" : "disjoint");
		if (o0 < i1 && i0 < o1) bad ++;
		if (o1 > buf + sizes[k] || i1 > buf + sizes[k]) { printf("  outside the caller's buffer\n"); bad ++; }
		free(buf);
	}
	return bad != 0;
}
