/*
 * Defect in the UNMODIFIED tree (not part of the seeded patch):
 * br_ec_p256_m62 / br_ec_p256_m64 (and therefore br_ec_all_m31 and
 * br_ec_get_default() for P-256 on 64-bit hosts) never check that the
 * decoded X and Y coordinates are below the field modulus p. They are
 * reduced modulo p silently, so non-canonical encodings of valid points
 * are accepted although C11 says "x>=p ... makes the operation report
 * failure".  prime_i15, prime_i31, p256_m15 and p256_m31 reject them.
 *
 * Exit 0 = every implementation rejects; 1 = some accept.
 */
#include <stdio.h>
#include <string.h>
#include "bearssl.h"

static size_t
hex2bin(unsigned char *dst, const char *s)
{
	size_t n = 0;
	while (s[0] && s[1]) {
		unsigned v;
		sscanf(s, "%2x", &v);
		dst[n ++] = (unsigned char)v;
		s += 2;
	}
	return n;
}

int
main(void)
{
	/* (X = p + 5, Y) : (5, Y) is a valid P-256 point */
	static const char *PT1 = "04"
		"FFFFFFFF00000001000000000000000000000001000000000000000000000004"
		"459243B9AA581806FE913BCE99817ADE11CA503C64D9A3C533415C083248FBCC";
	/* canonical form of the same point */
	static const char *PT1C = "04"
		"0000000000000000000000000000000000000000000000000000000000000005"
		"459243B9AA581806FE913BCE99817ADE11CA503C64D9A3C533415C083248FBCC";
	/* (X = p, Y = sqrt(b)) : (0, sqrt(b)) is a valid P-256 point */
	static const char *PT2 = "04"
		"FFFFFFFF00000001000000000000000000000000FFFFFFFFFFFFFFFFFFFFFFFF"
		"66485C780E2F83D72433BD5D84A06BB6541C2AF31DAE871728BF856A174F93F4";
	struct { const char *name; const br_ec_impl *impl; } I[] = {
		{ "prime_i15", &br_ec_prime_i15 },
		{ "prime_i31", &br_ec_prime_i31 },
		{ "p256_m15", &br_ec_p256_m15 },
		{ "p256_m31", &br_ec_p256_m31 },
		{ "p256_m62", br_ec_p256_m62_get() },
		{ "p256_m64", br_ec_p256_m64_get() },
		{ "all_m15", &br_ec_all_m15 },
		{ "all_m31", &br_ec_all_m31 },
		{ "default", br_ec_get_default() },
	};
	static const unsigned char k[] = { 0x07 };
	const char *pts[2];
	size_t u, v;
	int bad = 0;

	pts[0] = PT1;
	pts[1] = PT2;
	for (u = 0; u < sizeof I / sizeof I[0]; u ++) {
		if (I[u].impl == NULL) {
			printf("%-10s not available on this host\n", I[u].name);
			continue;
		}
		for (v = 0; v < 2; v ++) {
			unsigned char pt[65], c[65];
			uint32_t r;

			hex2bin(pt, pts[v]);
			r = I[u].impl->mul(pt, 65, k, sizeof k, BR_EC_secp256r1);
			printf("%-10s %s -> mul() returns %u%s\n", I[u].name,
				v == 0 ? "X=p+5" : "X=p  ", (unsigned)r,
				r ? "   <-- ACCEPTED" : "");
			if (r) {
				bad ++;
				if (v == 0) {
					hex2bin(c, PT1C);
					br_ec_prime_i31.mul(c, 65, k, sizeof k,
						BR_EC_secp256r1);
					printf("           (result equals 7*(5,Y): %s)\n",
						memcmp(c, pt, 65) == 0 ? "yes" : "no");
				}
			}
		}
	}
	return bad != 0;
}
