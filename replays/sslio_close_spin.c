/* Replay of the C19 / C05 finding: br_sslio_close() never returns when the peer has sent its close_notify and the transport then
 * fails before our own close_notify could be written (RFC 5246 7.2.1 allows the peer not to wait for it).  run_until() returned -1
 * without closing the engine in that case (shutdown_recv set), so the loop `while (state != BR_SSL_CLOSED) run_until(...)` of
 * br_sslio_close() called the failing low_write() for ever.  Expected: br_sslio_close() returns, engine closed, no error.
 * cc -I/repo/inc -I/repo -I. sslio_close_spin.c /repo/build/libbearssl.a ; exit 0 = returns (closed, err 0), 1 = spins. */
#include <stdio.h>
#include <stdlib.h>
#include <string.h>
#include "bearssl.h"
#include "samples/chain-rsa.h"
#include "samples/key-rsa.h"
#include "tas_samples.h"

static br_ssl_client_context cc;
static br_x509_minimal_context xc;
static br_ssl_server_context sc;
static unsigned char cbuf[BR_SSL_BUFSIZE_BIDI], sbuf[BR_SSL_BUFSIZE_BIDI];
static unsigned char c2s[70000], s2c[70000];
static size_t c2s_len, s2c_len;
static int wr_dead, wr_fail_calls;

/* run the server engine against the two byte queues until nothing moves */
static void srv_pump(void)
{
	for (;;) {
		unsigned char *b;
		size_t n;
		int moved = 0;

		b = br_ssl_engine_sendrec_buf(&sc.eng, &n);
		if (b != NULL) {
			memcpy(s2c + s2c_len, b, n);
			s2c_len += n;
			br_ssl_engine_sendrec_ack(&sc.eng, n);
			moved = 1;
		}
		b = br_ssl_engine_recvrec_buf(&sc.eng, &n);
		if (b != NULL && c2s_len > 0) {
			if (n > c2s_len) n = c2s_len;
			memcpy(b, c2s, n);
			memmove(c2s, c2s + n, c2s_len - n);
			c2s_len -= n;
			br_ssl_engine_recvrec_ack(&sc.eng, n);
			moved = 1;
		}
		b = br_ssl_engine_recvapp_buf(&sc.eng, &n);
		if (b != NULL) {
			br_ssl_engine_recvapp_ack(&sc.eng, n);
			moved = 1;
		}
		if (!moved) return;
	}
}

static int lr(void *ctx, unsigned char *d, size_t len)
{
	(void)ctx;
	srv_pump();
	if (s2c_len == 0) return -1;
	if (len > s2c_len) len = s2c_len;
	memcpy(d, s2c, len);
	memmove(s2c, s2c + len, s2c_len - len);
	s2c_len -= len;
	return (int)len;
}

static int lw(void *ctx, const unsigned char *d, size_t len)
{
	(void)ctx;
	if (wr_dead) {
		if (++ wr_fail_calls >= 1000) {
			printf("DEFECT: br_sslio_close() spins: low_write() failed %d times, engine state 0x%x err %d\n",
				wr_fail_calls, br_ssl_engine_current_state(&cc.eng), br_ssl_engine_last_error(&cc.eng));
			exit(1);
		}
		return -1;
	}
	memcpy(c2s + c2s_len, d, len);
	c2s_len += len;
	srv_pump();
	return (int)len;
}

int main(void)
{
	br_sslio_context io;
	char b[100];
	int r;

	br_ssl_client_init_full(&cc, &xc, TAs, TAs_NUM);
	br_ssl_engine_set_buffer(&cc.eng, cbuf, sizeof cbuf, 1);
	br_ssl_server_init_full_rsa(&sc, CHAIN, CHAIN_LEN, &RSA);
	br_ssl_engine_set_buffer(&sc.eng, sbuf, sizeof sbuf, 1);
	br_ssl_client_reset(&cc, "localhost", 0);
	br_ssl_server_reset(&sc);
	br_sslio_init(&io, &cc.eng, lr, NULL, lw, NULL);
	br_sslio_write_all(&io, "hello", 5);
	br_sslio_flush(&io);
	srv_pump();
	if (br_ssl_engine_last_error(&cc.eng) || br_ssl_engine_last_error(&sc.eng)) {
		printf("handshake failed\n");
		return 2;
	}
	/* server: close_notify, then the transport goes away */
	br_ssl_engine_close(&sc.eng);
	srv_pump();
	wr_dead = 1;
	r = br_sslio_read(&io, b, sizeof b);
	printf("br_sslio_read -> %d, client state 0x%x err %d\n", r,
		br_ssl_engine_current_state(&cc.eng), br_ssl_engine_last_error(&cc.eng));
	r = br_sslio_close(&io);
	printf("br_sslio_close -> %d, client state 0x%x err %d\n", r,
		br_ssl_engine_current_state(&cc.eng), br_ssl_engine_last_error(&cc.eng));
	if (br_ssl_engine_current_state(&cc.eng) != BR_SSL_CLOSED || br_ssl_engine_last_error(&cc.eng) != 0) {
		printf("DEFECT: not an orderly closure\n");
		return 1;
	}
	return 0;
}
