/* Replay of the C05/C02 finding: cbc_check_length() accepts record lengths that are not a multiple of the cipher block,
 * and the CBC decryption loop of the block cipher (`len -= block` until len == 0) then runs past the record buffer,
 * before any MAC check.  Build with -fsanitize=address against /repo's objects (run_cbc_unaligned.sh).
 * Exit 0 = every unaligned length is refused by check_length; 1 = accepted (and, with argument "decrypt", decrypted). */
#include <stdio.h>
#include <stdlib.h>
#include <string.h>
#include "bearssl.h"

int main(int argc, char **argv)
{
	br_sslrec_in_cbc_context rc;
	unsigned char key[24], mkey[20], iv[8];
	size_t rlen;
	int bad = 0;

	memset(key, 1, sizeof key); memset(mkey, 2, sizeof mkey); memset(iv, 3, sizeof iv);
	br_sslrec_in_cbc_vtable.init(&rc.vtable, &br_des_ct_cbcdec_vtable, key, sizeof key,
		&br_sha1_vtable, mkey, sizeof mkey, 20, iv);      /* TLS 1.0 style: implicit IV */
	for (rlen = 24; rlen <= 64; rlen ++) {
		int ok = rc.vtable->inner.check_length((const br_sslrec_in_class *const *)&rc.vtable, rlen);
		if (ok && (rlen & 7) != 0) {
			if (bad < 4) printf("3DES-CBC record of %u bytes (not a multiple of 8) passes check_length\n", (unsigned)rlen);
			bad ++;
		}
	}
	printf("%d unaligned length(s) accepted\n", bad);
	if (bad && argc > 1 && strcmp(argv[1], "decrypt") == 0) {
		/* what the engine does next with such a record: decrypt it in place (record buffer of exactly rlen bytes) */
		size_t len = 44;
		unsigned char *rec = malloc(len);
		memset(rec, 0x5A, len);
		printf("decrypting a 44-byte record...\n");
		rc.vtable->inner.decrypt((const br_sslrec_in_class **)&rc.vtable, 23, 0x0301, rec, &len);
		printf("returned\n");
		free(rec);
	}
	return bad != 0;
}
