/* Concrete replay of the C11 finding: ECDSA verification accepts r = 0 (with any non-zero s) when the hash value is 0 mod n.
 * Build: cc -I/repo/inc ecdsa_r_zero.c /repo/build/libbearssl.a ; exit 1 = defect present, 0 = rejected. */
#include <stdio.h>
#include <string.h>
#include "bearssl.h"
int main(void) {
	unsigned char hash[32], sig[64];
	size_t glen; const unsigned char *gen = br_ec_prime_i31.generator(BR_EC_secp256r1, &glen);
	br_ec_public_key pk;
	int bad = 0;
	memset(hash, 0, sizeof hash);
	memset(sig, 0, sizeof sig);
	sig[63] = 1;                       /* r = 0, s = 1 */
	pk.curve = BR_EC_secp256r1;
	pk.q = (unsigned char *)gen;   /* any valid public key: the generator itself */
	pk.qlen = glen;
	if (br_ecdsa_i31_vrfy_raw(&br_ec_prime_i31, hash, sizeof hash, &pk, sig, sizeof sig)) { printf("i31: (r=0,s=1) ACCEPTED for hash=0\n"); bad = 1; }
	if (br_ecdsa_i15_vrfy_raw(&br_ec_prime_i15, hash, sizeof hash, &pk, sig, sizeof sig)) { printf("i15: (r=0,s=1) ACCEPTED for hash=0\n"); bad = 1; }
	if (!bad) printf("r = 0 rejected by both verifiers\n");
	return bad;
}
