#!/bin/sh
# usage: run_cbc_unaligned.sh [repo] ; ASan build of the two units involved, linked over the library
R=${1:-/repo}; T=$(mktemp -d)
for f in ssl/ssl_rec_cbc symcipher/des_ct_cbcdec; do clang -g -fsanitize=address -I$R/inc -I$R/src -c $R/src/$f.c -o $T/$(basename $f).o || exit 9; done
clang -g -fsanitize=address -I$R/inc $(dirname $0)/cbc_unaligned_record.c $T/*.o $R/build/libbearssl.a -o $T/replay || exit 9
export ASAN_OPTIONS=detect_leaks=0; $T/replay decrypt 2>&1 | head -20; rc=$?
$T/replay >/dev/null; rc=$?
rm -rf $T; exit $rc
