/* Replay of the C14 finding: br_eax_aad_inject() drops a block of additional data when a call completes a
 * partially filled block and carries on (ptr in 1..15, len > 16 - ptr), and after br_eax_reset_pre_aad() when the
 * first injection is longer than 16 bytes.  Expected (RFC-independent): the tag depends only on the concatenation.
 * Build: cc -I/repo/inc eax_aad_split.c /repo/build/libbearssl.a ; exit 0 = split-independent, 1 = defect present. */
#include <stdio.h>
#include <string.h>
#include "bearssl.h"

static void tag_of(br_eax_context *ec, const unsigned char *aad, size_t a1, size_t a2, unsigned char *tag)
{
	unsigned char nonce[12] = { 1, 2, 3, 4, 5, 6, 7, 8, 9, 10, 11, 12 };
	unsigned char msg[20];

	memset(msg, 0x5A, sizeof msg);
	br_eax_reset(ec, nonce, sizeof nonce);
	br_eax_aad_inject(ec, aad, a1);
	if (a2) {
		br_eax_aad_inject(ec, aad + a1, a2);
	}
	br_eax_flip(ec);
	br_eax_run(ec, 1, msg, sizeof msg);
	br_eax_get_tag(ec, tag);
}

int main(void)
{
	unsigned char key[16], aad[64], t0[16], t1[16];
	br_aes_ct_ctrcbc_keys bc;
	br_eax_context ec;
	size_t n, s;
	int bad = 0;

	memset(key, 0x11, sizeof key);
	for (n = 0; n < sizeof aad; n ++) aad[n] = (unsigned char)(n * 7 + 1);
	br_aes_ct_ctrcbc_init(&bc, key, sizeof key);
	br_eax_init(&ec, &bc.vtable);
	for (n = 1; n <= 48; n ++) {
		tag_of(&ec, aad, n, 0, t0);
		for (s = 1; s < n; s ++) {
			tag_of(&ec, aad, s, n - s, t1);
			if (memcmp(t0, t1, 16) != 0) {
				if (bad < 5) printf("AAD of %u bytes fed as %u+%u: tag differs from one call\n", (unsigned)n, (unsigned)s, (unsigned)(n - s));
				bad ++;
			}
		}
	}
	printf("%d split(s) change the tag\n", bad);
	return bad != 0;
}
