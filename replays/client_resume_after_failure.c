/*
 * Reproduction of a defect present in the UNMODIFIED code (independent of
 * the seeded patch): a failed handshake leaves attacker-chosen session
 * parameters in the client context, and br_ssl_client_reset(..., 1) then
 * offers them for resumption.
 *
 * read-ServerHello (ssl_hs_client.t0) copies the server-chosen session ID,
 * version and cipher suite into ENG->session as soon as the ServerHello is
 * parsed, i.e. before the certificate / ServerKeyExchange / Finished have
 * been checked.  When the handshake later fails, nothing clears
 * session_id_len, and session.master_secret still holds its previous
 * value (all-zero in a context that never completed a handshake, since
 * br_ssl_client_zero() memset()s it).
 *
 * An application that reconnects with resume_session=1 (documented as
 * "if the context was previously used then the session parameters may be
 * reused") therefore sends the attacker's session ID; the attacker answers
 * with an abbreviated handshake under the all-zero master secret, which
 * he knows.  No certificate is ever validated in that second handshake.
 *
 * exit 0: client refused; exit 1: client completed an unauthenticated
 * handshake; exit 2: setup problem.
 */

#include <stdio.h>
#include <stdlib.h>
#include <string.h>
#include <stdint.h>

#include "bearssl.h"

#include "samples/chain-rsa.h"   /* public chain only; no private key used */
#include "tas_client_basic.h"

static int
move(br_ssl_engine_context *src, br_ssl_engine_context *dst)
{
	unsigned char *sb, *db;
	size_t sl, dl;

	sb = br_ssl_engine_sendrec_buf(src, &sl);
	db = br_ssl_engine_recvrec_buf(dst, &dl);
	if (sb == NULL || db == NULL) {
		return 0;
	}
	if (sl > dl) {
		sl = dl;
	}
	memcpy(db, sb, sl);
	br_ssl_engine_sendrec_ack(src, sl);
	br_ssl_engine_recvrec_ack(dst, sl);
	return 1;
}

static void
pump(br_ssl_engine_context *c, br_ssl_engine_context *s)
{
	for (;;) {
		unsigned cs = br_ssl_engine_current_state(c);
		unsigned ss = br_ssl_engine_current_state(s);
		int p;

		if (cs == BR_SSL_CLOSED || ss == BR_SSL_CLOSED) {
			return;
		}
		p = move(c, s);
		p |= move(s, c);
		if (!p) {
			return;
		}
	}
}

/* Attacker policy: ECDHE_RSA with a junk "signature" (he has no key). */
typedef struct {
	const br_ssl_server_policy_class *vtable;
} atk_policy;

static int
atk_choose(const br_ssl_server_policy_class **pctx,
	const br_ssl_server_context *cc, br_ssl_server_choices *choices)
{
	(void)pctx;
	(void)cc;
	choices->cipher_suite = BR_TLS_ECDHE_RSA_WITH_AES_128_GCM_SHA256;
	choices->algo_id = 0xFF00 + br_sha256_ID;
	choices->chain = CHAIN;
	choices->chain_len = CHAIN_LEN;
	return 1;
}

static uint32_t
atk_keyx(const br_ssl_server_policy_class **pctx,
	unsigned char *data, size_t *len)
{
	(void)pctx; (void)data; (void)len;
	return 0;
}

static size_t
atk_sign(const br_ssl_server_policy_class **pctx, unsigned algo_id,
	unsigned char *data, size_t hv_len, size_t len)
{
	(void)pctx; (void)algo_id; (void)hv_len; (void)len;
	memset(data, 0x42, 256);
	return 256;
}

static const br_ssl_server_policy_class atk_vtable = {
	sizeof(atk_policy), atk_choose, atk_keyx, atk_sign
};

/* Attacker "session cache": every offered ID resumes with master = 0. */
typedef struct {
	const br_ssl_session_cache_class *vtable;
} atk_cache;

static void
ac_save(const br_ssl_session_cache_class **ctx,
	br_ssl_server_context *server_ctx,
	const br_ssl_session_parameters *params)
{
	(void)ctx; (void)server_ctx; (void)params;
}

static int
ac_load(const br_ssl_session_cache_class **ctx,
	br_ssl_server_context *server_ctx,
	br_ssl_session_parameters *params)
{
	(void)ctx; (void)server_ctx;
	params->version = BR_TLS12;
	params->cipher_suite = BR_TLS_ECDHE_RSA_WITH_AES_128_GCM_SHA256;
	memset(params->master_secret, 0, sizeof params->master_secret);
	return 1;
}

static const br_ssl_session_cache_class ac_vtable = {
	sizeof(atk_cache), ac_save, ac_load
};

static br_ssl_server_context sc;
static br_ssl_client_context cc;
static br_x509_minimal_context xc;
static unsigned char c_iobuf[BR_SSL_BUFSIZE_BIDI], s_iobuf[BR_SSL_BUFSIZE_BIDI];

static void
server_start(atk_policy *ap, atk_cache *ac)
{
	static const br_rsa_private_key NOKEY;

	br_ssl_server_init_full_rsa(&sc, CHAIN, CHAIN_LEN, &NOKEY);
	ap->vtable = &atk_vtable;
	br_ssl_server_set_policy(&sc, &ap->vtable);
	if (ac != NULL) {
		ac->vtable = &ac_vtable;
		br_ssl_server_set_cache(&sc, &ac->vtable);
	}
	br_ssl_engine_set_buffer(&sc.eng, s_iobuf, sizeof s_iobuf, 1);
	if (!br_ssl_server_reset(&sc)) {
		exit(2);
	}
}

int
main(void)
{
	atk_policy ap;
	atk_cache ac;
	unsigned st;

	/* The application's client: full profile, proper trust anchors. */
	br_ssl_client_init_full(&cc, &xc, TAs, TAs_NUM);
	br_ssl_engine_set_buffer(&cc.eng, c_iobuf, sizeof c_iobuf, 1);

	/* Connection 1: attacker answers, handshake fails (as it must). */
	if (!br_ssl_client_reset(&cc, "localhost", 0)) {
		return 2;
	}
	server_start(&ap, NULL);
	pump(&cc.eng, &sc.eng);
	st = br_ssl_engine_current_state(&cc.eng);
	printf("connection 1: client state %s, error %d (expected: closed,"
		" BR_ERR_BAD_SIGNATURE=%d)\n",
		st == BR_SSL_CLOSED ? "closed" : "open",
		br_ssl_engine_last_error(&cc.eng), BR_ERR_BAD_SIGNATURE);
	if (st != BR_SSL_CLOSED) {
		return 2;
	}
	printf("after failure: session_id_len=%u version=0x%04X suite=0x%04X"
		" master_secret[0..3]=%02x%02x%02x%02x\n",
		cc.eng.session.session_id_len, cc.eng.session.version,
		cc.eng.session.cipher_suite,
		cc.eng.session.master_secret[0], cc.eng.session.master_secret[1],
		cc.eng.session.master_secret[2], cc.eng.session.master_secret[3]);

	/* Connection 2: application retries, asking for resumption. */
	if (!br_ssl_client_reset(&cc, "localhost", 1)) {
		return 2;
	}
	server_start(&ap, &ac);
	pump(&cc.eng, &sc.eng);
	st = br_ssl_engine_current_state(&cc.eng);
	if (st != BR_SSL_CLOSED && (st & BR_SSL_SENDAPP)) {
		printf("connection 2: client is READY FOR APPLICATION DATA;"
			" no certificate was validated, peer has no key\n");
		return 1;
	}
	printf("connection 2: client refused (error %d)\n",
		br_ssl_engine_last_error(&cc.eng));
	return 0;
}
