#!/bin/sh
# usage: run_ecdsa_nonce_bitlen.sh [repo]: instructions executed in br_iXX_rshift when br_ecdsa_iXX_bits2int processes a nonce
# whose top byte is FF / 7F / 00 (the nonce k is secret: the counts must not differ).  exit 1 = counts differ.
R=${1:-/repo}; T=$(mktemp -d)
cc -g -O1 -I$R/inc -I$R/src -o $T/k $(dirname $0)/ecdsa_nonce_bitlen.c $R/build/libbearssl.a || exit 9
rc=0
for w in 15 31; do
	prev=""
	for top in FF 7F 00; do
		n=$(valgrind --tool=callgrind --callgrind-out-file=/dev/null --toggle-collect=br_i${w}_rshift $T/k $top $w 2>&1 | awk '/Collected/ {print $NF}')
		echo "i$w top byte 0x$top: $n instructions in br_i${w}_rshift"
		[ -n "$prev" ] && [ "$prev" != "$n" ] && rc=1
		prev=$n
	done
done
rm -rf $T; exit $rc
