/*
 * Reproductions of defects noticed in the UNMODIFIED code while building
 * the C19 demo. Not part of run.sh. Build:
 *   cc -Iinc -Isrc -Wno-unused-function -o _seed/unmodified_defects \
 *      _seed/unmodified_defects.c build/libbearssl.a
 * Prints what it observes; exit status is the number of defects observed.
 */
#define DEMO_NO_MAIN
#include "reneg_defects_harness.c"

static int observed = 0;

/*
 * D1. Server accepts a renegotiation ClientHello that carries NO
 * renegotiation_info extension although the client proved RFC 5746
 * support in the first handshake (server reneg == 2). RFC 5746 3.7
 * requires the server to abort. We simulate the non-conforming client
 * with a BearSSL client whose 'reneg' byte is forced to 1 ("server does
 * not support secure renegotiation" => extension omitted) while the
 * ClientHello is being produced, and set back to 2 afterwards so that the
 * client itself accepts the server's answer.
 */
static void
dump_records(const char *banner, const bpipe *p)
{
	size_t u;

	printf("   %s:", banner);
	for (u = 0; u + 5 <= p->len;) {
		size_t rl = ((size_t)p->buf[u + 3] << 8) | p->buf[u + 4];
		printf(" [type %d, %u bytes]", p->buf[u], (unsigned)rl);
		u += 5 + rl;
	}
	printf("\n");
}

static void
defect_D1_run(int omit)
{
	world *w = &W;
	size_t len;
	int r;
	unsigned char sf[24];

	printf("D1(%s). renegotiation ClientHello %s renegotiation_info\n",
		omit ? "attack" : "control", omit ? "WITHOUT" : "with");
	setup(w);
	run(w);
	printf("   after handshake 1: client reneg=%d server reneg=%d\n",
		w->cc.eng.reneg, w->sc.eng.reneg);

	memcpy(sf, w->sc.eng.saved_finished, 24);
	if (omit) {
		/*
		 * br_ssl_engine_renegotiate() refuses to run when
		 * reneg == 1, so we replay what it does (its static helper
		 * jump_handshake(cc, 2)) by hand, with reneg forced to 1:
		 * the ClientHello is then produced without the extension.
		 */
		br_ssl_engine_context *e = &w->cc.eng;

		e->reneg = 1;
		e->hbuf_in = NULL;
		e->hlen_in = 0;
		e->saved_hbuf_out = e->hbuf_out =
			br_ssl_engine_sendapp_buf(e, &len);
		e->hlen_out = len;
		e->action = 2;
		e->hsrun(&e->cpu);
		if (e->hbuf_out != e->saved_hbuf_out) {
			br_ssl_engine_sendapp_ack(e,
				e->hbuf_out - e->saved_hbuf_out);
		}
		r = 1;
	} else {
		r = br_ssl_engine_renegotiate(&w->cc.eng);
	}
	printf("   renegotiation started: %d\n", r);
	/* Let the client emit the ClientHello only. */
	step(&w->cc.eng, &w->s2c, &w->c2s, &w->capp);
	dump_records("client -> server (encrypted)", &w->c2s);
	w->cc.eng.reneg = 2;       /* client again expects a bound answer */
	run(w);
	printf("   server saved_finished changed (new handshake completed): %s\n",
		memcmp(sf, w->sc.eng.saved_finished, 24) ? "yes" : "no");
	if (!omit) {
		return;
	}
	printf("   client: closed=%d err=%d   server: closed=%d err=%d\n",
		closed(&w->cc.eng), br_ssl_engine_last_error(&w->cc.eng),
		closed(&w->sc.eng), br_ssl_engine_last_error(&w->sc.eng));
	if (br_ssl_engine_last_error(&w->sc.eng) != BR_ERR_BAD_SECRENEG) {
		printf("   DEFECT: server did not reject with"
			" BR_ERR_BAD_SECRENEG (%d)\n", BR_ERR_BAD_SECRENEG);
		observed ++;
	} else {
		printf("   server rejected (ok)\n");
	}
}

/*
 * D2. The server application requests a renegotiation while a client
 * application-data record is still in flight: the server clears its
 * application_data flag when sending HelloRequest, so the in-flight
 * record kills the connection with BR_ERR_UNEXPECTED.
 */
static void
defect_D2(void)
{
	world *w = &W;
	int r;

	printf("D2. server-requested renegotiation with client data in"
		" flight\n");
	setup(w);
	run(w);
	app_write(&w->cc.eng, "in flight");
	/* move the record into the pipe, do not deliver yet */
	step(&w->cc.eng, &w->s2c, &w->c2s, &w->capp);
	r = br_ssl_engine_renegotiate(&w->sc.eng);
	printf("   br_ssl_engine_renegotiate(server) = %d\n", r);
	run(w);
	printf("   server got %u app bytes; client: closed=%d err=%d"
		"   server: closed=%d err=%d\n", (unsigned)w->sapp.len,
		closed(&w->cc.eng), br_ssl_engine_last_error(&w->cc.eng),
		closed(&w->sc.eng), br_ssl_engine_last_error(&w->sc.eng));
	if (br_ssl_engine_last_error(&w->sc.eng) != 0 || w->sapp.len != 9) {
		printf("   DEFECT: data stream not intact across"
			" server-requested renegotiation\n");
		observed ++;
	} else {
		printf("   ok\n");
	}
}

/*
 * D3. A cleartext close_notify {1,0} injected before the ServerHello
 * makes the client finish "cleanly" (closed, last_error == 0) although
 * no handshake ever completed.
 */
static void
defect_D3(void)
{
	world *w = &W;
	unsigned char rec[7] = { 21, 3, 3, 0, 2, 1, 0 };

	printf("D3. cleartext close_notify injected during the first"
		" handshake\n");
	setup(w);
	step(&w->cc.eng, &w->s2c, &w->c2s, &w->capp);
	pipe_put(&w->s2c, rec, sizeof rec);
	run(w);
	printf("   client: closed=%d err=%d   server: closed=%d err=%d\n",
		closed(&w->cc.eng), br_ssl_engine_last_error(&w->cc.eng),
		closed(&w->sc.eng), br_ssl_engine_last_error(&w->sc.eng));
	if (closed(&w->cc.eng) && br_ssl_engine_last_error(&w->cc.eng) == 0) {
		printf("   OBSERVATION: forged unauthenticated close_notify"
			" reported as orderly closure (error 0)\n");
		observed ++;
	}
}

/*
 * D4. The client application writes some bytes (not yet flushed into a
 * record) and then calls br_ssl_engine_renegotiate(): the call returns 1,
 * application_data is cleared and record_type_out set to 22, but the
 * handshake processor cannot write (unflushed payload occupies the output
 * buffer) and nothing ever flushes that payload (br_ssl_engine_flush() is
 * a no-op once application_data == 0). The engine is stuck: the written
 * bytes never leave, the ClientHello is never sent.
 */
static void
defect_D4(void)
{
	world *w = &W;
	unsigned char *buf;
	size_t len;
	int r;

	printf("D4. client renegotiation requested with unflushed"
		" application data\n");
	setup(w);
	run(w);
	buf = br_ssl_engine_sendapp_buf(&w->cc.eng, &len);
	memcpy(buf, "hello", 5);
	br_ssl_engine_sendapp_ack(&w->cc.eng, 5);
	r = br_ssl_engine_renegotiate(&w->cc.eng);
	printf("   br_ssl_engine_renegotiate(client) = %d\n", r);
	run(w);
	br_ssl_engine_flush(&w->cc.eng, 0);
	run(w);
	printf("   client state=0x%x err=%d application_data=%d;"
		" server got %u of 5 bytes, server state=0x%x\n",
		br_ssl_engine_current_state(&w->cc.eng),
		br_ssl_engine_last_error(&w->cc.eng),
		w->cc.eng.application_data, (unsigned)w->sapp.len,
		br_ssl_engine_current_state(&w->sc.eng));
	if (w->sapp.len != 5
		|| !(br_ssl_engine_current_state(&w->cc.eng) & BR_SSL_SENDAPP))
	{
		printf("   DEFECT: engine stuck, data never sent,"
			" renegotiation never starts\n");
		observed ++;
	} else {
		printf("   ok\n");
	}
}

int
main(void)
{
	defect_D1_run(0);
	defect_D1_run(1);
	defect_D2();
	defect_D3();
	defect_D4();
	printf("%d defect(s)/observation(s) reproduced\n", observed);
	return observed;
}
