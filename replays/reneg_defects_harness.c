/*
 * C19 demo: "a malformed alert arrives => the engine finishes with a
 * non-zero error" (and, as a consequence, closure keeps working).
 *
 * A BearSSL client and a BearSSL server are wired back to back through
 * two in-memory byte pipes. Three scenarios are run; in each one an alert
 * whose LEVEL byte is 0 (neither warning=1 nor fatal=2, i.e. malformed) is
 * delivered to one engine:
 *
 *   A. cleartext alert {0,0} injected (by a "man in the middle") in front
 *      of the ServerHello, i.e. received by the client during the handshake;
 *   B. encrypted alert {0,0} sent by the (misbehaving) server after the
 *      handshake, received by the client in application-data phase;
 *   C. cleartext alert {0,1} injected in front of the ClientHello, received
 *      by the server; if the server survives that, the handshake goes on,
 *      the client writes some data and requests closure, and we look at
 *      what happens to the close_notify exchange.
 *
 * Expected (property holds): in all three scenarios the receiving engine
 * ends up closed with last_error == BR_ERR_RECV_FATAL_ALERT + description.
 *
 * Exit status: 0 = property holds, 1 = property broken.
 */

#include <stdio.h>
#include <stdlib.h>
#include <string.h>

#include "bearssl.h"

#include "samples/chain-rsa.h"
#include "samples/key-rsa.h"

typedef struct {
	unsigned char buf[1 << 17];
	size_t len;
} bpipe;

typedef struct {
	br_ssl_client_context cc;
	br_ssl_server_context sc;
	br_x509_minimal_context xc;
	br_x509_knownkey_context kk;
	unsigned char cbuf[BR_SSL_BUFSIZE_BIDI];
	unsigned char sbuf[BR_SSL_BUFSIZE_BIDI];
	bpipe c2s, s2c;
	bpipe capp, sapp;   /* application data received by client / server */
	unsigned char nbuf[512];
	br_rsa_public_key pk;
} world;

static int failures = 0;

static void
check(int cond, const char *msg)
{
	printf("   [%s] %s\n", cond ? " ok " : "FAIL", msg);
	if (!cond) {
		failures ++;
	}
}

static void
pipe_put(bpipe *p, const void *data, size_t len)
{
	if (p->len + len > sizeof p->buf) {
		fprintf(stderr, "pipe overflow\n");
		exit(2);
	}
	memcpy(p->buf + p->len, data, len);
	p->len += len;
}

/* Move whatever can be moved for one engine; returns 1 on progress. */
static int
step(br_ssl_engine_context *e, bpipe *in, bpipe *out, bpipe *app)
{
	int progress = 0;
	unsigned char *buf;
	size_t len;

	while ((buf = br_ssl_engine_sendrec_buf(e, &len)) != NULL) {
		pipe_put(out, buf, len);
		br_ssl_engine_sendrec_ack(e, len);
		progress = 1;
	}
	while ((buf = br_ssl_engine_recvapp_buf(e, &len)) != NULL) {
		pipe_put(app, buf, len);
		br_ssl_engine_recvapp_ack(e, len);
		progress = 1;
	}
	while (in->len > 0
		&& (buf = br_ssl_engine_recvrec_buf(e, &len)) != NULL)
	{
		if (len > in->len) {
			len = in->len;
		}
		memcpy(buf, in->buf, len);
		memmove(in->buf, in->buf + len, in->len - len);
		in->len -= len;
		br_ssl_engine_recvrec_ack(e, len);
		progress = 1;
		while ((buf = br_ssl_engine_recvapp_buf(e, &len)) != NULL) {
			pipe_put(app, buf, len);
			br_ssl_engine_recvapp_ack(e, len);
		}
	}
	return progress;
}

static void
run(world *w)
{
	int i;

	for (i = 0; i < 100000; i ++) {
		int p;

		p = step(&w->cc.eng, &w->s2c, &w->c2s, &w->capp);
		p |= step(&w->sc.eng, &w->c2s, &w->s2c, &w->sapp);
		if (!p) {
			return;
		}
	}
	fprintf(stderr, "pump does not terminate\n");
	exit(2);
}

static void
setup(world *w)
{
	br_rsa_compute_modulus cm;
	br_rsa_compute_pubexp ce;
	static unsigned char ebuf[4];
	uint32_t e;

	memset(w, 0, sizeof *w);

	cm = br_rsa_compute_modulus_get_default();
	ce = br_rsa_compute_pubexp_get_default();
	w->pk.nlen = cm(w->nbuf, &RSA);
	w->pk.n = w->nbuf;
	e = ce(&RSA);
	ebuf[0] = (unsigned char)(e >> 24);
	ebuf[1] = (unsigned char)(e >> 16);
	ebuf[2] = (unsigned char)(e >> 8);
	ebuf[3] = (unsigned char)e;
	w->pk.e = ebuf;
	w->pk.elen = 4;

	br_ssl_client_init_full(&w->cc, &w->xc, NULL, 0);
	br_x509_knownkey_init_rsa(&w->kk, &w->pk,
		BR_KEYTYPE_KEYX | BR_KEYTYPE_SIGN);
	br_ssl_engine_set_x509(&w->cc.eng, &w->kk.vtable);
	br_ssl_engine_set_buffer(&w->cc.eng, w->cbuf, sizeof w->cbuf, 1);
	br_ssl_client_reset(&w->cc, "localhost", 0);

	br_ssl_server_init_full_rsa(&w->sc, CHAIN, CHAIN_LEN, &RSA);
	br_ssl_engine_set_buffer(&w->sc.eng, w->sbuf, sizeof w->sbuf, 1);
	br_ssl_server_reset(&w->sc);
}

static int
closed(br_ssl_engine_context *e)
{
	return br_ssl_engine_current_state(e) == BR_SSL_CLOSED;
}

static void
app_write(br_ssl_engine_context *e, const char *s)
{
	unsigned char *buf;
	size_t len, n;

	n = strlen(s);
	buf = br_ssl_engine_sendapp_buf(e, &len);
	if (buf == NULL || len < n) {
		fprintf(stderr, "cannot write application data\n");
		exit(2);
	}
	memcpy(buf, s, n);
	br_ssl_engine_sendapp_ack(e, n);
	br_ssl_engine_flush(e, 0);
}

/*
 * Make an engine emit an (encrypted) alert record with arbitrary contents:
 * the record layer stamps outgoing payload with record_type_out.
 */
static void
send_raw_alert(br_ssl_engine_context *e, int level, int desc)
{
	unsigned char *buf;
	size_t len;

	buf = br_ssl_engine_sendapp_buf(e, &len);
	if (buf == NULL || len < 2) {
		fprintf(stderr, "cannot write alert\n");
		exit(2);
	}
	e->record_type_out = 21;   /* alert */
	buf[0] = level;
	buf[1] = desc;
	br_ssl_engine_sendapp_ack(e, 2);
	br_ssl_engine_flush(e, 0);
	e->record_type_out = 23;   /* application data */
}

static world W;

static void
scenario_A(void)
{
	world *w = &W;
	unsigned char rec[7] = { 21, 3, 3, 0, 2, 0, 0 };
	int err;

	printf("A. cleartext alert {level=0, desc=0} injected before the"
		" ServerHello (client side)\n");
	setup(w);
	/* Client produces its ClientHello. */
	step(&w->cc.eng, &w->s2c, &w->c2s, &w->capp);
	/* The injected record gets to the client first. */
	pipe_put(&w->s2c, rec, sizeof rec);
	run(w);
	err = br_ssl_engine_last_error(&w->cc.eng);
	printf("   client: closed=%d last_error=%d\n",
		closed(&w->cc.eng), err);
	check(closed(&w->cc.eng) && err == BR_ERR_RECV_FATAL_ALERT + 0,
		"client terminated with error 256 (malformed alert is fatal)");
}

static void
scenario_B(void)
{
	world *w = &W;
	int err;

	printf("B. encrypted alert {level=0, desc=0} sent by the peer after"
		" the handshake\n");
	setup(w);
	run(w);
	if (!(br_ssl_engine_current_state(&w->cc.eng) & BR_SSL_SENDAPP)
		|| !(br_ssl_engine_current_state(&w->sc.eng) & BR_SSL_SENDAPP))
	{
		fprintf(stderr, "handshake failed (%d / %d)\n",
			br_ssl_engine_last_error(&w->cc.eng),
			br_ssl_engine_last_error(&w->sc.eng));
		exit(2);
	}
	send_raw_alert(&w->sc.eng, 0, 0);
	run(w);
	err = br_ssl_engine_last_error(&w->cc.eng);
	printf("   client: closed=%d last_error=%d\n",
		closed(&w->cc.eng), err);
	check(closed(&w->cc.eng) && err == BR_ERR_RECV_FATAL_ALERT + 0,
		"client terminated with error 256 (malformed alert is fatal)");
}

static void
scenario_C(void)
{
	world *w = &W;
	unsigned char rec[7] = { 21, 3, 0, 0, 2, 0, 1 };
	int err;

	printf("C. cleartext alert {level=0, desc=1} injected before the"
		" ClientHello (server side), then data + closure\n");
	setup(w);
	step(&w->cc.eng, &w->s2c, &w->c2s, &w->capp);
	if (w->c2s.len < 5 || w->c2s.buf[0] != 22) {
		fprintf(stderr, "no ClientHello\n");
		exit(2);
	}
	/* Use the same record version as the ClientHello record. */
	rec[1] = w->c2s.buf[1];
	rec[2] = w->c2s.buf[2];
	memmove(w->c2s.buf + sizeof rec, w->c2s.buf, w->c2s.len);
	memcpy(w->c2s.buf, rec, sizeof rec);
	w->c2s.len += sizeof rec;
	run(w);
	err = br_ssl_engine_last_error(&w->sc.eng);
	printf("   server: closed=%d last_error=%d\n",
		closed(&w->sc.eng), err);
	check(closed(&w->sc.eng) && err == BR_ERR_RECV_FATAL_ALERT + 1,
		"server terminated with error 257 (malformed alert is fatal)");
	if (closed(&w->sc.eng) || closed(&w->cc.eng)) {
		return;
	}

	/*
	 * The server swallowed the malformed alert and the handshake
	 * completed. Show what this does to an orderly closure.
	 */
	printf("   (server ignored the alert, handshake completed;"
		" server 'alert' state byte = %d)\n", w->sc.eng.alert);
	app_write(&w->cc.eng, "last words");
	br_ssl_engine_close(&w->cc.eng);
	run(w);
	printf("   after client close: server got %u app bytes;"
		" client closed=%d err=%d; server closed=%d err=%d\n",
		(unsigned)w->sapp.len,
		closed(&w->cc.eng), br_ssl_engine_last_error(&w->cc.eng),
		closed(&w->sc.eng), br_ssl_engine_last_error(&w->sc.eng));
	check(closed(&w->cc.eng) && closed(&w->sc.eng),
		"close_notify exchange completed, both engines closed");
}

/*
 * Control scenario: ordinary behaviour is unaffected (passes on both the
 * original and the modified code): orderly closure, and a peer alert
 * with another out-of-range level (3) or a regular fatal alert.
 */
static void
scenario_N(void)
{
	world *w = &W;

	printf("N. control: orderly closure; alerts {3,0} and {2,40}\n");
	setup(w);
	run(w);
	app_write(&w->cc.eng, "last words");
	br_ssl_engine_close(&w->cc.eng);
	run(w);
	check(closed(&w->cc.eng) && closed(&w->sc.eng)
		&& br_ssl_engine_last_error(&w->cc.eng) == 0
		&& br_ssl_engine_last_error(&w->sc.eng) == 0
		&& w->sapp.len == 10,
		"orderly closure: data delivered, both closed, no error");
	setup(w);
	run(w);
	send_raw_alert(&w->sc.eng, 3, 0);
	run(w);
	check(closed(&w->cc.eng)
		&& br_ssl_engine_last_error(&w->cc.eng) == 256,
		"alert {level=3, desc=0} is fatal (error 256)");
	setup(w);
	run(w);
	send_raw_alert(&w->sc.eng, 2, 40);
	run(w);
	check(closed(&w->cc.eng)
		&& br_ssl_engine_last_error(&w->cc.eng) == 256 + 40,
		"alert {level=2, desc=40} is fatal (error 296)");
}

#ifndef DEMO_NO_MAIN
int
main(void)
{
	scenario_N();
	scenario_A();
	scenario_B();
	scenario_C();
	if (failures) {
		printf("RESULT: property C19 BROKEN (%d check(s) failed)\n",
			failures);
		return 1;
	}
	printf("RESULT: property C19 holds on these scenarios\n");
	return 0;
}
#endif
